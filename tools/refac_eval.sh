#!/bin/bash
# usage: refac_eval.sh A B ...  -> apply each ${REFAC_DIR:-/tmp/refac}/<X>/r*/patch.diff to ${WTR_DIR:-/tmp/wtr}/<X>, run all checks, report non-zero exits
for X in "$@"; do
  for d in ${REFAC_DIR:-/tmp/refac}/$X/r*; do
    [ -f $d/patch.diff ] || continue
    git -C ${WTR_DIR:-/tmp/wtr}/$X checkout -q -- . ; git -C ${WTR_DIR:-/tmp/wtr}/$X apply $d/patch.diff || { echo "$X/$(basename $d): patch does not apply"; continue; }
    bad=""
    for i in 01 02 03 04 05 06 07 08 09 10 11 12 13 14 15 16 17 18 19 20; do
      out=$(cd /verif && ./check C$i --repo ${WTR_DIR:-/tmp/wtr}/$X --no-evidence 2>&1); rc=$?
      if [ $rc -ne 0 ]; then bad="$bad C$i($rc)"; echo "$out" | grep -E "^  finding|ANALYSIS-ERROR|Traceback" | head -3 | sed "s/^/      [C$i] /"; fi
    done
    echo "$X/$(basename $d): ${bad:-all 20 checks silent}"
    git -C ${WTR_DIR:-/tmp/wtr}/$X checkout -q -- .
  done
done
