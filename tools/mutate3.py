#!/usr/bin/env python3
"""Third operator set for the mutation sweep (see mutate.py / mutate2.py):
   re-assignment deleted (`x = f(x)` -> pass), keyword argument dropped from a call, wrapping call removed (`f(x)` -> `x` for
   strip/lower/int/str/sorted/list/tuple/set ...), regex literal edits in string constants (quantifier +/*, `?` dropped, {n}->{n+1},
   a character-class range narrowed, an alternative dropped), subscript index edits ([0] <-> [-1], [1:] -> [:]), `except X` widened.

  mutate3.py gen <outdir>      (ids Q0001..), then: mutate.py run <outdir> -j 16
Exploration tooling; no registered check uses it."""
import ast
import json
import os
import re
import subprocess as sp
import sys
import tempfile

sys.path.insert(0, os.path.dirname(os.path.abspath(__file__)))
from mutate2 import File, SRC, SKIP_FILES, docstring_nodes          # noqa: E402

UNWRAP = {"strip", "lstrip", "rstrip", "lower", "upper", "sorted", "list", "tuple", "set", "int", "str", "reversed", "bool", "abs"}


def mutants_of(f: File):
    out = []
    parents = {}
    for n in ast.walk(f.tree):
        for c in ast.iter_child_nodes(n):
            parents[id(c)] = n
    docs = docstring_nodes(f.tree)

    def add(a, b, new, what, line):
        if f.src[a:b] != new:
            out.append({"a": a, "b": b, "new": new, "what": what, "line": line})

    def in_logging(n):
        p = parents.get(id(n))
        while p is not None and not isinstance(p, ast.stmt):
            if isinstance(p, ast.Call) and f.seg(p.func).startswith(("logger.", "click.echo", "print", "warnings.", "click.option", "click.argument")):
                return True
            p = parents.get(id(p))
        return False
    for fn in ast.walk(f.tree):
        if not isinstance(fn, ast.FunctionDef):
            continue
        seen_targets = set()
        for n in ast.walk(fn):
            # re-assignment deleted
            if isinstance(n, ast.Assign) and len(n.targets) == 1 and isinstance(n.targets[0], ast.Name):
                nm = n.targets[0].id
                if any(isinstance(x, ast.Name) and x.id == nm for x in ast.walk(n.value)):
                    a, b = f.span(n)
                    add(a, b, "pass", f"re-assignment `{f.seg(n)[:50]}` deleted", n.lineno)
            if isinstance(n, ast.Call) and not in_logging(n):
                # keyword argument dropped
                if len(n.keywords) >= 1 and (n.args or len(n.keywords) > 1):
                    for k in n.keywords:
                        if k.arg is None:
                            continue
                        idx = n.keywords.index(k)
                        ka, kb = f.off(k.value.lineno, k.value.col_offset), f.off(k.value.end_lineno, k.value.end_col_offset)
                        start = f.src.rfind(k.arg, 0, ka)
                        # remove ", kw=value" (preceding comma) when something precedes it
                        prev_end = None
                        if idx > 0:
                            pk = n.keywords[idx - 1]
                            prev_end = f.off(pk.value.end_lineno, pk.value.end_col_offset)
                        elif n.args:
                            prev_end = f.off(n.args[-1].end_lineno, n.args[-1].end_col_offset)
                        if prev_end is not None and start > prev_end:
                            add(prev_end, kb, "", f"keyword `{k.arg}=` dropped from `{f.seg(n.func)[:30]}(...)`", n.lineno)
                # wrapping call removed
                name = n.func.attr if isinstance(n.func, ast.Attribute) else (n.func.id if isinstance(n.func, ast.Name) else None)
                if name in UNWRAP:
                    a, b = f.span(n)
                    if isinstance(n.func, ast.Attribute) and not n.keywords and len(n.args) <= 1:
                        add(a, b, "(" + f.seg(n.func.value) + ")", f"`.{name}(...)` removed", n.lineno)
                    elif isinstance(n.func, ast.Name) and len(n.args) == 1 and not n.keywords:
                        add(a, b, "(" + f.seg(n.args[0]) + ")", f"`{name}(x)` -> `x`", n.lineno)
            if isinstance(n, ast.Subscript) and isinstance(n.ctx, ast.Load):
                sl = n.slice
                if isinstance(sl, ast.Constant) and sl.value == 0:
                    a, b = f.span(sl)
                    add(a, b, "-1", "index [0] -> [-1]", n.lineno)
                elif isinstance(sl, ast.UnaryOp) and isinstance(sl.op, ast.USub) and isinstance(sl.operand, ast.Constant) and sl.operand.value == 1:
                    a, b = f.span(sl)
                    add(a, b, "0", "index [-1] -> [0]", n.lineno)
                elif isinstance(sl, ast.Slice) and sl.lower is not None and sl.upper is None and sl.step is None:
                    a, b = f.span(sl.lower)
                    add(a, b, "", "slice [k:] -> [:]", n.lineno)
                elif isinstance(sl, ast.Slice) and sl.lower is None and sl.upper is not None and sl.step is None:
                    a, b = f.span(sl.upper)
                    add(a, b, "", "slice [:k] -> [:]", n.lineno)
            if isinstance(n, ast.ExceptHandler) and n.type is not None and f.seg(n.type) not in ("Exception", "BaseException"):
                a, b = f.span(n.type)
                add(a, b, "Exception", f"`except {f.seg(n.type)[:30]}` widened to Exception", n.lineno)
    # regex-looking string constants anywhere (tables, compile calls)
    for n in ast.walk(f.tree):
        if not (isinstance(n, ast.Constant) and isinstance(n.value, str)) or id(n) in docs or in_logging(n):
            continue
        seg = f.seg(n)
        if n.lineno != n.end_lineno or not re.search(r"\\d|\[0-9|\[1-9|\(\?|\{\d", seg):
            continue
        a0, _b0 = f.span(n)
        edits = []
        for m in re.finditer(r"\+(?!\))", seg):
            edits.append((m.start(), m.end(), "*", "regex `+` -> `*`"))
        for m in re.finditer(r"(?<=[\])\w])\?", seg):
            edits.append((m.start(), m.end(), "", "regex `?` dropped"))
        for m in re.finditer(r"\{(\d+)(,?)(\d*)\}", seg):
            lo = int(m.group(1))
            edits.append((m.start(), m.end(), "{" + str(lo + 1) + m.group(2) + (str(int(m.group(3)) + 1) if m.group(3) else "") + "}", "regex {n} -> {n+1}"))
        for m in re.finditer(r"\[1-9\]", seg):
            edits.append((m.start(), m.end(), "[0-9]", "regex [1-9] -> [0-9]"))
        for m in re.finditer(r"\[0-9\]", seg):
            edits.append((m.start(), m.end(), "[1-9]", "regex [0-9] -> [1-9]"))
        for m in re.finditer(r"\|[^|()\[\]]+(?=[|)])", seg):
            edits.append((m.start(), m.end(), "", "regex alternative dropped"))
        for (s_, e_, new, what) in edits[:6]:
            add(a0 + s_, a0 + e_, new, what, n.lineno)
    seen = set()
    uniq = []
    for m in out:
        k = (m["a"], m["b"], m["new"])
        if k not in seen:
            seen.add(k)
            uniq.append(m)
    return uniq


def gen(outdir):
    os.makedirs(outdir, exist_ok=True)
    index = []
    n = 0
    for fn in sorted(os.listdir(SRC)):
        if not fn.endswith(".py") or fn in SKIP_FILES:
            continue
        f = File(os.path.join(SRC, fn))
        for m in mutants_of(f):
            new_src = f.src[:m["a"]] + m["new"] + f.src[m["b"]:]
            try:
                ast.parse(new_src)
            except SyntaxError:
                continue
            n += 1
            mid = f"Q{n:04d}"
            with tempfile.TemporaryDirectory() as td:
                for side, text in (("a", f.src), ("b", new_src)):
                    os.makedirs(os.path.join(td, side, "src/bumpver"))
                    open(os.path.join(td, side, "src/bumpver", fn), "w").write(text)
                p = sp.run(["diff", "-u", f"a/src/bumpver/{fn}", f"b/src/bumpver/{fn}"], cwd=td, capture_output=True, text=True)
                open(os.path.join(outdir, mid + ".diff"), "w").write(p.stdout)
            index.append({"id": mid, "file": fn, "line": m["line"], "what": m["what"], "code": f.lines[m["line"] - 1].strip()[:120]})
    json.dump(index, open(os.path.join(outdir, "index.json"), "w"), indent=1)
    print(len(index), "mutants")


if __name__ == "__main__":
    gen(sys.argv[2])
