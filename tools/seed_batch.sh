#!/bin/bash
# usage: seed_batch.sh C01 C05 ...   -> evaluates every variant dir, writes eval.json, prints a summary
for p in "$@"; do
  for d in ${SEED_DIR:-/tmp/seed_out}/$p/v*; do
    [ -f $d/patch.diff ] || continue
    python3 /verif/tools/seed_eval.py ${WT_DIR:-/tmp/wt}/$p $d > $d/eval.json 2>&1
    python3 - $p $d <<'PY'
import json,sys
p,d=sys.argv[1],sys.argv[2]
try:
    e=json.load(open(d+'/eval.json'))
except Exception as ex:
    print(p,d,'EVAL-ERROR',ex); sys.exit()
ok = e.get('demo_clean_exit')==0 and e.get('demo_patched_exit') not in (0,None) and '500 passed' in e.get('suite','')
fired=e.get('checks_fired',{})
own = p in fired
print(f"{p}/{d.split('/')[-1]} confirmed={ok} own_check={'FIRES' if own and fired[p]['exit']==1 else ('ERR2' if own else 'silent')} others={[k for k in fired if k!=p]}")
for k,v in fired.items():
    for f in v['findings'][:2]: print('      ',k,v['exit'],f[:150])
if e.get('error'): print('   error:',e['error'])
PY
  done
done
