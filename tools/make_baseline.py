#!/usr/bin/env python3
"""Regenerate sa/baseline_functions.json from a tree (default /repo): the frozen list of functions (with an
alpha-normalised body hash) whose decomposition the rules were confirmed against.  Run only when the rules have been
re-confirmed against a new pinned tree."""
import ast, json, os, sys
sys.path.insert(0, "/verif")
from sa.normalise import body_hash, local_names, has_ref_alias
root = os.path.join(sys.argv[1] if len(sys.argv) > 1 else "/repo", "src", "bumpver")
out = {}
out_sigs = {}
out_names = {}
out_consts = {}
out_const_values = {}
out_alias = {}
out_callers = {}
for fn in sorted(os.listdir(root)):
    if not fn.endswith(".py"):
        continue
    tree = ast.parse(open(os.path.join(root, fn)).read())
    names = {}
    sigs = {}
    lnames = {}
    aliases = []
    def scan(stmts, prefix=""):
        for st in stmts:
            if isinstance(st, (ast.FunctionDef, ast.AsyncFunctionDef)):
                names[prefix + st.name] = body_hash(st)
                sigs[prefix + st.name] = [x.arg for x in st.args.posonlyargs + st.args.args + st.args.kwonlyargs]
                lnames[prefix + st.name] = local_names(st)
                if has_ref_alias(st):
                    aliases.append(prefix + st.name)
            elif isinstance(st, ast.ClassDef):
                names[st.name] = ""
                scan(st.body, st.name + ".")
            elif isinstance(st, (ast.If, ast.Try)):
                scan(getattr(st, "body", []), prefix); scan(getattr(st, "orelse", []), prefix)
    scan(tree.body)
    out[fn[:-3]] = names
    out_const_values[fn[:-3]] = {t.id: ast.unparse(st.value) for st in tree.body if isinstance(st, (ast.Assign, ast.AnnAssign)) and st.value is not None
                                 for t in (st.targets if isinstance(st, ast.Assign) else [st.target]) if isinstance(t, ast.Name)}
    out_consts[fn[:-3]] = sorted({t.id for st in tree.body if isinstance(st, (ast.Assign, ast.AnnAssign))
                                  for t in (st.targets if isinstance(st, ast.Assign) else [st.target]) if isinstance(t, ast.Name)})
    # same-module callers by plain name (for recognising a renamed-and-edited function by its call sites)
    callers = {}
    def scan_calls(stmts, prefix=""):
        for st in stmts:
            if isinstance(st, (ast.FunctionDef, ast.AsyncFunctionDef)):
                for c in ast.walk(st):
                    if isinstance(c, ast.Call) and isinstance(c.func, ast.Name) and c.func.id in names and c.func.id != st.name:
                        callers.setdefault(c.func.id, set()).add(prefix + st.name)
            elif isinstance(st, ast.ClassDef):
                scan_calls(st.body, st.name + ".")
            elif isinstance(st, (ast.If, ast.Try)):
                scan_calls(getattr(st, "body", []), prefix); scan_calls(getattr(st, "orelse", []), prefix)
            else:
                for c in ast.walk(st):
                    if isinstance(c, ast.Call) and isinstance(c.func, ast.Name) and c.func.id in names:
                        callers.setdefault(c.func.id, set()).add("<module>")
    scan_calls(tree.body)
    out_callers[fn[:-3]] = {k: sorted(v) for k, v in callers.items()}
    out_sigs[fn[:-3]] = sigs
    out_names[fn[:-3]] = lnames
    out_alias[fn[:-3]] = sorted(aliases)
json.dump(out, open("/verif/sa/baseline_functions.json", "w"), indent=1, sort_keys=True)
json.dump(out_sigs, open("/verif/sa/baseline_signatures.json", "w"), indent=1, sort_keys=True)
json.dump(out_names, open("/verif/sa/baseline_names.json", "w"), indent=1, sort_keys=True)
json.dump(out_callers, open("/verif/sa/baseline_callers.json", "w"), indent=1, sort_keys=True)
json.dump(out_consts, open("/verif/sa/baseline_consts.json", "w"), indent=1, sort_keys=True)
json.dump(out_const_values, open("/verif/sa/baseline_const_values.json", "w"), indent=1, sort_keys=True)
json.dump(out_alias, open("/verif/sa/baseline_ref_alias.json", "w"), indent=1, sort_keys=True)
print({k: len(v) for k, v in out.items()})
