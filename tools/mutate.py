#!/usr/bin/env python3
"""Systematic first-order mutants of /repo/src/bumpver, to look for blind spots of the checks.

  mutate.py gen  <outdir>                 write one patch per mutant (outdir/<id>.diff) and outdir/index.json
  mutate.py run  <outdir> [-j N]          for each mutant: pinned suite on a scratch copy; survivors (suite unchanged)
                                          are then given to all 20 checks; writes outdir/results.json

This is exploration tooling (it runs the test suite); no registered check uses it.  A surviving mutant that no check
reports is either equivalent, irrelevant to the 20 properties, or a blind spot - triage is manual / by sub-agents."""
import ast
import json
import os
import re
import shutil
import subprocess as sp
import sys
import tempfile
from concurrent.futures import ThreadPoolExecutor

SRC = "/repo/src/bumpver"
SKIP_FILES = {"__init__.py", "__main__.py", "pysix.py", "pathlib.py", "regexfmt.py", "utils.py"}
CMP = {ast.Lt: "<", ast.LtE: "<=", ast.Gt: ">", ast.GtE: ">=", ast.Eq: "==", ast.NotEq: "!=", ast.Is: "is", ast.IsNot: "is not", ast.In: "in", ast.NotIn: "not in"}
SWAP = {"<": ["<="], "<=": ["<"], ">": [">="], ">=": [">"], "==": ["!="], "!=": ["=="], "is": ["is not"], "is not": ["is"], "in": ["not in"], "not in": ["in"]}


def seg(lines, node):
    if node.lineno != node.end_lineno:
        return None
    return lines[node.lineno - 1][node.col_offset:node.end_col_offset]


def mutants_of(path):
    src = open(path).read()
    lines = src.splitlines(True)
    tree = ast.parse(src)
    out = []

    def add(lineno, col, end_col, new, what):
        old = lines[lineno - 1][col:end_col]
        if old == new:
            return
        out.append({"line": lineno, "col": col, "end_col": end_col, "old": old, "new": new, "what": what})
    # skip docstrings / doctests: only nodes inside function bodies or module-level tables
    for node in ast.walk(tree):
        if isinstance(node, ast.Compare) and len(node.ops) == 1 and node.lineno == node.end_lineno:
            l, r = node.left, node.comparators[0]
            if l.end_lineno != r.lineno:
                continue
            between = lines[node.lineno - 1][l.end_col_offset:r.col_offset]
            op = CMP.get(type(node.ops[0]))
            if op is None or op not in between:
                continue
            for alt in SWAP[op]:
                m = re.search(r"(?<![<>=!])" + re.escape(op) + r"(?![=])", between) if op in ("<", ">", "=") else re.search(re.escape(op), between)
                if not m:
                    continue
                add(node.lineno, l.end_col_offset + m.start(), l.end_col_offset + m.end(), alt, f"compare `{op}` -> `{alt}`")
        elif isinstance(node, ast.BoolOp) and node.lineno == node.end_lineno:
            op = "and" if isinstance(node.op, ast.And) else "or"
            alt = "or" if op == "and" else "and"
            a, b = node.values[0], node.values[1]
            if a.end_lineno == b.lineno:
                between = lines[node.lineno - 1][a.end_col_offset:b.col_offset]
                m = re.search(r"\b" + op + r"\b", between)
                if m:
                    add(node.lineno, a.end_col_offset + m.start(), a.end_col_offset + m.end(), alt, f"`{op}` -> `{alt}`")
        elif isinstance(node, ast.UnaryOp) and isinstance(node.op, ast.Not) and node.lineno == node.end_lineno:
            s_ = seg(lines, node)
            if s_ and s_.startswith("not "):
                add(node.lineno, node.col_offset, node.col_offset + 4, "", "`not` removed")
        elif isinstance(node, ast.Constant) and node.lineno == node.end_lineno:
            if isinstance(node.value, bool):
                add(node.lineno, node.col_offset, node.end_col_offset, str(not node.value), f"{node.value} -> {not node.value}")
            elif isinstance(node.value, int) and 0 <= node.value <= 3000:
                add(node.lineno, node.col_offset, node.end_col_offset, str(node.value + 1), f"{node.value} -> {node.value + 1}")
                if node.value > 0:
                    add(node.lineno, node.col_offset, node.end_col_offset, str(node.value - 1), f"{node.value} -> {node.value - 1}")
        elif isinstance(node, (ast.Continue, ast.Break)):
            add(node.lineno, node.col_offset, node.end_col_offset, "pass", f"`{type(node).__name__.lower()}` -> pass")
        elif isinstance(node, ast.Expr) and isinstance(node.value, ast.Call) and node.lineno == node.end_lineno:
            s_ = seg(lines, node) or ""
            if not s_.startswith(("logger.", "print(", "click.echo")):
                add(node.lineno, node.col_offset, node.end_col_offset, "pass", f"call statement `{s_[:40]}` deleted")
        elif isinstance(node, ast.Slice) and node.lower is None and node.upper is not None and isinstance(node.upper, ast.Constant) and isinstance(node.upper.value, int):
            pass
        elif isinstance(node, ast.keyword) and node.arg == "reverse" and isinstance(node.value, ast.Constant):
            pass        # covered by the bool constant mutation
    # de-duplicate
    seen = set()
    uniq = []
    for m in out:
        k = (m["line"], m["col"], m["end_col"], m["new"])
        if k not in seen:
            seen.add(k)
            uniq.append(m)
    return uniq, lines


def in_docstring_lines(path):
    tree = ast.parse(open(path).read())
    bad = set()
    for node in ast.walk(tree):
        if isinstance(node, (ast.FunctionDef, ast.ClassDef, ast.Module)) and node.body and isinstance(node.body[0], ast.Expr) and isinstance(node.body[0].value, ast.Constant) \
                and isinstance(node.body[0].value.value, str):
            d = node.body[0]
            bad |= set(range(d.lineno, d.end_lineno + 1))
    return bad


def gen(outdir):
    os.makedirs(outdir, exist_ok=True)
    index = []
    n = 0
    for fn in sorted(os.listdir(SRC)):
        if not fn.endswith(".py") or fn in SKIP_FILES:
            continue
        path = os.path.join(SRC, fn)
        muts, lines = mutants_of(path)
        doc = in_docstring_lines(path)
        for m in muts:
            if m["line"] in doc:
                continue
            n += 1
            mid = f"M{n:04d}"
            new_lines = list(lines)
            ln = new_lines[m["line"] - 1]
            new_lines[m["line"] - 1] = ln[:m["col"]] + m["new"] + ln[m["end_col"]:]
            with tempfile.TemporaryDirectory() as td:
                a, b = os.path.join(td, "a"), os.path.join(td, "b")
                os.makedirs(os.path.join(a, "src/bumpver"))
                os.makedirs(os.path.join(b, "src/bumpver"))
                open(os.path.join(a, "src/bumpver", fn), "w").write("".join(lines))
                open(os.path.join(b, "src/bumpver", fn), "w").write("".join(new_lines))
                try:
                    ast.parse("".join(new_lines))
                except SyntaxError:
                    n -= 1
                    continue
                p = sp.run(["diff", "-u", f"a/src/bumpver/{fn}", f"b/src/bumpver/{fn}"], cwd=td, capture_output=True, text=True)
                open(os.path.join(outdir, mid + ".diff"), "w").write(p.stdout)
            index.append({"id": mid, "file": fn, "line": m["line"], "what": m["what"], "code": lines[m["line"] - 1].strip()[:120]})
    json.dump(index, open(os.path.join(outdir, "index.json"), "w"), indent=1)
    print(len(index), "mutants")


import queue
WT_POOL: "queue.Queue[str]" = queue.Queue()


def run_one(args):
    outdir, m = args
    wt = WT_POOL.get()
    try:
        sp.run("git checkout -q -- . && git clean -fdq", shell=True, cwd=wt)
        r = sp.run(["git", "apply", os.path.join(outdir, m["id"] + ".diff")], cwd=wt, capture_output=True, text=True)
        if r.returncode:
            return dict(m, status="patch-failed", detail=r.stderr[:100])
        env = dict(os.environ, PYTHONPATH=wt + "/src", PYTHONDONTWRITEBYTECODE="1")
        try:
            r = sp.run("/venv/bin/python -m pytest -q -p no:cacheprovider --timeout=60 --continue-on-collection-errors 2>&1 | tail -1",
                       shell=True, cwd=wt, capture_output=True, text=True, env=env, timeout=900)
        except sp.TimeoutExpired:
            return dict(m, status="killed", suite="timeout")
        tail = r.stdout.strip()
        if "500 passed" not in tail or "25 failed" not in tail:
            return dict(m, status="killed", suite=tail[-80:])
        fired = {}
        for i in range(1, 21):
            c = f"C{i:02d}"
            rr = sp.run(["/verif/check", c, "--repo", wt, "--no-evidence"], capture_output=True, text=True)
            if rr.returncode:
                fired[c] = rr.returncode
        return dict(m, status="survived", checks=fired)
    except Exception as ex:
        return dict(m, status="error", detail=str(ex)[:200])
    finally:
        sp.run("git checkout -q -- . && git clean -fdq", shell=True, cwd=wt)
        WT_POOL.put(wt)


def run(outdir, jobs):
    index = json.load(open(os.path.join(outdir, "index.json")))
    res = []
    os.makedirs("/tmp/mutwt", exist_ok=True)
    for k in range(jobs):
        wt = f"/tmp/mutwt/{k}"
        if not os.path.isdir(wt):
            sp.run(["git", "-C", "/repo", "worktree", "add", "--detach", wt, "HEAD", "-q"], check=True)
        WT_POOL.put(wt)
    with ThreadPoolExecutor(jobs) as ex:
        for k, r in enumerate(ex.map(run_one, [(outdir, m) for m in index])):
            res.append(r)
            if k % 50 == 0:
                print(k, "/", len(index), flush=True)
                json.dump(res, open(os.path.join(outdir, "results.json"), "w"), indent=1)
    json.dump(res, open(os.path.join(outdir, "results.json"), "w"), indent=1)
    surv = [r for r in res if r["status"] == "survived"]
    print("mutants", len(res), "killed", sum(1 for r in res if r["status"] == "killed"), "survived", len(surv),
          "survived+reported", sum(1 for r in surv if r["checks"]), "survived+unreported", sum(1 for r in surv if not r["checks"]))


if __name__ == "__main__":
    if sys.argv[1] == "gen":
        gen(sys.argv[2])
    else:
        run(sys.argv[2], int(sys.argv[4]) if len(sys.argv) > 4 else 16)
