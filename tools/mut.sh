#!/bin/bash
# usage: mut.sh <prop> <file> <python-expr on s>   -- apply a textual edit to a scratch copy and run the check
set -e
P=$1; F=$2; EXPR=$3
D=$(mktemp -d /tmp/mutXXXX)
mkdir -p $D/src && cp -r /repo/src/bumpver $D/src/
python3 - "$D/src/bumpver/$F" "$EXPR" <<'PY'
import sys
p,expr=sys.argv[1],sys.argv[2]
s=open(p).read()
s2=eval(expr)
assert s2!=s, "mutation did not change the file"
import ast; ast.parse(s2)
open(p,'w').write(s2)
PY
cd /verif && ./check $P --repo $D --no-evidence | grep -v "^  floor" | cut -c1-260 | head -${4:-12}
echo "exit=${PIPESTATUS[0]}"
rm -rf $D
