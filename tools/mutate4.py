#!/usr/bin/env python3
"""Fourth operator set for the mutation sweep (see mutate.py / mutate2.py / mutate3.py):
   a name replaced by its sibling (`old_version` <-> `new_version`: two names of one function that differ in exactly one
   `_`-separated token), an attribute replaced by a sibling attribute read in the same function, boolean parameter defaults
   flipped, `continue` <-> `break`, a table entry dropped (dict / list / tuple / set literal with at least two entries),
   a token dropped from a command-template string, two adjacent simple statements swapped, a non-comparison condition
   negated, a loop that skips its first / last element, an exception handler that re-raises.

  mutate4.py gen <outdir>      (ids R0001..), then: mutate.py run <outdir> -j 16
Exploration tooling; no registered check uses it."""
import ast
import json
import os
import subprocess as sp
import sys
import tempfile

sys.path.insert(0, os.path.dirname(os.path.abspath(__file__)))
from mutate2 import File, SRC, SKIP_FILES, docstring_nodes          # noqa: E402


def siblings(names):
    """name -> names that differ from it in exactly one `_`-separated token (same token count)"""
    out = {}
    toks = {n: n.split("_") for n in names}
    for a in names:
        for b in names:
            if a == b or len(toks[a]) != len(toks[b]):
                continue
            if len(toks[a]) == 1:
                continue
            if sum(1 for x, y in zip(toks[a], toks[b]) if x != y) == 1:
                out.setdefault(a, []).append(b)
    return out


SINGLE_FAMILIES = [("major", "minor", "patch"), ("year", "month", "dom"), ("start", "end"), ("lo", "hi"), ("a", "b"), ("left", "right"),
                   ("old", "new"), ("prefix", "suffix"), ("head", "tail"), ("first", "last")]


def mutants_of(f: File):
    out = []
    parents = {}
    for n in ast.walk(f.tree):
        for c in ast.iter_child_nodes(n):
            parents[id(c)] = n
    docs = docstring_nodes(f.tree)

    def add(a, b, new, what, line):
        if f.src[a:b] != new:
            out.append({"a": a, "b": b, "new": new, "what": what, "line": line})

    def in_logging(n):
        p = parents.get(id(n))
        while p is not None and not isinstance(p, ast.stmt):
            if isinstance(p, ast.Call) and f.seg(p.func).startswith(("logger.", "click.echo", "print", "warnings.", "click.option", "click.argument")):
                return True
            p = parents.get(id(p))
        return False

    def simple(s):
        return isinstance(s, (ast.Assign, ast.AugAssign, ast.AnnAssign, ast.Expr)) and id(getattr(s, "value", None)) not in docs

    for fn in ast.walk(f.tree):
        if not isinstance(fn, ast.FunctionDef):
            continue
        inner = set()
        for sub in ast.walk(fn):
            if sub is not fn and isinstance(sub, (ast.FunctionDef, ast.Lambda)):
                for x in ast.walk(sub):
                    inner.add(id(x))
        local_names = {a.arg for a in fn.args.args + fn.args.kwonlyargs}
        attrs = set()
        for n in ast.walk(fn):
            if isinstance(n, ast.Name) and isinstance(n.ctx, ast.Store):
                local_names.add(n.id)
            if isinstance(n, ast.Attribute) and isinstance(n.ctx, ast.Load):
                attrs.add(n.attr)
        sib = siblings(sorted(local_names))
        for fam in SINGLE_FAMILIES:
            present = [x for x in fam if x in local_names]
            for x in present:
                sib.setdefault(x, []).extend(y for y in present if y != x)
        asib = siblings(sorted(attrs))
        for fam in SINGLE_FAMILIES:
            present = [x for x in fam if x in attrs]
            for x in present:
                asib.setdefault(x, []).extend(y for y in present if y != x)
        # boolean defaults
        pos = fn.args.args
        for a, d in list(zip(pos[len(pos) - len(fn.args.defaults):], fn.args.defaults)) + [(a, d) for a, d in zip(fn.args.kwonlyargs, fn.args.kw_defaults) if d is not None]:
            if isinstance(d, ast.Constant) and isinstance(d.value, bool):
                s, e = f.span(d)
                add(s, e, str(not d.value), f"default of `{a.arg}` flipped to {not d.value}", d.lineno)
        per_name = {}
        for n in ast.walk(fn):
            if id(n) in inner:
                continue
            if isinstance(n, ast.Name) and isinstance(n.ctx, ast.Load) and n.id in sib and not in_logging(n):
                k = per_name.get(n.id, 0)
                if k < 6:
                    per_name[n.id] = k + 1
                    s, e = f.span(n)
                    for alt in sib[n.id][:2]:
                        add(s, e, alt, f"name `{n.id}` -> sibling `{alt}`", n.lineno)
            if isinstance(n, ast.Attribute) and isinstance(n.ctx, ast.Load) and n.attr in asib and not in_logging(n):
                s, e = f.span(n)
                s = e - len(n.attr)
                for alt in asib[n.attr][:2]:
                    add(s, e, alt, f"attribute `.{n.attr}` -> sibling `.{alt}`", n.lineno)
            if isinstance(n, ast.Continue):
                s, e = f.span(n)
                add(s, e, "break", "`continue` -> `break`", n.lineno)
            if isinstance(n, ast.Break):
                s, e = f.span(n)
                add(s, e, "continue", "`break` -> `continue`", n.lineno)
            if isinstance(n, (ast.If, ast.While, ast.IfExp, ast.Assert)) and not isinstance(n.test, (ast.Compare, ast.Constant)):
                t = n.test
                s, e = f.span(t)
                if isinstance(t, ast.UnaryOp) and isinstance(t.op, ast.Not):
                    add(s, e, "(" + f.seg(t.operand) + ")", "condition `not x` -> `x`", t.lineno)
                elif not isinstance(t, ast.BoolOp):
                    add(s, e, "not (" + f.seg(t) + ")", "condition negated", t.lineno)
            if isinstance(n, ast.For) and not isinstance(n.iter, (ast.Tuple, ast.List)):
                s, e = f.span(n.iter)
                add(s, e, "list(" + f.seg(n.iter) + ")[1:]", "loop skips the first element", n.lineno)
                add(s, e, "list(" + f.seg(n.iter) + ")[:-1]", "loop skips the last element", n.lineno)
            if isinstance(n, ast.ExceptHandler) and n.body and not (len(n.body) == 1 and isinstance(n.body[0], ast.Raise)):
                s, _ = f.span(n.body[0])
                _, e = f.span(n.body[-1])
                add(s, e, "raise", "handler body -> `raise`", n.lineno)
            body_lists = [getattr(n, k) for k in ("body", "orelse", "finalbody") if isinstance(getattr(n, k, None), list)]
            for body in body_lists:
                for s1, s2 in zip(body, body[1:]):
                    if simple(s1) and simple(s2) and s1.col_offset == s2.col_offset and not (in_logging(getattr(s1, "value", s1)) or _is_log(f, s1) or _is_log(f, s2)):
                        a0, b0 = f.span(s1)
                        a1, b1 = f.span(s2)
                        if isinstance(s1, ast.Expr) or isinstance(s2, ast.Expr):
                            add(a0, b1, f.src[a1:b1] + f.src[b0:a1] + f.src[a0:b0], "two adjacent statements swapped", s1.lineno)
    # tables and command templates (module level and in functions)
    for n in ast.walk(f.tree):
        if isinstance(n, ast.Dict) and len(n.keys) >= 2 and all(k is not None for k in n.keys):
            for i, (k, v) in enumerate(zip(n.keys, n.values)):
                a0, _ = f.span(k)
                _, b0 = f.span(v)
                if i + 1 < len(n.keys):
                    b0 = f.span(n.keys[i + 1])[0]
                else:
                    a0 = f.span(n.values[i - 1])[1]
                add(a0, b0, "", f"table entry {f.seg(k)[:30]} dropped", k.lineno)
        if isinstance(n, (ast.List, ast.Tuple, ast.Set)) and isinstance(getattr(n, "ctx", ast.Load()), ast.Load) and len(n.elts) >= 2 and not in_logging(n):
            p = parents.get(id(n))
            if isinstance(p, (ast.Subscript, ast.Return)) or (isinstance(p, ast.Assign) and isinstance(p.targets[0], ast.Tuple)):
                continue
            if isinstance(n, ast.Tuple) and not all(isinstance(e, (ast.Constant, ast.Tuple)) for e in n.elts):
                continue
            for i, e in enumerate(n.elts[:12]):
                a0, b0 = f.span(e)
                if i + 1 < len(n.elts):
                    b0 = f.span(n.elts[i + 1])[0]
                else:
                    a0 = f.span(n.elts[i - 1])[1]
                add(a0, b0, "", f"element {f.seg(e)[:30]} dropped", e.lineno)
        if isinstance(n, ast.Constant) and isinstance(n.value, str) and id(n) not in docs and n.lineno == n.end_lineno and not in_logging(n):
            seg = f.seg(n)
            if seg[:1] in "rbfu" or "\\" in seg or "(" in seg:
                continue
            words = n.value.split(" ")
            if len(words) >= 2 and words[0] in ("git", "hg"):
                a0, _ = f.span(n)
                posn = 1
                for w in words:
                    start = seg.find(w, posn)
                    if start < 0:
                        break
                    if w not in ("git", "hg") and w:
                        # drop the word and one neighbouring blank
                        add(a0 + start - 1, a0 + start + len(w), "", f"command word `{w}` dropped", n.lineno)
                    posn = start + len(w)
    seen = set()
    uniq = []
    for m in out:
        k = (m["a"], m["b"], m["new"])
        if k not in seen:
            seen.add(k)
            uniq.append(m)
    return uniq


def _is_log(f, s):
    return isinstance(s, ast.Expr) and isinstance(s.value, ast.Call) and f.seg(s.value.func).startswith(("logger.", "click.echo", "print", "warnings."))


def gen(outdir):
    os.makedirs(outdir, exist_ok=True)
    index = []
    n = 0
    for fn in sorted(os.listdir(SRC)):
        if not fn.endswith(".py") or fn in SKIP_FILES:
            continue
        f = File(os.path.join(SRC, fn))
        for m in mutants_of(f):
            new_src = f.src[:m["a"]] + m["new"] + f.src[m["b"]:]
            try:
                ast.parse(new_src)
            except SyntaxError:
                continue
            n += 1
            mid = f"R{n:04d}"
            with tempfile.TemporaryDirectory() as td:
                for side, text in (("a", f.src), ("b", new_src)):
                    os.makedirs(os.path.join(td, side, "src/bumpver"))
                    open(os.path.join(td, side, "src/bumpver", fn), "w").write(text)
                p = sp.run(["diff", "-u", f"a/src/bumpver/{fn}", f"b/src/bumpver/{fn}"], cwd=td, capture_output=True, text=True)
                open(os.path.join(outdir, mid + ".diff"), "w").write(p.stdout)
            index.append({"id": mid, "file": fn, "line": m["line"], "what": m["what"], "code": f.lines[m["line"] - 1].strip()[:120]})
    json.dump(index, open(os.path.join(outdir, "index.json"), "w"), indent=1)
    print(len(index), "mutants")
    from collections import Counter
    print(Counter(m["what"].split("`")[0].strip()[:28] for m in index).most_common())


if __name__ == "__main__":
    gen(sys.argv[2])
