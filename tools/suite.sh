#!/bin/sh
# run the pinned suite on a tree (default /repo); prints the summary line
R=${1:-/repo}
cd "$R" && PYTHONPATH="$R/src" /venv/bin/python -m pytest -q -p no:cacheprovider --timeout=900 --continue-on-collection-errors 2>&1 | tail -1
