#!/usr/bin/env python3
"""Re-run every stored seeded change against the current checks (scratch copy of /repo's src + patch) and record in
its meta.json whether the property's own check fires now.  first_contact (what happened before strengthening) is kept."""
import glob, json, os, subprocess, sys, tempfile, shutil
from concurrent.futures import ThreadPoolExecutor
V = "/verif"
def one(d):
    name = os.path.basename(d); prop = name.split("-")[0]
    tmp = tempfile.mkdtemp(prefix="seedref_")
    try:
        os.makedirs(tmp + "/src"); shutil.copytree("/repo/src/bumpver", tmp + "/src/bumpver")
        subprocess.run(["git", "init", "-q", "."], cwd=tmp, check=True)
        r = subprocess.run(["git", "apply", "--include=src/bumpver/*", d + "/patch.diff"], cwd=tmp, capture_output=True, text=True)
        if r.returncode:
            return name, "patch-failed", r.stderr[:200]
        r = subprocess.run([V + "/check", prop, "--repo", tmp, "--no-evidence"], capture_output=True, text=True, env=dict(os.environ, VERIF_NO_SELFTEST="1"))
        finds = [l.strip() for l in r.stdout.splitlines() if l.startswith("  finding")]
        return name, r.returncode, finds
    finally:
        shutil.rmtree(tmp, ignore_errors=True)
dirs = sorted(d for d in glob.glob(V + "/seeded/C*") if os.path.isdir(d))
bad = 0
with ThreadPoolExecutor(16) as ex:
    for name, rc, finds in ex.map(one, dirs):
        mp = f"{V}/seeded/{name}/meta.json"
        m = json.load(open(mp))
        m["own_check_fires"] = rc == 1
        m["own_check_now"] = {"exit": rc, "findings": finds[:3] if isinstance(finds, list) else finds}
        json.dump(m, open(mp, "w"), indent=1)
        if rc != 1:
            bad += 1
            print("NOT FIRING:", name, rc, finds if not isinstance(finds, list) else finds[:1])
print(len(dirs), "seeded changes;", bad, "not firing")
