#!/usr/bin/env python3
"""Copy confirmed seeded changes from /tmp/seed_out/<P>/v<k> into /verif/seeded/<P>-v<k>/ with a merged meta.json."""
import json, os, shutil, sys, glob
SRC = os.environ.get("SEED_DIR", "/tmp/seed_out")
TAG = os.environ.get("SEED_TAG", "")   # e.g. "r2" -> C06-r2v1
DST = "/verif/seeded"
for d in sorted(glob.glob(f"{SRC}/C*/v*")):
    p, v = d.split("/")[-2], d.split("/")[-1]
    if not os.path.exists(f"{d}/eval.json"):
        continue
    try:
        ev = json.load(open(f"{d}/eval.json"))
    except Exception:
        continue
    ok = ev.get("demo_clean_exit") == 0 and ev.get("demo_patched_exit") not in (0, None) and "500 passed" in ev.get("suite", "")
    if not ok:
        print("not confirmed:", d)
        continue
    out = f"{DST}/{p}-{TAG}{v}"
    os.makedirs(out, exist_ok=True)
    shutil.copy(f"{d}/patch.diff", f"{out}/patch.diff")
    shutil.copy(f"{d}/demo.py", f"{out}/demo.py")
    try:
        meta = json.load(open(f"{d}/meta.json"))
    except Exception:
        meta = {}
    fired = ev.get("checks_fired", {})
    meta.update({
        "property": p,
        "variant": v,
        "author": "independent sub-agent (saw only the property text and a scratch worktree)",
        "confirmed_by_me": {
            "how": "tools/seed_eval.py in a scratch worktree: demo on clean tree, git apply, pinned suite, demo on patched tree, all 20 checks with --repo <worktree>, git checkout",
            "demo_clean_exit": ev.get("demo_clean_exit"),
            "suite_with_patch": ev.get("suite"),
            "demo_patched_exit": ev.get("demo_patched_exit"),
        },
        "caught_by": {k: {"exit": x["exit"], "findings": x["findings"][:3]} for k, x in fired.items()},
        "own_check_fires": p in fired and fired[p]["exit"] == 1,
        "first_contact": {"own": ("fires" if p in fired and fired[p]["exit"] == 1 else "exit2" if p in fired else "silent"), "others": sorted(k for k in fired if k != p)},
    })
    json.dump(meta, open(f"{out}/meta.json", "w"), indent=1)
print(len(glob.glob(f"{DST}/*")), "seeded changes stored")
