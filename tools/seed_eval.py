#!/usr/bin/env python3
"""Confirm a seeded change and run the checks against it.

usage: seed_eval.py <worktree> <variant_dir> [--checks C01,C02|all] [--skip-suite]
 1. the worktree must be clean; the demo must exit 0 on it
 2. apply patch.diff; the pinned suite must still give 500 passed; the demo must exit non-zero
 3. run the checks (quick tier, --repo <worktree>, no evidence) and record which fire
 4. undo the patch
Prints a JSON summary."""
import json
import os
import subprocess as sp
import sys

VERIF = os.path.dirname(os.path.dirname(os.path.abspath(__file__)))


def sh(cmd, cwd=None, env=None, timeout=1200):
    p = sp.run(cmd, shell=True, cwd=cwd, env=env, stdout=sp.PIPE, stderr=sp.STDOUT, timeout=timeout)
    return p.returncode, p.stdout.decode("utf-8", "replace")


def main():
    wt, vdir = sys.argv[1], sys.argv[2]
    checks = "all"
    skip_suite = "--skip-suite" in sys.argv
    for i, a in enumerate(sys.argv):
        if a == "--checks":
            checks = sys.argv[i + 1]
    ids = [f"C{i:02d}" for i in range(1, 21)] if checks == "all" else checks.split(",")
    env = dict(os.environ, PYTHONPATH=os.path.join(wt, "src"))
    out = {"worktree": wt, "variant": vdir}
    rc, st = sh("git status --porcelain", cwd=wt)
    if st.strip():
        out["error"] = "worktree not clean: " + st[:200]
        print(json.dumps(out, indent=1))
        return 2
    demo = os.path.join(vdir, "demo.py")
    patch = os.path.join(vdir, "patch.diff")
    rc0, o0 = sh(f"/venv/bin/python {demo}", cwd="/tmp", env=env)
    out["demo_clean_exit"] = rc0
    rca, oa = sh(f"git apply {patch}", cwd=wt)
    out["apply_exit"] = rca
    if rca != 0:
        out["error"] = "patch does not apply: " + oa[:300]
        print(json.dumps(out, indent=1))
        return 2
    try:
        if not skip_suite:
            rcs, os_ = sh("/venv/bin/python -m pytest -q -p no:cacheprovider --timeout=900 --continue-on-collection-errors 2>&1 | tail -1", cwd=wt, env=env)
            out["suite"] = os_.strip()
        rc1, o1 = sh(f"/venv/bin/python {demo}", cwd="/tmp", env=env)
        out["demo_patched_exit"] = rc1
        out["demo_patched_tail"] = o1.strip()[-300:]
        fired = {}
        for cid in ids:
            rc, o = sh(f"./check {cid} --repo {wt} --no-evidence", cwd=VERIF, env=dict(os.environ))
            if rc != 0:
                keys = [l.strip() for l in o.splitlines() if l.strip().startswith("finding ") or l.startswith("ANALYSIS-ERROR")]
                fired[cid] = {"exit": rc, "findings": keys[:4]}
        out["checks_fired"] = fired
    finally:
        sh("git checkout -- . && git clean -fdq", cwd=wt)
    print(json.dumps(out, indent=1))
    return 0


if __name__ == "__main__":
    sys.exit(main())
