#!/bin/bash
# usage: tryseed.sh <seeded-dir-name> [CNN ...]   apply seeded/<name>/patch.diff to a scratch copy of /repo and run the check(s) on it
set -e
name=$1; shift
props=${@:-${name%%-*}}
tmp=$(mktemp -d /tmp/tryseed.XXXXXX)
trap 'rm -rf $tmp' EXIT
mkdir -p $tmp/src; cp -r /repo/src/bumpver $tmp/src/; cp /repo/setup.py /repo/README.md $tmp/ 2>/dev/null || true
(cd $tmp && git init -q . && git apply --include='src/bumpver/*' /verif/seeded/$name/patch.diff)
for p in $props; do
  /verif/check $p --repo $tmp --no-evidence 2>&1 | grep -E "^  finding|^VIOLATION|ANALYSIS-ERROR|Traceback" | cut -c1-400 || echo "$p silent"
done
