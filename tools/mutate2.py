#!/usr/bin/env python3
"""Second operator set for the mutation sweep (see mutate.py): forced conditions, dropped operands, arithmetic, sibling
methods, raise / yield / augmented-assignment deletion, `return <expr>` -> `return None`, swapped positional arguments,
swapped neighbouring table values, strftime directive swaps.

  mutate2.py gen <outdir>        writes <outdir>/<id>.diff and index.json   (ids N0001..)
  then:  mutate.py run <outdir> -j 16

Exploration tooling (the run step executes the test suite); no registered check uses it."""
import ast
import json
import os
import subprocess as sp
import sys
import tempfile

SRC = "/repo/src/bumpver"
SKIP_FILES = {"__init__.py", "__main__.py", "pysix.py", "pathlib.py", "regexfmt.py", "utils.py"}
SIBLING = {"lstrip": ["strip", "rstrip"], "rstrip": ["strip", "lstrip"], "strip": ["lstrip", "rstrip"], "startswith": ["endswith"], "endswith": ["startswith"],
           "min": ["max"], "max": ["min"], "lower": ["upper"], "find": ["rfind"], "rfind": ["find"], "append": ["extend"], "extend": ["append"],
           "splitlines": ["split"], "any": ["all"], "all": ["any"], "search": ["match"], "match": ["search"], "fullmatch": ["match"], "finditer": ["findall"],
           "isdir": ["isfile"], "isfile": ["isdir"], "exists": ["is_file"]}
ARITH = {ast.Add: ("+", "-"), ast.Sub: ("-", "+"), ast.FloorDiv: ("//", "%"), ast.Mod: ("%", "//"), ast.Mult: ("*", "+")}
DIRECTIVE = {"%W": "%U", "%U": "%W", "%V": "%W", "%Y": "%G", "%G": "%Y", "%m": "%d", "%d": "%m", "%j": "%d", "%y": "%Y"}


class File:
    def __init__(self, path):
        self.path = path
        self.src = open(path).read()
        self.lines = self.src.splitlines(True)
        self.starts = [0]
        for l in self.lines:
            self.starts.append(self.starts[-1] + len(l))
        self.tree = ast.parse(self.src)

    def off(self, line, col):
        # ast col offsets are utf-8 byte offsets; the sources are ascii apart from a few comments - convert defensively
        text = self.lines[line - 1]
        return self.starts[line - 1] + len(text.encode("utf-8")[:col].decode("utf-8"))

    def span(self, node):
        return self.off(node.lineno, node.col_offset), self.off(node.end_lineno, node.end_col_offset)

    def seg(self, node):
        a, b = self.span(node)
        return self.src[a:b]


def docstring_nodes(tree):
    out = set()
    for node in ast.walk(tree):
        if isinstance(node, (ast.FunctionDef, ast.ClassDef, ast.Module)) and node.body and isinstance(node.body[0], ast.Expr) and isinstance(node.body[0].value, ast.Constant) \
                and isinstance(node.body[0].value.value, str):
            out.add(id(node.body[0].value))
    return out


def mutants_of(f: File):
    out = []
    parents = {}
    for n in ast.walk(f.tree):
        for c in ast.iter_child_nodes(n):
            parents[id(c)] = n

    def add(a, b, new, what, line):
        if f.src[a:b] != new:
            out.append({"a": a, "b": b, "new": new, "what": what, "line": line})
    docs = docstring_nodes(f.tree)

    def in_logging(n):
        p = parents.get(id(n))
        while p is not None and not isinstance(p, ast.stmt):
            if isinstance(p, ast.Call) and f.seg(p.func).startswith(("logger.", "click.echo", "print", "warnings.")):
                return True
            p = parents.get(id(p))
        return False
    for fn in ast.walk(f.tree):
        if not isinstance(fn, (ast.FunctionDef,)):
            continue
        returns_none = fn.returns is not None and f.seg(fn.returns) == "None"
        for n in ast.walk(fn):
            if isinstance(n, (ast.If, ast.While)) and not isinstance(n.test, ast.Constant):
                a, b = f.span(n.test)
                add(a, b, "True", "condition forced True", n.lineno)
                if isinstance(n, ast.If):
                    add(a, b, "False", "condition forced False", n.lineno)
            elif isinstance(n, ast.IfExp):
                a, b = f.span(n)
                add(a, b, "(" + f.seg(n.body) + ")", "conditional expression -> first branch", n.lineno)
                add(a, b, "(" + f.seg(n.orelse) + ")", "conditional expression -> else branch", n.lineno)
            elif isinstance(n, ast.BoolOp) and not in_logging(n):
                a, b = f.span(n)
                for i, v in enumerate(n.values):
                    if len(n.values) == 2:
                        add(a, b, "(" + f.seg(v) + ")", f"`{'and' if isinstance(n.op, ast.And) else 'or'}` keeps only operand {i + 1}", n.lineno)
            elif isinstance(n, ast.BinOp) and type(n.op) in ARITH and not in_logging(n):
                if isinstance(n.op, (ast.Add, ast.Mod)) and any(isinstance(x, (ast.JoinedStr,)) or (isinstance(x, ast.Constant) and isinstance(x.value, str)) for x in (n.left, n.right)):
                    continue          # string concatenation / formatting
                la, lb = f.span(n.left)
                ra, rb = f.span(n.right)
                old, new = ARITH[type(n.op)]
                between = f.src[lb:ra]
                if between.count(old) == 1:
                    i = lb + between.index(old)
                    add(i, i + len(old), new, f"`{old}` -> `{new}`", n.lineno)
            elif isinstance(n, ast.Call):
                name = n.func.attr if isinstance(n.func, ast.Attribute) else (n.func.id if isinstance(n.func, ast.Name) else None)
                if name in SIBLING and not in_logging(n):
                    if isinstance(n.func, ast.Attribute):
                        a = f.off(n.func.end_lineno, n.func.end_col_offset) - len(name)
                        b = a + len(name)
                    else:
                        a, b = f.span(n.func)
                    for alt in SIBLING[name]:
                        add(a, b, alt, f"`{name}` -> `{alt}`", n.lineno)
                if len(n.args) >= 2 and all(isinstance(x, (ast.Name, ast.Attribute)) for x in n.args[:2]) and not in_logging(n) and f.seg(n.args[0]) != f.seg(n.args[1]) \
                        and not any(isinstance(x, ast.Starred) for x in n.args):
                    a0, b0 = f.span(n.args[0])
                    a1, b1 = f.span(n.args[1])
                    add(a0, b1, f.src[a1:b1] + f.src[b0:a1] + f.src[a0:b0], "first two positional arguments swapped", n.lineno)
                if name == "sorted" and len(n.args) == 1 and not n.keywords:
                    a, b = f.span(n)
                    add(a, b, "list(" + f.seg(n.args[0]) + ")", "`sorted(x)` -> `list(x)`", n.lineno)
            elif isinstance(n, ast.Raise):
                a, b = f.span(n)
                add(a, b, "pass", "`raise` deleted", n.lineno)
            elif isinstance(n, ast.Expr) and isinstance(n.value, (ast.Yield, ast.YieldFrom)):
                a, b = f.span(n)
                add(a, b, "pass", "`yield` deleted", n.lineno)
            elif isinstance(n, ast.AugAssign):
                a, b = f.span(n)
                add(a, b, "pass", f"`{f.seg(n)[:40]}` deleted", n.lineno)
            elif isinstance(n, ast.Return) and n.value is not None and not returns_none and not (isinstance(n.value, ast.Constant) and n.value.value is None):
                a, b = f.span(n.value)
                add(a, b, "None", "`return <expr>` -> `return None`", n.lineno)
            elif isinstance(n, ast.Constant) and isinstance(n.value, str) and id(n) not in docs and not in_logging(n):
                seg_ = f.seg(n)
                for d, alt in DIRECTIVE.items():
                    if d in n.value and seg_.count(d) == 1 and "%" in seg_ and "strftime" in f.seg(parents.get(id(n))) if parents.get(id(n)) is not None else False:
                        a, b = f.span(n)
                        add(a, b, seg_.replace(d, alt), f"strftime `{d}` -> `{alt}`", n.lineno)
    # swapped neighbouring values in dict literals (tables)
    for n in ast.walk(f.tree):
        if isinstance(n, ast.Dict) and len(n.values) >= 2 and all(k is not None for k in n.keys):
            for i in range(len(n.values) - 1):
                v0, v1 = n.values[i], n.values[i + 1]
                if f.seg(v0) == f.seg(v1):
                    continue
                a0, b0 = f.span(v0)
                a1, b1 = f.span(v1)
                add(a0, b1, f.src[a1:b1] + f.src[b0:a1] + f.src[a0:b0], f"table values of {f.seg(n.keys[i])[:20]} and {f.seg(n.keys[i + 1])[:20]} swapped", v0.lineno)
    seen = set()
    uniq = []
    for m in out:
        k = (m["a"], m["b"], m["new"])
        if k not in seen:
            seen.add(k)
            uniq.append(m)
    return uniq


def gen(outdir):
    os.makedirs(outdir, exist_ok=True)
    index = []
    n = 0
    for fn in sorted(os.listdir(SRC)):
        if not fn.endswith(".py") or fn in SKIP_FILES:
            continue
        f = File(os.path.join(SRC, fn))
        for m in mutants_of(f):
            new_src = f.src[:m["a"]] + m["new"] + f.src[m["b"]:]
            try:
                ast.parse(new_src)
            except SyntaxError:
                continue
            n += 1
            mid = f"N{n:04d}"
            with tempfile.TemporaryDirectory() as td:
                for side, text in (("a", f.src), ("b", new_src)):
                    os.makedirs(os.path.join(td, side, "src/bumpver"))
                    open(os.path.join(td, side, "src/bumpver", fn), "w").write(text)
                p = sp.run(["diff", "-u", f"a/src/bumpver/{fn}", f"b/src/bumpver/{fn}"], cwd=td, capture_output=True, text=True)
                open(os.path.join(outdir, mid + ".diff"), "w").write(p.stdout)
            index.append({"id": mid, "file": fn, "line": m["line"], "what": m["what"], "code": f.lines[m["line"] - 1].strip()[:120]})
    json.dump(index, open(os.path.join(outdir, "index.json"), "w"), indent=1)
    print(len(index), "mutants")


if __name__ == "__main__":
    gen(sys.argv[2])
