#!/usr/bin/env python3
"""Re-run all 20 checks on the surviving, unreported mutants of a sweep (after the checks were strengthened).
  mutant_recheck.py <mutdir> <in.json> <out.json>"""
import json, os, shutil, subprocess as sp, sys, tempfile
from concurrent.futures import ThreadPoolExecutor
mutdir, inp, outp = sys.argv[1:4]
items = json.load(open(inp))


def one(m):
    tmp = tempfile.mkdtemp(prefix="mrecheck_")
    try:
        os.makedirs(tmp + "/src")
        shutil.copytree("/repo/src/bumpver", tmp + "/src/bumpver")
        sp.run(["git", "init", "-q", "."], cwd=tmp, check=True)
        r = sp.run(["git", "apply", "--include=src/bumpver/*", f"{mutdir}/{m['id']}.diff"], cwd=tmp, capture_output=True, text=True)
        if r.returncode:
            return dict(m, checks={"patch": 9})
        fired = {}
        for i in range(1, 21):
            c = f"C{i:02d}"
            rr = sp.run(["/verif/check", c, "--repo", tmp, "--no-evidence"], capture_output=True, text=True)
            if rr.returncode:
                fired[c] = rr.returncode
        return dict(m, checks=fired)
    finally:
        shutil.rmtree(tmp, ignore_errors=True)


with ThreadPoolExecutor(16) as ex:
    out = list(ex.map(one, items))
json.dump(out, open(outp, "w"), indent=1)
print(len(out), "rechecked;", sum(1 for o in out if not o["checks"]), "still unreported;", sum(1 for o in out if 2 in o["checks"].values() and 1 not in o["checks"].values()), "refused only")
