#!/usr/bin/env python3
"""Regenerate /verif/MANIFEST.json from the per-check metadata (checks/cNN.py: LEVEL_TEXT,
LEVEL_NOTE, TECHNIQUE, DESIGN_REF).  Properties without a check module are listed under
not_applicable with the reason given in NOT_APPLICABLE below (or 'not built yet')."""
import importlib
import json
import os
import sys

VERIF = os.path.dirname(os.path.dirname(os.path.abspath(__file__)))
sys.path.insert(0, VERIF)
sys.dont_write_bytecode = True

NOT_APPLICABLE = {}

ENGINES = [
    {"name": "E0b decomposition normaliser", "path": "sa/normalise.py", "kind_free_text": "functions that are not in the pinned tree's function list are expanded at their (module-local or sibling-module) call sites before analysis; renamed functions get their old name back"},
    {"name": "E0 program model", "path": "sa/model.py", "kind_free_text": "ast-based module/function/class index, constant folder, annotation-driven call resolution"},
    {"name": "E1 statement CFG", "path": "sa/cfg.py", "kind_free_text": "per-function control-flow graph with split short-circuit tests, exception/finally edges, no-return fixpoint, dominance by edge cutting"},
    {"name": "E2 effects", "path": "sa/effects.py", "kind_free_text": "primitive effect classification of call sites (FS write/read, VCS read/fetch/mutate by command name, hook, exit, raise) and transitive summaries over the call graph"},
    {"name": "E2b path conditions", "path": "sa/pathcond.py", "kind_free_text": "exact reach conditions per CFG node as truth tables over branch atoms; interprocedural lifting with parameter renaming"},
    {"name": "E3 regular languages", "path": "sa/relang.py", "kind_free_text": "regex constants -> NFA/DFA, inclusion with shortest counter-example, formatter images"},
    {"name": "E5 shape matchers", "path": "sa/shapes.py", "kind_free_text": "handler outcomes, lazy-generator attribution, comparison-gate normal form, argument wiring"},
]


def main() -> None:
    props = [json.loads(l) for l in open(os.path.join(VERIF, "properties.jsonl"))]
    checks, na = [], []
    for p in props:
        pid = p["id"]
        path = os.path.join(VERIF, "checks", f"{pid.lower()}.py")
        if not os.path.exists(path):
            na.append({"property_id": pid, "reason": NOT_APPLICABLE.get(pid, "check not built yet (planned static rules: DESIGN.md section 4)")})
            continue
        mod = importlib.import_module(f"checks.{pid.lower()}")
        import re as _re
        rules = _re.findall(r'ctx\.rule\("(R\d+)",\s*"((?:[^"\\]|\\.)*)"\)', open(path).read())
        rule_txt = "  Rules: " + "; ".join(f"{k} - {v}" for k, v in sorted(rules, key=lambda kv: int(kv[0][1:])))
        checks.append({
            "property_id": pid,
            "quick_cmd": f"./check {pid} --tier quick",
            "thorough_cmd": f"./check {pid} --tier thorough",
            "evidence_file": f"/verif/evidence/{pid}.json",
            "replay_cmd_template": f"./check {pid} --replay {{path}}",
            "engine": "sa (static analysis over ast; no execution of bumpver)",
            "level_claimed": {
                "category": "other",
                "text": getattr(mod, "LEVEL_TEXT", getattr(mod, "EXPLANATION", "")) + rule_txt,
                "design_ref": getattr(mod, "DESIGN_REF", f"DESIGN.md section 4, {pid}"),
            },
            "level_note": getattr(mod, "LEVEL_NOTE", "Trusted: Python's ast/re._parser/shlex parsers and the documented semantics of the stdlib calls modelled (str.split/join/replace, re ordered choice, strftime ranges, subprocess.check_output raising). Call resolution is annotation-driven."),
            "technique": getattr(mod, "TECHNIQUE", "static analysis"),
        })
    for e in ENGINES:
        e["serves_properties"] = [c["property_id"] for c in checks]
    manifest = {
        "version": 1,
        "setup_cmd": "python3 -c \"import ast, re, shlex, json; import re._parser\"",
        "hooks": {
            "guard": "BUMPVER_VERIF",
            "enable": "not needed: the checks are static, read /repo/src/bumpver/*.py and never import or run bumpver; no hook was added to the repository",
            "baseline_off_cmd": "cd /repo && /venv/bin/python -m pytest -ra -q -p no:cacheprovider --timeout=900 --continue-on-collection-errors",
            "source_commits": [],
            "add_only": True,
        },
        "engines": [e for e in ENGINES if os.path.exists(os.path.join(VERIF, e["path"]))],
        "checks": checks,
        "not_applicable": na,
        "notes": "Technique family: static analysis only. exit 0 = held, 1 = VIOLATION (new finding), 2 = ANALYSIS-ERROR (anchor vanished / shape not decidable; never a silent pass). Known genuine defects are listed in known_findings.json and printed as KNOWN-FINDING lines. thorough tier = quick rules + wider variants + the checker's own mutant/twin self-test.",
    }
    with open(os.path.join(VERIF, "MANIFEST.json"), "w") as fobj:
        json.dump(manifest, fobj, indent=1)
    print(f"MANIFEST: {len(checks)} checks, {len(na)} not_applicable")


if __name__ == "__main__":
    main()
