#!/usr/bin/env python3
"""usage: show_normalised.py <repo> <module> [function]  - print the module (or one function) after sa.normalise"""
import ast, sys
sys.path.insert(0, "/verif")
from sa.model import Program
prog = Program(sys.argv[1])
mod = prog.module(sys.argv[2])
print(f"# expanded call sites: {mod.expanded_calls}")
if len(sys.argv) > 3:
    print(ast.unparse(mod.functions[sys.argv[3]].node))
else:
    print(ast.unparse(mod.tree))
