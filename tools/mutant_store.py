#!/usr/bin/env python3
"""Store confirmed mutants of the sweep (tools/mutate.py) as seeded changes: seeded/<P>-m<NNNN>/{patch.diff,demo.py,meta.json}.

  mutant_store.py <triage-dir> [<triage-dir> ...]     each holds verdicts.json, demos/<id>.py; patches come from $MUT_DIR (/tmp/mut)

For every `violates:<P>` verdict the demo is re-run here on a clean scratch worktree (must exit 0) and with the mutant
applied (must exit non-zero); the suite result is taken from the sweep's results.json (survivors passed the pinned suite
unchanged).  Exploration tooling - no registered check uses it."""
import json, os, shutil, subprocess as sp, sys

MUT = os.environ.get("MUT_DIR", "/tmp/mut")
WT = "/tmp/mstore_wt"
idx = {m["id"]: m for m in json.load(open(f"{MUT}/index.json"))}
res = {m["id"]: m for m in json.load(open(f"{MUT}/results.json"))}
if not os.path.isdir(WT):
    sp.run(["git", "-C", "/repo", "worktree", "add", "--detach", WT, "HEAD", "-q"], check=True)


def demo(path):
    env = dict(os.environ, PYTHONPATH=WT + "/src", PYTHONDONTWRITEBYTECODE="1")
    try:
        return sp.run(["/venv/bin/python", path], cwd="/tmp", env=env, capture_output=True, text=True, timeout=300).returncode
    except sp.TimeoutExpired:
        return -9


for td in sys.argv[1:]:
    for v in json.load(open(f"{td}/verdicts.json")):
        if not v["verdict"].startswith("violates"):
            continue
        mid, prop = v["id"], v["verdict"].split(":")[1][:3]
        d = f"{td}/demos/{mid}.py"
        if not os.path.exists(d) or res[mid]["status"] != "survived":
            print("skip", mid, "(no demo / not a survivor)")
            continue
        sp.run("git checkout -q -- . && git clean -fdq", shell=True, cwd=WT)
        c = demo(d)
        sp.run(["git", "apply", f"{MUT}/{mid}.diff"], cwd=WT, check=True)
        m = demo(d)
        sp.run("git checkout -q -- . && git clean -fdq", shell=True, cwd=WT)
        if c != 0 or m == 0:
            print("NOT confirmed", mid, "clean", c, "mutant", m)
            continue
        out = f"/verif/seeded/{prop}-{mid[0].lower()}{mid[1:]}"
        os.makedirs(out, exist_ok=True)
        shutil.copy(f"{MUT}/{mid}.diff", f"{out}/patch.diff")
        shutil.copy(d, f"{out}/demo.py")
        meta = {"property": prop, "variant": mid[0].lower() + mid[1:], "summary": f"first-order mutant {idx[mid]['file']}:{idx[mid]['line']} {idx[mid]['what']} (`{idx[mid]['code']}`): {v['reason']}",
                "files": ["src/bumpver/" + idx[mid]["file"]], "needs_to_manifest": v.get("witness", ""),
                "suite_result": "500 passed, 25 failed, 1 error (unchanged; tools/mutate.py run)", "demo_unpatched_exit": c, "demo_patched_exit": m,
                "author": "tools/mutate.py (systematic first-order mutant); verdict and demonstration by an independent triage sub-agent that saw only the properties and a scratch worktree",
                "confirmed_by_me": {"how": "tools/mutant_store.py: demo on a clean scratch worktree, git apply, demo again", "demo_clean_exit": c, "demo_patched_exit": m},
                "first_contact": {"own": "silent", "others": sorted(res[mid].get("checks", {}))}}
        json.dump(meta, open(f"{out}/meta.json", "w"), indent=1)
        print("stored", out)
sp.run(["git", "-C", "/repo", "worktree", "remove", "--force", WT])
