#!/bin/bash
# usage: trypatch.sh <patch.diff> CNN [CNN ...]   apply a patch to a scratch copy of /repo and run the check(s) on it
set -e
patch=$1; shift
tmp=$(mktemp -d /tmp/trypatch.XXXXXX)
trap 'rm -rf $tmp' EXIT
mkdir -p $tmp/src; cp -r /repo/src/bumpver $tmp/src/
(cd $tmp && git init -q . && git apply --include='src/bumpver/*' $patch)
for p in "$@"; do
  /verif/check $p --repo $tmp --no-evidence 2>&1 | grep -E "^  finding|^VIOLATION|ANALYSIS-ERROR|Traceback" | cut -c1-400 || echo "$p silent"
done
