"""E1 - statement-level control-flow graph for one Python function.

Nodes are simple statements, branch-test atoms (short-circuit and/or/not are
split), loop headers, with-enters, handler entries and four terminals
(normal exit, raise exit, sys.exit, entry).  Edges carry labels:
  None                fall-through
  ('T', id)/('F', id) outcome of the test atom node `id`
  ('exc',)            exceptional transfer into a handler / out of the function
  ('iter', 'next'|'done')
"""
from __future__ import annotations

import ast
import typing as T

from .model import AnalysisError, FunctionInfo, Program, unparse, walk_no_nested

Edge = T.Tuple[int, T.Any]          # (source node id, label)  -- a dangling edge
ENTRY, EXIT, RAISE, SYSEXIT = "entry", "exit", "raise", "sysexit"


class Node:
    __slots__ = ("id", "kind", "ast", "stmt", "lineno", "extra")

    def __init__(self, nid: int, kind: str, node: T.Optional[ast.AST], stmt: T.Optional[ast.AST]):
        self.id = nid
        self.kind = kind      # entry exit raise sysexit stmt test iter with handler join
        self.ast = node
        self.stmt = stmt
        self.lineno = getattr(node, "lineno", getattr(stmt, "lineno", 0))
        self.extra: T.Dict[str, T.Any] = {}

    def text(self) -> str:
        if self.ast is None:
            return self.kind
        try:
            return unparse(self.ast).split("\n")[0][:100]
        except Exception:
            return self.kind

    def __repr__(self) -> str:
        return f"<{self.id}:{self.kind}:{self.text()}>"


class _Frame:
    def __init__(self, kind: str, **kw: T.Any):
        self.kind = kind      # 'loop' | 'try' | 'finally'
        self.__dict__.update(kw)


class CFG:
    def __init__(self, fn: FunctionInfo, noreturn: T.Callable[[ast.Call], bool], exit_code: T.Callable[[ast.Call], T.Any]):
        self.fn = fn
        self.nodes: T.List[Node] = []
        self.succ: T.Dict[int, T.List[T.Tuple[int, T.Any]]] = {}
        self.pred: T.Dict[int, T.List[T.Tuple[int, T.Any]]] = {}
        self._noreturn = noreturn
        self._exit_code = exit_code
        self.entry = self._new(ENTRY, None, None).id
        self.exit = self._new(EXIT, None, None).id
        self.raise_exit = self._new(RAISE, None, None).id
        self.sysexits: T.List[int] = []
        self._frames: T.List[_Frame] = []
        self.stmt_nodes: T.Dict[int, T.List[int]] = {}     # id(ast stmt) -> node ids
        out = self._block(fn.node.body, [(self.entry, None)])
        self._connect(out, self.exit)
        self.nodes[self.exit].extra["implicit_from"] = [s for s, _ in out]

    # ------------------------------------------------------------------ building
    def _new(self, kind: str, node: T.Optional[ast.AST], stmt: T.Optional[ast.AST]) -> Node:
        n = Node(len(self.nodes), kind, node, stmt)
        self.nodes.append(n)
        self.succ[n.id] = []
        self.pred[n.id] = []
        if stmt is not None:
            self.stmt_nodes.setdefault(id(stmt), []).append(n.id)
        return n

    def _edge(self, src: int, dst: int, label: T.Any) -> None:
        if (dst, label) not in self.succ[src]:
            self.succ[src].append((dst, label))
            self.pred[dst].append((src, label))

    def _connect(self, preds: T.List[Edge], dst: int) -> None:
        for src, label in preds:
            self._edge(src, dst, label)

    def _block(self, stmts: T.List[ast.stmt], preds: T.List[Edge]) -> T.List[Edge]:
        for st in stmts:
            if not preds:
                # unreachable code: still build it (detached) so that sites are indexed
                preds = []
            preds = self._stmt(st, preds)
        return preds

    @staticmethod
    def _may_raise(node: ast.AST) -> bool:
        if isinstance(node, ast.AnnAssign):
            if node.value is None:
                return False
            return CFG._may_raise(node.value) or (not isinstance(node.target, ast.Name) and CFG._may_raise(node.target))
        if isinstance(node, ast.Expr) and isinstance(node.value, ast.Constant):
            return False
        for n in ast.walk(node):
            if isinstance(n, (ast.Call, ast.Raise, ast.Assert, ast.Subscript, ast.Await)):
                return True
        return False

    def _exc_edges(self, nid: int) -> None:
        """Unknown exception raised at node nid: may enter any enclosing handler, or escape."""
        self._abrupt([(nid, ("exc",))], "exc", None)

    def _abrupt(self, preds: T.List[Edge], kind: str, raised: T.Optional[str]) -> None:
        """Route an abrupt completion (exc / return / break / continue / sysexit)
        outward through the frame stack."""
        frames = list(self._frames)
        i = len(frames) - 1
        cur = preds
        while i >= 0 and cur:
            fr = frames[i]
            if fr.kind == "finally":
                # run a copy of the finalbody, then keep going outward
                key = (kind, raised if kind in ("exc", "inline_exit") else None)
                if key not in fr.copies:
                    j = self._new("join", None, fr.stmt)
                    saved = self._frames
                    self._frames = frames[:i]
                    outs = self._block(fr.stmt.finalbody, [(j.id, None)])
                    self._frames = saved
                    fr.copies[key] = (j.id, outs)
                j_id, outs = fr.copies[key]
                self._connect(cur, j_id)
                cur = list(outs)
            elif fr.kind == "try" and kind == "exc":
                for h_id, h_types in fr.handlers:
                    self._connect(cur, h_id)
                    if raised is not None and h_types is not None and _certainly_caught(raised, h_types):
                        cur = []
                        break
                    if raised is None and h_types is None:
                        # bare except catches everything
                        cur = []
                        break
            elif fr.kind == "inline" and kind == "inline_exit" and fr.block_id == raised:
                fr.exits.extend(cur)
                return
            elif fr.kind == "loop" and kind in ("break", "continue"):
                if kind == "break":
                    fr.breaks.extend(cur)
                else:
                    self._connect(cur, fr.header)
                return
            i -= 1
        if not cur:
            return
        if kind == "exc":
            self._connect(cur, self.raise_exit)
        elif kind == "return":
            self._connect(cur, self.exit)
        elif kind == "sysexit":
            pass  # already connected to its terminal by the caller
        else:
            raise AnalysisError(f"{self.fn.fq}: '{kind}' outside loop")

    def _simple(self, st: ast.stmt, preds: T.List[Edge]) -> T.List[Edge]:
        n = self._new("stmt", st, st)
        self._connect(preds, n.id)
        if self._may_raise(st) and not isinstance(st, ast.Raise):
            self._exc_edges(n.id)
        return [(n.id, None)]

    def _stmt(self, st: ast.stmt, preds: T.List[Edge]) -> T.List[Edge]:
        if isinstance(st, (ast.FunctionDef, ast.AsyncFunctionDef, ast.ClassDef)):
            n = self._new("stmt", st, st)
            self._connect(preds, n.id)
            return [(n.id, None)]
        if isinstance(st, ast.If):
            t, f = self._cond(st.test, preds, st)
            out = self._block(st.body, t)
            out += self._block(st.orelse, f) if st.orelse else f
            return out
        if isinstance(st, ast.While):
            header = self._new("join", None, st)
            self._connect(preds, header.id)
            t, f = self._cond(st.test, [(header.id, None)], st)
            fr = _Frame("loop", header=header.id, breaks=[])
            self._frames.append(fr)
            body_out = self._block(st.body, t)
            self._frames.pop()
            self._connect(body_out, header.id)
            if isinstance(st.test, ast.Constant) and st.test.value:
                f = []
            out = self._block(st.orelse, f) if st.orelse else f
            return out + fr.breaks
        if isinstance(st, (ast.For, ast.AsyncFor)):
            it = self._new("iter", st.iter, st)
            self._connect(preds, it.id)
            it.extra["target"] = st.target
            if self._may_raise(st.iter) or True:
                # pulling the next item may run generator code that raises
                self._exc_edges(it.id)
            fr = _Frame("loop", header=it.id, breaks=[])
            self._frames.append(fr)
            body_out = self._block(st.body, [(it.id, ("iter", "next"))])
            self._frames.pop()
            self._connect(body_out, it.id)
            done = [(it.id, ("iter", "done"))]
            out = self._block(st.orelse, done) if st.orelse else done
            return out + fr.breaks
        if isinstance(st, ast.With) and getattr(st, "_inline_block", None) is not None:
            # body of an expanded helper (sa.normalise): `break` nodes carrying _inline_exit leave it
            fr = _Frame("inline", block_id=st._inline_block, exits=[])
            self._frames.append(fr)
            out = self._block(st.body, preds)
            self._frames.pop()
            return out + fr.exits
        if isinstance(st, (ast.With, ast.AsyncWith)):
            cur = preds
            for item in st.items:
                w = self._new("with", item, st)
                self._connect(cur, w.id)
                self._exc_edges(w.id)
                cur = [(w.id, None)]
            return self._block(st.body, cur)
        if isinstance(st, ast.Try) or st.__class__.__name__ == "TryStar":
            return self._try(st, preds)
        if isinstance(st, ast.Return):
            n = self._new("stmt", st, st)
            self._connect(preds, n.id)
            if st.value is not None and self._may_raise(st.value):
                self._exc_edges(n.id)
            self._abrupt([(n.id, None)], "return", None)
            return []
        if isinstance(st, ast.Raise):
            n = self._new("stmt", st, st)
            self._connect(preds, n.id)
            raised = None
            if st.exc is not None:
                e = st.exc.func if isinstance(st.exc, ast.Call) else st.exc
                raised = unparse(e)
            else:
                raised = "<reraise>"
            n.extra["raised"] = raised
            self._abrupt([(n.id, ("exc",))], "exc", raised if raised != "<reraise>" else None)
            return []
        if isinstance(st, ast.Break) and getattr(st, "_inline_exit", None) is not None:
            n = self._new("stmt", st, st)
            self._connect(preds, n.id)
            self._abrupt([(n.id, None)], "inline_exit", st._inline_exit)
            return []
        if isinstance(st, ast.Break):
            n = self._new("stmt", st, st)
            self._connect(preds, n.id)
            self._abrupt([(n.id, None)], "break", None)
            return []
        if isinstance(st, ast.Continue):
            n = self._new("stmt", st, st)
            self._connect(preds, n.id)
            self._abrupt([(n.id, None)], "continue", None)
            return []
        if isinstance(st, ast.Expr) and isinstance(st.value, ast.Call):
            call = st.value
            code = self._exit_code(call)
            if code is not _NOT_EXIT:
                n = self._new("stmt", st, st)
                self._connect(preds, n.id)
                term = self._new(SYSEXIT, None, st)
                term.extra["code"] = code
                self.sysexits.append(term.id)
                # finally blocks run on SystemExit
                has_finally = any(f.kind == "finally" for f in self._frames)
                if has_finally:
                    self._abrupt_sysexit([(n.id, None)], term.id)
                else:
                    self._edge(n.id, term.id, None)
                # `except SystemExit/BaseException/bare` could catch it
                for fr in reversed(self._frames):
                    if fr.kind == "try":
                        for h_id, h_types in fr.handlers:
                            if h_types is None or any(t in ("SystemExit", "BaseException") for t in h_types):
                                self._edge(n.id, h_id, ("exc",))
                return []
            if self._noreturn(call):
                n = self._new("stmt", st, st)
                n.extra["noreturn_call"] = True
                self._connect(preds, n.id)
                self._exc_edges(n.id)
                return []
        if isinstance(st, ast.Assert):
            n = self._new("stmt", st, st)
            self._connect(preds, n.id)
            self._exc_edges(n.id)
            return [(n.id, None)]
        if isinstance(st, ast.Match):
            raise AnalysisError(f"{self.fn.fq}: match statement not modelled")
        return self._simple(st, preds)

    def _abrupt_sysexit(self, preds: T.List[Edge], term: int) -> None:
        frames = list(self._frames)
        cur = preds
        for i in range(len(frames) - 1, -1, -1):
            fr = frames[i]
            if fr.kind == "finally":
                key = ("sysexit", None)
                if key not in fr.copies:
                    j = self._new("join", None, fr.stmt)
                    saved = self._frames
                    self._frames = frames[:i]
                    outs = self._block(fr.stmt.finalbody, [(j.id, None)])
                    self._frames = saved
                    fr.copies[key] = (j.id, outs)
                j_id, outs = fr.copies[key]
                self._connect(cur, j_id)
                cur = list(outs)
        self._connect(cur, term)

    def _try(self, st: ast.Try, preds: T.List[Edge]) -> T.List[Edge]:
        fin = None
        if st.finalbody:
            fin = _Frame("finally", stmt=st, copies={})
            self._frames.append(fin)
        handlers = []
        for h in st.handlers:
            hn = self._new("handler", h, st)
            if h.type is None:
                types = None
            elif isinstance(h.type, ast.Tuple):
                types = [unparse(e) for e in h.type.elts]
            else:
                types = [unparse(h.type)]
            hn.extra["types"] = types
            handlers.append((hn.id, types))
        fr = _Frame("try", handlers=handlers, stmt=st)
        self._frames.append(fr)
        body_out = self._block(st.body, preds)
        self._frames.pop()
        out = self._block(st.orelse, body_out) if st.orelse else body_out
        for (h_id, _), h in zip(handlers, st.handlers):
            out = out + self._block(h.body, [(h_id, None)])
        if fin is not None:
            self._frames.pop()
            j = self._new("join", None, st)
            self._connect(out, j.id)
            out = self._block(st.finalbody, [(j.id, None)])
        return out

    def _cond(self, test: ast.AST, preds: T.List[Edge], stmt: ast.stmt) -> T.Tuple[T.List[Edge], T.List[Edge]]:
        if isinstance(test, ast.BoolOp):
            if isinstance(test.op, ast.And):
                cur, falses = preds, []
                for v in test.values:
                    t, f = self._cond(v, cur, stmt)
                    falses += f
                    cur = t
                return cur, falses
            cur, trues = preds, []
            for v in test.values:
                t, f = self._cond(v, cur, stmt)
                trues += t
                cur = f
            return trues, cur
        if isinstance(test, ast.UnaryOp) and isinstance(test.op, ast.Not):
            t, f = self._cond(test.operand, preds, stmt)
            return f, t
        n = self._new("test", test, stmt)
        self._connect(preds, n.id)
        if self._may_raise(test):
            self._exc_edges(n.id)
        if isinstance(test, ast.Constant):
            return ([(n.id, ("T", n.id))], []) if test.value else ([], [(n.id, ("F", n.id))])
        return [(n.id, ("T", n.id))], [(n.id, ("F", n.id))]

    # ------------------------------------------------------------------ queries
    def reachable(self, start: T.Optional[int] = None, blocked_nodes: T.Iterable[int] = (),
                  blocked_edges: T.Iterable[T.Tuple[int, int, T.Any]] = (), skip_exc: bool = False) -> T.Set[int]:
        start = self.entry if start is None else start
        bn = set(blocked_nodes)
        be = set(blocked_edges)
        seen = set()
        if start in bn:
            return seen
        stack = [start]
        seen.add(start)
        while stack:
            n = stack.pop()
            for dst, label in self.succ[n]:
                if dst in seen or dst in bn:
                    continue
                if (n, dst, label) in be:
                    continue
                if skip_exc and label == ("exc",):
                    continue
                seen.add(dst)
                stack.append(dst)
        return seen

    def nodes_of(self, stmt: ast.AST) -> T.List[int]:
        return list(self.stmt_nodes.get(id(stmt), []))

    def node_containing(self, expr: ast.AST) -> T.Optional[int]:
        """The CFG node whose ast contains the given sub-expression (by identity)."""
        for n in self.nodes:
            if n.ast is None:
                continue
            root = n.ast
            if n.kind == "handler":
                continue
            if isinstance(root, ast.withitem):
                roots = [root.context_expr]
            elif n.kind == "stmt" and isinstance(root, (ast.FunctionDef, ast.ClassDef)):
                continue
            else:
                roots = [root]
            for r in roots:
                for sub in ast.walk(r):
                    if sub is expr:
                        return n.id
        return None

    def edges_of_test(self, nid: int, outcome: str) -> T.List[T.Tuple[int, int, T.Any]]:
        return [(nid, dst, lab) for dst, lab in self.succ[nid] if isinstance(lab, tuple) and lab[0] == outcome and lab[1] == nid]

    def normal_exit_reachable(self) -> bool:
        return self.exit in self.reachable()

    def dominators(self) -> T.Dict[int, T.Set[int]]:
        reach = self.reachable()
        order = sorted(reach)
        dom = {n: set(reach) for n in order}
        dom[self.entry] = {self.entry}
        changed = True
        while changed:
            changed = False
            for n in order:
                if n == self.entry:
                    continue
                ps = [p for p, _ in self.pred[n] if p in reach]
                if not ps:
                    continue
                new = set.intersection(*(dom[p] for p in ps)) | {n}
                if new != dom[n]:
                    dom[n] = new
                    changed = True
        return dom

    def dump(self) -> str:
        lines = []
        for n in self.nodes:
            succs = ", ".join(f"{d}{'' if l is None else ':' + str(l)}" for d, l in self.succ[n.id])
            lines.append(f"{n.id:3d} {n.kind:8s} L{n.lineno:<4d} {n.text():60s} -> {succs}")
        return "\n".join(lines)


_NOT_EXIT = object()

EXC_PARENTS = {
    # child -> parents (as written in this code base, dotted names normalised by tail)
    "IOError": ["OSError"], "OSError": ["Exception"], "FileNotFoundError": ["OSError"],
    "ValueError": ["Exception"], "TypeError": ["Exception"], "KeyError": ["LookupError"],
    "IndexError": ["LookupError"], "LookupError": ["Exception"], "RuntimeError": ["Exception"],
    "NotImplementedError": ["RuntimeError"], "AssertionError": ["Exception"],
    "CalledProcessError": ["SubprocessError"], "SubprocessError": ["Exception"],
    "Exception": ["BaseException"], "SystemExit": ["BaseException"],
    "NoPatternMatch": ["Exception"], "PatternError": ["Exception"], "InvalidVersion": ["ValueError"],
    "UnicodeDecodeError": ["ValueError"], "UnicodeEncodeError": ["ValueError"], "UnicodeError": ["ValueError"],
    "ImportError": ["Exception"], "AttributeError": ["Exception"], "error": ["Exception"],
}


def exc_tail(name: str) -> str:
    return name.split(".")[-1]


def exc_ancestors(name: str) -> T.Set[str]:
    out = set()
    stack = [exc_tail(name)]
    while stack:
        n = stack.pop()
        if n in out:
            continue
        out.add(n)
        stack.extend(EXC_PARENTS.get(n, []))
    if "IOError" in out or "OSError" in out:
        out |= {"IOError", "OSError", "EnvironmentError"}
    return out


def _certainly_caught(raised: str, handler_types: T.List[str]) -> bool:
    anc = exc_ancestors(raised)
    return any(exc_tail(t) in anc for t in handler_types)


def handler_can_catch(handler_types: T.Optional[T.List[str]], raised: str) -> bool:
    if handler_types is None:
        return True
    return _certainly_caught(raised, handler_types)


class CFGs:
    """All CFGs of a program, with the no-return fixpoint."""

    def __init__(self, prog: Program):
        self.prog = prog
        self.noreturn: T.Set[str] = set()
        self._cache: T.Dict[str, CFG] = {}
        self._types: T.Dict[str, T.Any] = {}
        self._fixpoint()

    def _exit_code_for(self, fn: FunctionInfo) -> T.Callable[[ast.Call], T.Any]:
        def exit_code(call: ast.Call) -> T.Any:
            t = self.prog.resolve_name(fn.module, call.func, fn, self._types.get(fn.fq))
            if t.kind == "ext" and t.name in ("sys.exit", "os._exit") or (t.kind == "builtin" and t.name in ("exit", "quit")):
                if not call.args:
                    return 0
                a = call.args[0]
                if isinstance(a, ast.Constant):
                    return a.value
                return "?"
            return _NOT_EXIT
        return exit_code

    def _noreturn_for(self, fn: FunctionInfo) -> T.Callable[[ast.Call], bool]:
        def nr(call: ast.Call) -> bool:
            t = self.prog.resolve_name(fn.module, call.func, fn, self._types.get(fn.fq))
            return t.kind == "func" and t.fn is not None and t.fn.fq in self.noreturn
        return nr

    def _build(self, fn: FunctionInfo) -> CFG:
        if fn.fq not in self._types:
            self._types[fn.fq] = self.prog.local_types(fn)
        return CFG(fn, self._noreturn_for(fn), self._exit_code_for(fn))

    def _fixpoint(self) -> None:
        for _ in range(6):
            new = set()
            cfgs = {}
            for fn in self.prog.all_functions():
                g = self._build(fn)
                cfgs[fn.fq] = g
                if not fn.is_generator and not g.normal_exit_reachable():
                    new.add(fn.fq)
            self._cache = cfgs
            if new == self.noreturn:
                return
            self.noreturn = new
        raise AnalysisError("no-return fixpoint did not converge")

    def get(self, fq: str) -> CFG:
        if fq not in self._cache:
            raise AnalysisError(f"anchor function vanished: {fq}")
        return self._cache[fq]

    def types(self, fq: str) -> T.Dict[str, T.Any]:
        return self._types[fq]
