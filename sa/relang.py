"""E3 - regular-language engine over regex *constants* extracted from the source.

regex text --re._parser--> Node tree --Thompson--> NFA --subset--> DFA
Operations: inclusion with shortest counter-example, emptiness, finite enumeration.
The alphabet is printable ASCII plus newline/tab plus one stand-in for 'any other character'."""
from __future__ import annotations

import re
import typing as T

try:                                   # Python >= 3.11
    import re._parser as sre_parse
    import re._constants as sre_c
except ImportError:                    # pragma: no cover
    import sre_parse                   # type: ignore
    import sre_constants as sre_c      # type: ignore

from .model import AnalysisError

OTHER = "é"                        # stands for every character outside ASCII
SIGMA: T.FrozenSet[str] = frozenset([chr(c) for c in range(0x20, 0x7f)] + ["\n", "\t", "\r", OTHER])
DIGITS = frozenset("0123456789")
WORD = frozenset("abcdefghijklmnopqrstuvwxyzABCDEFGHIJKLMNOPQRSTUVWXYZ0123456789_") | {OTHER}
SPACE = frozenset(" \t\n\r\x0b\x0c") & SIGMA


class UnsupportedRegex(AnalysisError):
    pass


# ------------------------------------------------------------------ regex AST (own)
class R:
    pass


class Cls(R):
    def __init__(self, chars: T.Iterable[str]):
        self.chars = frozenset(chars)


class Cat(R):
    def __init__(self, parts: T.Sequence[R]):
        self.parts = list(parts)


class Alt(R):
    def __init__(self, parts: T.Sequence[R]):
        self.parts = list(parts)


class Rep(R):
    def __init__(self, inner: R, lo: int, hi: T.Optional[int]):
        self.inner, self.lo, self.hi = inner, lo, hi


class Eps(R):
    pass


class Anchor(R):
    def __init__(self, kind: str):
        self.kind = kind        # 'begin' | 'end'


def lit(s: str) -> R:
    return Cat([Cls([c if c in SIGMA else OTHER]) for c in s]) if s else Eps()


def alt_of_strings(strings: T.Iterable[str]) -> R:
    return Alt([lit(s) for s in strings])


def from_regex(pattern: str, flags: int = 0, anchors: str = "error") -> R:
    """Parse a Python regex constant.  anchors: 'error' | 'keep' | 'drop'."""
    try:
        tree = sre_parse.parse(pattern, flags)
    except re.error as ex:
        raise UnsupportedRegex(f"regex does not parse: {pattern!r}: {ex}")
    return _conv(tree, flags | tree.state.flags, anchors)


def _conv(seq: T.Any, flags: int, anchors: str) -> R:
    parts: T.List[R] = []
    for op, av in seq:
        name = str(op)
        if name == "LITERAL":
            ch = chr(av)
            if flags & re.IGNORECASE and ch.isalpha():
                parts.append(Cls({ch.lower(), ch.upper()} & SIGMA or {OTHER}))
            else:
                parts.append(Cls([ch if ch in SIGMA else OTHER]))
        elif name == "NOT_LITERAL":
            parts.append(Cls(SIGMA - {chr(av)} - ({"\n"} if False else set())))
        elif name == "ANY":
            parts.append(Cls(SIGMA if flags & re.DOTALL else SIGMA - {"\n"}))
        elif name == "IN":
            parts.append(Cls(_cls(av, flags)))
        elif name == "BRANCH":
            parts.append(Alt([_conv(b, flags, anchors) for b in av[1]]))
        elif name == "SUBPATTERN":
            # (group, add_flags, del_flags, pattern)
            sub = av[3] if len(av) == 4 else av[1]
            add = av[1] if len(av) == 4 else 0
            dele = av[2] if len(av) == 4 else 0
            parts.append(_conv(sub, (flags | add) & ~dele, anchors))
        elif name in ("MAX_REPEAT", "MIN_REPEAT", "POSSESSIVE_REPEAT"):
            lo, hi, sub = av
            hi2 = None if hi == sre_c.MAXREPEAT else int(hi)
            parts.append(Rep(_conv(sub, flags, anchors), int(lo), hi2))
        elif name == "AT":
            kind = str(av)
            if anchors == "drop":
                continue
            if anchors == "keep":
                if kind in ("AT_BEGINNING", "AT_BEGINNING_STRING"):
                    parts.append(Anchor("begin"))
                    continue
                if kind in ("AT_END", "AT_END_STRING"):
                    parts.append(Anchor("end"))
                    continue
            raise UnsupportedRegex(f"anchor {kind} not supported here")
        elif name == "ATOMIC_GROUP":
            parts.append(_conv(av, flags, anchors))
        else:
            raise UnsupportedRegex(f"regex construct {name} not supported")
    if not parts:
        return Eps()
    return parts[0] if len(parts) == 1 else Cat(parts)


def _cls(items: T.Any, flags: int) -> T.FrozenSet[str]:
    out: T.Set[str] = set()
    negate = False
    for op, av in items:
        name = str(op)
        if name == "NEGATE":
            negate = True
        elif name == "LITERAL":
            ch = chr(av)
            out.add(ch if ch in SIGMA else OTHER)
            if flags & re.IGNORECASE and ch.isalpha():
                out |= {ch.lower(), ch.upper()}
        elif name == "RANGE":
            lo, hi = av
            for c in range(lo, hi + 1):
                ch = chr(c)
                if ch in SIGMA:
                    out.add(ch)
                elif c > 0x7e:
                    out.add(OTHER)
                if flags & re.IGNORECASE and ch.isalpha():
                    out |= {ch.lower(), ch.upper()} & SIGMA
        elif name == "CATEGORY":
            cat = str(av)
            if cat == "CATEGORY_DIGIT":
                # str patterns: \d also matches every non-ASCII decimal digit (OTHER stands for all non-ASCII characters) unless re.ASCII
                out |= DIGITS if flags & re.ASCII else DIGITS | {OTHER}
            elif cat == "CATEGORY_NOT_DIGIT":
                out |= SIGMA - DIGITS
            elif cat == "CATEGORY_SPACE":
                out |= SPACE
            elif cat == "CATEGORY_NOT_SPACE":
                out |= SIGMA - SPACE
            elif cat == "CATEGORY_WORD":
                out |= WORD
            elif cat == "CATEGORY_NOT_WORD":
                out |= SIGMA - WORD
            else:
                raise UnsupportedRegex(f"category {cat}")
        else:
            raise UnsupportedRegex(f"class item {name}")
    return frozenset(SIGMA - out if negate else out)


# ------------------------------------------------------------------ NFA / DFA
class NFA:
    def __init__(self) -> None:
        self.n = 0
        self.eps: T.Dict[int, T.Set[int]] = {}
        self.tr: T.Dict[int, T.List[T.Tuple[T.FrozenSet[str], int]]] = {}
        self.start = self.new()
        self.accept = self.new()

    def new(self) -> int:
        s = self.n
        self.n += 1
        self.eps[s] = set()
        self.tr[s] = []
        return s


def _build(nfa: NFA, r: R, s: int, t: int) -> None:
    if isinstance(r, Eps) or isinstance(r, Anchor):
        nfa.eps[s].add(t)
    elif isinstance(r, Cls):
        if r.chars:
            nfa.tr[s].append((r.chars, t))
    elif isinstance(r, Cat):
        cur = s
        for i, p in enumerate(r.parts):
            nxt = t if i == len(r.parts) - 1 else nfa.new()
            _build(nfa, p, cur, nxt)
            cur = nxt
        if not r.parts:
            nfa.eps[s].add(t)
    elif isinstance(r, Alt):
        for p in r.parts:
            a, b = nfa.new(), nfa.new()
            nfa.eps[s].add(a)
            _build(nfa, p, a, b)
            nfa.eps[b].add(t)
    elif isinstance(r, Rep):
        cur = s
        for _ in range(r.lo):
            nxt = nfa.new()
            _build(nfa, r.inner, cur, nxt)
            cur = nxt
        if r.hi is None:
            a, b = nfa.new(), nfa.new()
            nfa.eps[cur].add(a)
            _build(nfa, r.inner, a, b)
            nfa.eps[b].add(a)
            nfa.eps[a].add(t)
        else:
            if r.hi - r.lo > 64:
                raise UnsupportedRegex("bounded repeat too large")
            nfa.eps[cur].add(t)
            for _ in range(r.hi - r.lo):
                nxt = nfa.new()
                _build(nfa, r.inner, cur, nxt)
                nfa.eps[nxt].add(t)
                cur = nxt
    else:
        raise UnsupportedRegex(f"node {type(r).__name__}")


class DFA:
    """Complete DFA over SIGMA; state 0 is the start; `dead` is a non-accepting sink if present."""

    def __init__(self, trans: T.List[T.Dict[str, int]], accepting: T.Set[int]):
        self.trans = trans
        self.accepting = accepting

    def accepts(self, s: str) -> bool:
        q = 0
        for ch in s:
            q = self.trans[q].get(ch if ch in SIGMA else OTHER, -1)
            if q < 0:
                return False
        return q in self.accepting


class Lang(R):
    """A language given directly by a DFA (only valid at top level)."""

    def __init__(self, dfa: "DFA"):
        self.dfa = dfa


def shortest_length(r: R) -> T.Optional[int]:
    """Length of a shortest word of L(r) (breadth-first over the DFA); None if the language is empty."""
    d = to_dfa(r)
    seen = {0}
    frontier = [0]
    depth = 0
    while frontier:
        if any(q in d.accepting for q in frontier):
            return depth
        nxt = []
        for q in frontier:
            for _ch, q2 in d.trans[q].items():
                if q2 >= 0 and q2 not in seen:
                    seen.add(q2)
                    nxt.append(q2)
        frontier = nxt
        depth += 1
    return None


def nonempty(r: R) -> R:
    """L(r) without the empty word."""
    d = to_dfa(r)
    trans = [dict(d.trans[0])] + [dict(row) for row in d.trans]
    trans = [{ch: q + 1 for ch, q in row.items() if q >= 0} for row in trans]
    return Lang(DFA(trans, {q + 1 for q in d.accepting}))


def to_dfa(r: R) -> DFA:
    if isinstance(r, Lang):
        return r.dfa
    cached = getattr(r, "_dfa", None)
    if cached is not None:
        return cached
    d = _to_dfa(r)
    try:
        r._dfa = d          # type: ignore[attr-defined]
    except AttributeError:
        pass
    return d


def _to_dfa(r: R) -> DFA:
    nfa = NFA()
    _build(nfa, r, nfa.start, nfa.accept)

    def closure(states: T.Iterable[int]) -> T.FrozenSet[int]:
        seen = set(states)
        stack = list(seen)
        while stack:
            q = stack.pop()
            for p in nfa.eps[q]:
                if p not in seen:
                    seen.add(p)
                    stack.append(p)
        return frozenset(seen)

    start = closure([nfa.start])
    index = {start: 0}
    order = [start]
    trans: T.List[T.Dict[str, int]] = []
    i = 0
    while i < len(order):
        cur = order[i]
        i += 1
        row: T.Dict[str, int] = {}
        # group symbols by target set
        moves: T.Dict[str, T.Set[int]] = {}
        for q in cur:
            for chars, dst in nfa.tr[q]:
                for ch in chars:
                    moves.setdefault(ch, set()).add(dst)
        cache: T.Dict[T.FrozenSet[int], int] = {}
        for ch, tset in moves.items():
            tgt = frozenset(tset)
            if tgt not in cache:
                cl = closure(tgt)
                if cl not in index:
                    index[cl] = len(order)
                    order.append(cl)
                    if len(order) > 400000:
                        raise UnsupportedRegex("DFA too large")
                cache[tgt] = index[cl]
            row[ch] = cache[tgt]
        trans.append(row)
    accepting = {k for st, k in index.items() if nfa.accept in st}
    return DFA(trans, accepting)


def _order_symbols() -> T.List[str]:
    return sorted(SIGMA, key=lambda c: (c == OTHER, not c.isalnum(), c))


_SYMS = _order_symbols()


def difference_witness(a: DFA, b: DFA) -> T.Optional[str]:
    """Shortest string in L(a) \\ L(b), or None if L(a) ⊆ L(b).  State -1 is the dead sink."""
    start = (0, 0)
    seen = {start}
    queue: T.List[T.Tuple[T.Tuple[int, int], str]] = [(start, "")]
    head = 0
    while head < len(queue):
        (qa, qb), w = queue[head]
        head += 1
        if qa in a.accepting and qb not in b.accepting:
            return w
        ra = a.trans[qa]
        rb = b.trans[qb] if qb >= 0 else {}
        for ch in _SYMS:
            na = ra.get(ch, -1)
            if na < 0:
                continue
            nxt = (na, rb.get(ch, -1))
            if nxt not in seen:
                seen.add(nxt)
                queue.append((nxt, w + ch))
    return None


def included(a: R, b: R) -> T.Optional[str]:
    return difference_witness(to_dfa(a), to_dfa(b))


def equal(a: R, b: R) -> T.Optional[T.Tuple[str, str]]:
    da, db = to_dfa(a), to_dfa(b)
    w = difference_witness(da, db)
    if w is not None:
        return ("left-only", w)
    w = difference_witness(db, da)
    if w is not None:
        return ("right-only", w)
    return None


def _live_states(d: DFA) -> T.Set[int]:
    rev: T.Dict[int, T.Set[int]] = {}
    for q, row in enumerate(d.trans):
        for dst in set(row.values()):
            if dst >= 0:
                rev.setdefault(dst, set()).add(q)
    live = set(d.accepting)
    stack = list(live)
    while stack:
        q = stack.pop()
        for p in rev.get(q, ()):
            if p not in live:
                live.add(p)
                stack.append(p)
    return live


def enumerate_language(r: R, max_len: int = 8, limit: int = 20000) -> T.Tuple[T.List[str], bool]:
    """All strings of L(r) up to max_len (BFS).  Returns (strings, complete) where complete says
    the language is finite and fully listed."""
    d = to_dfa(r)
    live = _live_states(d)
    out: T.List[str] = []
    frontier: T.List[T.Tuple[int, str]] = [(0, "")] if 0 in live else []
    complete = True
    for _ in range(max_len + 1):
        nxt: T.List[T.Tuple[int, str]] = []
        for q, w in frontier:
            if q in d.accepting:
                out.append(w)
                if len(out) > limit:
                    return out, False
            row = d.trans[q]
            for ch in _SYMS:
                t = row.get(ch, -1)
                if t in live:
                    nxt.append((t, w + ch))
        frontier = nxt
        if len(frontier) > limit * 4:
            return out, False
    if frontier:
        complete = False
    return out, complete


def is_empty(r: R) -> bool:
    d = to_dfa(r)
    return not (_live_states(d) & {0})


def python_prefix_match_end(pattern: str, w: str, flags: int = 0) -> T.Optional[int]:
    """Where Python's backtracking matcher (leftmost alternative first) stops on `w` when the
    extracted regex constant is matched un-anchored at the end.  The regex is data of the program."""
    m = re.compile(pattern, flags).match(w)
    return None if m is None else m.end()
