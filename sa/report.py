"""Check context, findings, known-findings matching, evidence writer, driver."""
from __future__ import annotations

import importlib
import json
import os
import sys
import time
import traceback
import typing as T

from .model import AnalysisError, Program

VERIF = os.path.dirname(os.path.dirname(os.path.abspath(__file__)))
EVIDENCE_DIR = os.path.join(VERIF, "evidence")
KNOWN_FILE = os.path.join(VERIF, "known_findings.json")


class Finding:
    def __init__(self, rule: str, key: str, message: str, loc: str = "", witness: T.Any = None,
                 path: T.Optional[T.List[str]] = None):
        self.rule = rule
        self.key = key
        self.message = message
        self.loc = loc
        self.witness = witness
        self.path = path or []

    def to_json(self) -> T.Dict[str, T.Any]:
        return {"rule": self.rule, "key": self.key, "message": self.message, "loc": self.loc,
                "witness": self.witness, "path": self.path}


class Ctx:
    def __init__(self, prop: str, repo: str, tier: str, seed: int):
        self.prop = prop
        self.repo = repo
        self.tier = tier
        self.seed = seed
        self.prog = Program(repo)
        self._cfgs = None
        self._effects = None
        self._interproc: T.Dict[T.Tuple[str, ...], T.Any] = {}
        self.obligations: T.List[T.Dict[str, T.Any]] = []
        self.findings: T.List[Finding] = []
        self.observations: T.List[str] = []
        self.floors: T.List[T.Dict[str, T.Any]] = []
        self.rules: T.Dict[str, str] = {}
        self.functions_visited: T.Set[str] = set()
        self.assumptions: T.List[str] = []
        self.notes: T.Dict[str, T.Any] = {}

    # ---- lazily built engines
    @property
    def cfgs(self):
        if self._cfgs is None:
            from .cfg import CFGs
            self._cfgs = CFGs(self.prog)
        return self._cfgs

    @property
    def effects(self):
        if self._effects is None:
            from .effects import Effects
            self._effects = Effects(self.prog)
        return self._effects

    def interproc(self, import_exit_of: T.Iterable[str] = ()):
        key = tuple(sorted(import_exit_of))
        if key not in self._interproc:
            from .pathcond import Interproc
            self._interproc[key] = Interproc(self.prog, self.cfgs, self.effects, import_exit_of=key)
        return self._interproc[key]

    # ---- recording
    def rule(self, rid: str, text: str) -> None:
        self.rules[rid] = text

    def visit(self, *fqs: str) -> None:
        self.functions_visited.update(fqs)

    def ok(self, rule: str, what: str) -> None:
        self.obligations.append({"rule": f"{self.prop}/{rule}", "what": what, "ok": True})
        if os.environ.get("VERIF_TRACE"):
            print(f"  ok {self.prop}/{rule}: {what}", file=sys.stderr)

    def bad(self, rule: str, key: str, message: str, loc: str = "", witness: T.Any = None,
            path: T.Optional[T.List[str]] = None, what: T.Optional[str] = None) -> None:
        full_key = f"{self.prop}/{rule} {key}"
        self.obligations.append({"rule": f"{self.prop}/{rule}", "what": what or key, "ok": False})
        self.findings.append(Finding(f"{self.prop}/{rule}", full_key, message, loc, witness, path))

    def check(self, rule: str, cond: bool, what: str, key: str, message: str, loc: str = "",
              witness: T.Any = None, path: T.Optional[T.List[str]] = None) -> bool:
        if cond:
            self.ok(rule, what)
        else:
            self.bad(rule, key, message, loc, witness, path, what=what)
        return cond

    def observe(self, text: str) -> None:
        self.observations.append(text)

    def require(self, cond: T.Any, message: str) -> None:
        """Anchor / shape requirement: failing it means the analysis cannot decide (exit 2)."""
        if not cond:
            raise AnalysisError(f"{self.prop}: {message}")

    def floor(self, rule: str, what: str, count: int, minimum: int) -> None:
        self.floors.append({"rule": f"{self.prop}/{rule}", "what": what, "count": count, "floor": minimum})
        if count < minimum:
            raise AnalysisError(f"{self.prop}/{rule}: matched {count} {what}, floor is {minimum} "
                                f"(a rule that matches fewer instances than were confirmed by hand is not trusted)")

    def assume(self, text: str) -> None:
        if text not in self.assumptions:
            self.assumptions.append(text)


class SubCtx:
    """Runs (part of) another property's check as a prerequisite rule of this one: only the rules in
    `allow` are kept and they are recorded under this check's rule id `alias`.  Findings that the source
    property lists as known are left to the source check."""

    def __init__(self, parent: Ctx, src_prop: str, allow: T.Iterable[str], alias: str,
                 only: T.Optional[T.Callable[[str], bool]] = None):
        self._only = only
        self._p = parent
        self._src = src_prop
        self._allow = set(allow)
        self._alias = alias
        self._known = {k["key"] for k in load_known() if k.get("property") == src_prop and k.get("status") == "known"}
        self.kept = 0
        self.reached: T.Set[str] = set()          # allowed rules with at least one obligation or floor
        self.last_rule: T.Optional[str] = None    # rule of the most recent obligation of the source check (allowed or not)

    def __getattr__(self, name: str) -> T.Any:
        return getattr(self._p, name)

    def rule(self, rid: str, text: str) -> None:
        pass

    def ok(self, rule: str, what: str) -> None:
        self.last_rule = rule
        if rule in self._allow:
            self.kept += 1
            self.reached.add(rule)
            self._p.ok(self._alias, f"[{self._src}/{rule}] {what}")

    def bad(self, rule: str, key: str, message: str, loc: str = "", witness: T.Any = None,
            path: T.Optional[T.List[str]] = None, what: T.Optional[str] = None) -> None:
        self.last_rule = rule
        if rule not in self._allow:
            return
        self.reached.add(rule)
        if f"{self._src}/{rule} {key}" in self._known:
            return
        if self._only is not None and not self._only(key):
            return          # a finding about a construct outside this property's scope (e.g. the other engine)
        self.kept += 1
        self._p.bad(self._alias, key, f"[{self._src}/{rule}] {message}", loc, witness, path, what=f"[{self._src}/{rule}] {what or key}")

    def check(self, rule: str, cond: bool, what: str, key: str, message: str, loc: str = "",
              witness: T.Any = None, path: T.Optional[T.List[str]] = None) -> bool:
        if cond:
            self.ok(rule, what)
        else:
            self.bad(rule, key, message, loc, witness, path, what=what)
        return cond

    def floor(self, rule: str, what: str, count: int, minimum: int) -> None:
        self.last_rule = rule
        if rule in self._allow:
            self.reached.add(rule)
            self._p.floor(self._alias, f"[{self._src}/{rule}] {what}", count, minimum)

    @property
    def prop(self) -> str:
        return self._src


def run_prerequisite(ctx: Ctx, src_prop: str, allow: T.Iterable[str], alias: str,
                     only: T.Optional[T.Callable[[str], bool]] = None) -> int:
    """Run the rules `allow` of check `src_prop` inside ctx under rule id `alias`; `only` keeps the findings
    whose key it accepts."""
    mod = importlib.import_module(f"checks.{src_prop.lower()}")
    root = ctx
    while isinstance(root, SubCtx):
        root = root._p
    if src_prop in _PREREQ_ACTIVE or src_prop == getattr(root, "prop", None):
        for fr in _REC_FRAMES:
            fr[0].add(src_prop)
        return 0          # mutual imports (C18 <-> C19): the property that is already being decided is not entered again
    for fr in _REC_FRAMES:
        fr[1].add(src_prop)
    sub = SubCtx(ctx, src_prop, allow, alias, only)
    _PREREQ_ACTIVE.append(src_prop)
    try:
        _replay(root, ctx, mod, src_prop, sub)
    except AnalysisError:
        # The source check gave up.  That is of no concern only when it happened in a rule that is not imported: every
        # imported rule was reached and the obligation recorded last belongs to another rule.  Otherwise an imported rule
        # may be undecided (or half decided) and this check cannot claim it.
        if sub.kept == 0 or sub.last_rule in sub._allow or not sub._allow <= sub.reached:
            # The importing check goes on with its own rules (a finding of theirs stands); without a finding the run ends
            # as a refusal with this message.
            import sys as _sys
            deferred = getattr(root, "deferred_refusals", None)
            if deferred is None:
                raise
            deferred.append(f"[{src_prop} imported as {alias}] {_sys.exc_info()[1]}")
    finally:
        _PREREQ_ACTIVE.pop()
    return sub.kept


_PREREQ_ACTIVE: T.List[str] = []
_REC_FRAMES: T.List[T.Tuple[T.Set[str], T.Set[str]]] = []          # per running recording: (imports skipped by the guard, imports entered)


class _Recorder(SubCtx):
    """Runs a source check once and records every obligation, finding and floor it produces (whatever their rule), so that
    several imports of the same check - with different rule selections - replay the one run."""

    def __init__(self, parent: T.Any, src_prop: str):
        SubCtx.__init__(self, parent, src_prop, (), "")
        self.events: T.List[T.Tuple[T.Any, ...]] = []
        self.floor_failed = False
        # what a check may read back of its own run (C06 counts its obligations, C03 looks for findings of a rule)
        self.obligations: T.List[T.Dict[str, T.Any]] = []
        self.findings: T.List[Finding] = []

    def ok(self, rule: str, what: str) -> None:
        self.events.append(("ok", rule, what))
        self.obligations.append({"rule": f"{self._src}/{rule}", "what": what, "ok": True})

    def bad(self, rule: str, key: str, message: str, loc: str = "", witness: T.Any = None,
            path: T.Optional[T.List[str]] = None, what: T.Optional[str] = None) -> None:
        self.events.append(("bad", rule, key, message, loc, witness, path, what))
        self.obligations.append({"rule": f"{self._src}/{rule}", "what": what or key, "ok": False})
        self.findings.append(Finding(f"{self._src}/{rule}", f"{self._src}/{rule} {key}", message, loc, witness, path))

    def floor(self, rule: str, what: str, count: int, minimum: int) -> None:
        self.events.append(("floor", rule, what, count, minimum))
        if count < minimum:
            self.floor_failed = True          # an import that selects this rule stops here when it replays; the others go on


def _replay(root: T.Any, ctx: T.Any, mod: T.Any, src_prop: str, sub: SubCtx) -> None:
    cache = root.__dict__.setdefault("_prereq_cache", {}) if hasattr(root, "__dict__") else {}
    # what a run of the source check records depends on the importer only through the mutual-import guard: a recorded run is
    # reused when every import it skipped is blocked now as well and none of those it entered is
    blocked = (set(_PREREQ_ACTIVE) | {getattr(root, "prop", None)}) - {src_prop}
    entry = next(((ev_, er_) for sk_, en_, ev_, er_ in cache.get(src_prop, []) if sk_ <= blocked and not (en_ & blocked)), None)
    if entry is None:
        rec = _Recorder(ctx, src_prop)
        frame: T.Tuple[T.Set[str], T.Set[str]] = (set(), set())
        _REC_FRAMES.append(frame)
        err: T.Optional[str] = None
        try:
            mod.run(rec)
        except AnalysisError as ex:
            err = str(ex)
        except Exception:
            if not rec.floor_failed:
                raise
            err = "the source check cannot go on after a floor that failed"          # code behind a failed floor relies on it
        finally:
            _REC_FRAMES.pop()
        entry = (rec.events, err)
        cache.setdefault(src_prop, []).append((frame[0], frame[1], rec.events, err))
    events, err = entry
    for ev in events:
        if ev[0] == "ok":
            sub.ok(ev[1], ev[2])
        elif ev[0] == "bad":
            sub.bad(ev[1], ev[2], ev[3], ev[4], ev[5], ev[6], what=ev[7])
        else:
            sub.floor(ev[1], ev[2], ev[3], ev[4])
    if err is not None:
        raise AnalysisError(err)


def load_known() -> T.List[T.Dict[str, T.Any]]:
    if not os.path.exists(KNOWN_FILE):
        return []
    with open(KNOWN_FILE) as fobj:
        return json.load(fobj).get("findings", [])


def run_check(prop: str, repo: str, tier: str, seed: int) -> Ctx:
    mod = importlib.import_module(f"checks.{prop.lower()}")
    ctx = Ctx(prop, repo, tier, seed)
    mod.run(ctx)
    return ctx


def _normalisation_note(ctx: "Ctx") -> T.Dict[str, T.Any]:
    from . import normalise
    return {"what": "functions not in the pinned tree's function list are expanded at their call sites before analysis (sa/normalise.py); renamed functions get their old name back",
            "expanded_call_sites": {m: mod.expanded_calls for m, mod in ctx.prog.modules.items() if mod.expanded_calls},
            "helpers_dropped": list(normalise.LAST_RUN.get("dropped", [])),
            "renames_undone": list(normalise.LAST_RUN.get("renames_undone", [])),
            "const_renames_undone": list(normalise.LAST_RUN.get("const_renames_undone", [])),
            "new_constants_inlined": list(normalise.LAST_RUN.get("constants_inlined", [])),
            "local_renames_undone": list(normalise.LAST_RUN.get("local_renames_undone", [])),
            "table_dispatch_expanded": normalise.LAST_RUN.get("dispatch_expanded", 0),
            "literal_loops_unrolled": normalise.LAST_RUN.get("literal_loops_unrolled", 0),
            "kwargs_splats_expanded": normalise.LAST_RUN.get("kwargs_splats_expanded", 0),
            "bool_returns_expanded": normalise.LAST_RUN.get("bool_returns_expanded", 0),
            "accumulated_replace_expanded": normalise.LAST_RUN.get("accumulated_replace_expanded", 0),
            "compare_chains_split": normalise.LAST_RUN.get("compare_chains_split", 0),
            "inplace_sorts_merged": normalise.LAST_RUN.get("inplace_sorts_merged", 0)}


def write_evidence(ctx: Ctx, mod: T.Any, wall: float, known_matched: T.List[str], new: T.List[Finding],
                   selftest: T.Optional[T.Dict[str, T.Any]] = None) -> str:
    os.makedirs(EVIDENCE_DIR, exist_ok=True)
    obl = ctx.obligations
    distinct = len({(o["rule"], o["what"]) for o in obl})
    samples = [f"{o['rule']}: {o['what']} -> {'discharged' if o['ok'] else 'FAILED'}" for o in obl[:: max(1, len(obl) // 12)]][:14]
    consulted = sorted(ctx.prog.consulted) or sorted(ctx.prog.modules)
    cov = {
        "explanation": getattr(mod, "EXPLANATION", "static analysis of the source tree") + "  Rules evaluated on this run: " + "; ".join(f"{k} - {v}" for k, v in ctx.rules.items()),
        "technique": getattr(mod, "TECHNIQUE", "static analysis"),
        "rules": ctx.rules,
        "obligations": len(obl),
        "discharged": sum(1 for o in obl if o["ok"]),
        "evaluations": max(1, len(obl)),
        "distinct_nontrivial": distinct,
        "rule": "one obligation per rule instance (call site, table entry, path, table pair); distinct = distinct (rule, instance) pairs; every instance is derived from the current source, none is constant",
        "samples": samples or ["(no obligations)"],
        "floors": ctx.floors,
        "modules": {m: ctx.prog.modules[m].sha256 for m in consulted},
        "functions_visited": sorted(ctx.functions_visited),
        "calls_resolved": ctx.prog.resolved_calls,
        "calls_unresolved": ctx.prog.unresolved_calls,
        "known_findings_matched": known_matched,
        "new_findings": [f.to_json() for f in new],
        "observations": ctx.observations,
        "notes": ctx.notes,
        "repo": ctx.repo,
        "normalisation": _normalisation_note(ctx),
        "exhaustive": True,
        "bumpver_imported": "bumpver" in sys.modules,
    }
    if selftest is not None:
        cov["selftest"] = selftest
    ev = {
        "property_id": ctx.prop,
        "tier": ctx.tier,
        "seed": ctx.seed,
        "level": "other",
        "coverage": cov,
        "assumptions": ctx.assumptions + [
            "Python's ast / re._parser / shlex / tomllib / configparser parse as documented",
            "call resolution is annotation-driven (see coverage.calls_unresolved)",
        ],
        "wall_s": round(wall, 3),
        "violations": len(new),
    }
    path = os.path.join(EVIDENCE_DIR, f"{ctx.prop}.json")
    with open(path, "w") as fobj:
        json.dump(ev, fobj, indent=1, sort_keys=False, default=str)
    return path


def main(argv: T.List[str]) -> int:
    import argparse
    import signal
    try:
        signal.signal(signal.SIGPIPE, signal.SIG_DFL)
    except (AttributeError, ValueError):
        pass
    ap = argparse.ArgumentParser()
    ap.add_argument("prop")
    ap.add_argument("--tier", default=os.environ.get("VERIF_TIER", "quick"), choices=["quick", "thorough"])
    ap.add_argument("--repo", default=os.environ.get("VERIF_REPO", "/repo"))
    ap.add_argument("--no-evidence", action="store_true")
    ap.add_argument("--json", action="store_true", help="print findings as JSON (used by the self-test)")
    ap.add_argument("--replay", default=None)
    args = ap.parse_args(argv)
    prop = args.prop.upper()
    seed = int(os.environ.get("VERIF_SEED", "0") or 0)
    if args.replay:
        with open(args.replay) as fobj:
            print(json.dumps(json.load(fobj), indent=1))
        return 0
    t0 = time.time()
    try:
        mod = importlib.import_module(f"checks.{prop.lower()}")
        ctx = Ctx(prop, args.repo, args.tier, seed)
        stopped_early = None
        ctx.deferred_refusals = []          # imported rule sets that gave up (run_prerequisite)
        try:
            mod.run(ctx)
            if ctx.deferred_refusals:
                raise AnalysisError(ctx.deferred_refusals[0])
        except AnalysisError as ex_run:
            # a rule gave up on an unrecognised shape.  Findings that earlier rules had already decided stand (each names
            # a construct that violates its rule); without any, the run is a refusal (exit 2).
            known_now = {k["key"] for k in load_known() if k.get("property") == prop and k.get("status") == "known"}
            if not any(f.key not in known_now for f in ctx.findings):
                raise
            stopped_early = str(ex_run)
        if "bumpver" in sys.modules:
            raise AnalysisError("bumpver was imported during a static check")
        known = [k for k in load_known() if k.get("property") == prop]
        known_keys = {k["key"]: k for k in known if k.get("status") == "known"}
        matched, new = [], []
        for f in ctx.findings:
            if f.key in known_keys:
                matched.append(f.key)
            else:
                new.append(f)
        selftest = None
        if args.tier == "thorough" and not args.json and not os.environ.get("VERIF_NO_SELFTEST"):
            from . import selftest as st
            selftest = st.run_for(prop, args.repo)
            selftest = {k: v for k, v in selftest.items() if k != "results"} | {"entries": [f"{r['kind']}: {r['name']} -> {r['status']}" for r in selftest["results"]]}
        if args.json:
            print(json.dumps({"findings": [f.to_json() for f in ctx.findings]}))
            return 1 if new else 0
        if not args.no_evidence:
            write_evidence(ctx, mod, time.time() - t0, matched, new, selftest)
        print(f"{prop} [{args.tier}] obligations={len(ctx.obligations)} "
              f"discharged={sum(1 for o in ctx.obligations if o['ok'])} functions={len(ctx.functions_visited)} "
              f"wall={time.time() - t0:.2f}s")
        for fl in ctx.floors:
            print(f"  floor {fl['rule']}: {fl['count']} {fl['what']} (>= {fl['floor']})")
        for o in ctx.observations:
            print(f"  observation: {o}")
        for key in dict.fromkeys(matched):
            print(f"KNOWN-FINDING: property={prop} {key} -- {known_keys[key].get('what', '')}")
        stale = [k for k in known_keys if k not in matched]
        for k in stale:
            print(f"  note: listed known finding no longer reported: {k}")
        if selftest is not None:
            print(f"  selftest: {selftest['fired']}/{selftest['fires_expected']} mutants caught, "
                  f"{selftest['silent']}/{selftest['silent_expected']} twins silent")
            if selftest["failures"]:
                for fl in selftest["failures"]:
                    print(f"ANALYSIS-ERROR selftest: {fl}")
                return 2
        if stopped_early:
            print(f"  note: the analysis stopped early ({stopped_early}); the findings below were decided before that")
        if new:
            os.makedirs(os.path.join(EVIDENCE_DIR, "replay"), exist_ok=True)
            rp = os.path.join(EVIDENCE_DIR, "replay", f"{prop}.json")
            with open(rp, "w") as fobj:
                json.dump({"property": prop, "repo": args.repo, "findings": [f.to_json() for f in new]}, fobj, indent=1, default=str)
            for f in new:
                print(f"  finding {f.key}\n      at {f.loc}: {f.message}" + (f"\n      witness: {f.witness}" if f.witness is not None else "")
                      + ("\n      path: " + " > ".join(f.path) if f.path else ""))
            print(f"VIOLATION property={prop} replay={rp}")
            return 1
        return 0
    except AnalysisError as ex:
        print(f"ANALYSIS-ERROR property={prop}: {ex}")
        return 2
    except Exception:
        traceback.print_exc()
        print(f"ANALYSIS-ERROR property={prop}: internal error in the checker (see traceback)")
        return 2
