"""Path conditions: for every CFG node the exact set of valuations of the
function's branch atoms under which the node is reached (forward dataflow over
truth-table bitsets), and its interprocedural composition along call chains."""
from __future__ import annotations

import ast
import typing as T

from .boolfn import BF
from .cfg import CFG, CFGs
from .effects import Effects
from .model import AnalysisError, FunctionInfo, Program, call_arg, unparse, walk_no_nested

SEP = "\u02d0"     # 'ː' - a legal identifier character used to qualify callee-local names

MUTATING_METHODS = {"add", "append", "extend", "update", "pop", "remove", "clear", "sort", "insert",
                    "discard", "setdefault", "popitem", "reverse"}


def norm_atom(test: ast.AST) -> T.Tuple[str, bool]:
    """(canonical text, polarity).  `x is not None` -> ('x is None', False) etc."""
    if isinstance(test, ast.UnaryOp) and isinstance(test.op, ast.Not):
        t, p = norm_atom(test.operand)
        return t, not p
    if isinstance(test, ast.Compare) and len(test.ops) == 1:
        op = test.ops[0]
        flip = {ast.IsNot: ast.Is, ast.NotEq: ast.Eq, ast.NotIn: ast.In}
        for neg, pos in flip.items():
            if isinstance(op, neg):
                new = ast.Compare(left=test.left, ops=[pos()], comparators=test.comparators)
                return unparse(new), False
        # `x is False` on an Optional[bool] is kept as its own atom
        # emptiness tests:  len(x) > 0 / len(x) != 0 / len(x) >= 1  ==  x ;  len(x) == 0  ==  not x
        l, r = test.left, test.comparators[0]
        if isinstance(l, ast.Call) and unparse(l.func) == "len" and len(l.args) == 1 and isinstance(r, ast.Constant):
            inner = unparse(l.args[0])
            if (isinstance(op, (ast.Gt, ast.NotEq)) and r.value == 0) or (isinstance(op, ast.GtE) and r.value == 1):
                return inner, True
            if (isinstance(op, ast.Eq) and r.value == 0) or (isinstance(op, ast.Lt) and r.value == 1) or (isinstance(op, ast.LtE) and r.value == 0):
                return inner, False
    if isinstance(test, ast.Call) and unparse(test.func) == "bool" and len(test.args) == 1:
        return norm_atom(test.args[0])
    return unparse(test), True


def assigned_names(node: ast.AST) -> T.Set[str]:
    """Names (root variables) written by executing this CFG node's statement (normal completion)."""
    out: T.Set[str] = set()

    def tgt(t: ast.AST) -> None:
        if isinstance(t, ast.Name):
            out.add(t.id)
        elif isinstance(t, (ast.Tuple, ast.List)):
            for e in t.elts:
                tgt(e)
        elif isinstance(t, ast.Starred):
            tgt(t.value)
        elif isinstance(t, (ast.Subscript, ast.Attribute)):
            r = t
            while isinstance(r, (ast.Subscript, ast.Attribute)):
                r = r.value
            if isinstance(r, ast.Name):
                out.add(r.id)

    if isinstance(node, ast.Assign):
        for t in node.targets:
            tgt(t)
    elif isinstance(node, (ast.AnnAssign, ast.AugAssign)):
        if getattr(node, "value", None) is not None or isinstance(node, ast.AugAssign):
            tgt(node.target)
    elif isinstance(node, ast.withitem):
        if node.optional_vars is not None:
            tgt(node.optional_vars)
    elif isinstance(node, ast.ExceptHandler):
        if node.name:
            out.add(node.name)
    elif isinstance(node, (ast.Delete,)):
        for t in node.targets:
            tgt(t)
    if isinstance(node, ast.stmt) or isinstance(node, ast.expr):
        for sub in ast.walk(node):
            if isinstance(sub, ast.NamedExpr):
                tgt(sub.target)
            if isinstance(sub, ast.Call) and isinstance(sub.func, ast.Attribute) and sub.func.attr in MUTATING_METHODS:
                r = sub.func.value
                while isinstance(r, (ast.Subscript, ast.Attribute)):
                    r = r.value
                if isinstance(r, ast.Name):
                    out.add(r.id)
    return out


class PathCond:
    def __init__(self, cfg: CFG, extra_atoms: T.Sequence[str] = (), max_atoms: int = 18,
                 only: T.Optional[T.Callable[[str], bool]] = None,
                 call_post: T.Optional[T.Dict[int, BF]] = None,
                 blocked_nodes: T.Iterable[int] = ()):
        self.cfg = cfg
        self.blocked = set(blocked_nodes)
        self.call_post = call_post or {}
        atoms: T.List[str] = []
        self.test_atom: T.Dict[int, T.Tuple[str, bool]] = {}
        for n in cfg.nodes:
            if n.kind == "test" and n.ast is not None and not isinstance(n.ast, ast.Constant):
                t, p = norm_atom(n.ast)
                self.test_atom[n.id] = (t, p)
                if t not in atoms and (only is None or only(t)):
                    atoms.append(t)
        # a flag variable `v = <boolean expression>` that is tested: its definition's leaves are tracked too, so that the
        # relation v == expression (see _post) connects the test of v with the tests the expression stands for
        self.derived_flags: T.Set[str] = set()
        changed = True
        while changed:
            changed = False
            for n in cfg.nodes:
                a_ = n.ast
                if n.kind != "stmt" or not isinstance(a_, (ast.Assign, ast.AnnAssign)) or getattr(a_, "value", None) is None:
                    continue
                tg_ = a_.targets[0] if isinstance(a_, ast.Assign) and len(a_.targets) == 1 else (a_.target if isinstance(a_, ast.AnnAssign) else None)
                if not (isinstance(tg_, ast.Name) and tg_.id in atoms) or not isinstance(a_.value, (ast.Compare, ast.BoolOp, ast.UnaryOp, ast.Call)):
                    continue
                if isinstance(a_.value, ast.Call):
                    # only a predicate of the same module (annotated `-> bool`) bound once to a flag: `is_future = _is_cal_gt(a, b)`
                    callee_ = cfg.fn.module.functions.get(a_.value.func.id) if isinstance(a_.value.func, ast.Name) else None
                    is_pred_ = callee_ is not None and getattr(callee_.node, "returns", None) is not None and ast.unparse(callee_.node.returns) == "bool"
                    if not is_pred_ or sum(1 for x_ in ast.walk(cfg.fn.node) if isinstance(x_, ast.Name) and isinstance(x_.ctx, ast.Store) and x_.id == tg_.id) != 1:
                        continue
                if isinstance(a_.value, ast.UnaryOp) and not isinstance(a_.value.op, ast.Not):
                    continue
                if isinstance(a_.value, ast.BoolOp) and not all(isinstance(v_, (ast.Compare, ast.BoolOp, ast.UnaryOp, ast.Name, ast.Attribute)) for v_ in a_.value.values):
                    continue          # `x or default`: a value, not a condition
                leaves_ = expr_atoms(a_.value)
                for leaf in leaves_:
                    if leaf not in atoms and (only is None or only(leaf)):
                        atoms.append(leaf)
                        changed = True
                if leaves_ and all(leaf in atoms for leaf in leaves_):
                    self.derived_flags.add(tg_.id)
        for a in extra_atoms:
            if a not in atoms:
                atoms.append(a)
        for f in self.call_post.values():
            for a in f.atoms:
                if a not in atoms:
                    atoms.append(a)
        if len(atoms) > max_atoms:
            raise AnalysisError(f"{cfg.fn.fq}: {len(atoms)} branch atoms exceed the bound {max_atoms}")
        self.atoms = tuple(sorted(atoms))
        self.n = len(self.atoms)
        self.full = (1 << (1 << self.n)) - 1
        self.masks = {a: BF._mask(self.n, j) for j, a in enumerate(self.atoms)}
        self.block = {a: 1 << j for j, a in enumerate(self.atoms)}
        self.atom_names = {a: {x.id for x in ast.walk(ast.parse(a, mode="eval")) if isinstance(x, ast.Name)}
                           for a in self.atoms}
        self.call_post_bits = {nid: f.expand(self.atoms).bits for nid, f in self.call_post.items()}
        self.reach_bits: T.Dict[int, int] = {}
        self._solve()

    # raw-int helpers over the fixed universe
    def _exists(self, f: int, a: str) -> int:
        m, b = self.masks[a], self.block[a]
        both = ((f & m) >> b) | (f & ~m)
        both &= ~m
        return both | (both << b)

    def _kill_names(self, f: int, names: T.Set[str]) -> int:
        if not names:
            return f
        for a in self.atoms:
            if self.atom_names[a] & names:
                f = self._exists(f, a)
        return f

    def expr_bits(self, expr: ast.AST) -> T.Optional[int]:
        """Truth table (over this universe) of a boolean expression whose leaves are tracked atoms or
        constants; None if some leaf is not tracked."""
        if isinstance(expr, ast.BoolOp):
            parts = [self.expr_bits(v) for v in expr.values]
            if any(p is None for p in parts):
                return None
            out = parts[0]
            for p in parts[1:]:
                out = (out & p) if isinstance(expr.op, ast.And) else (out | p)
            return out
        if isinstance(expr, ast.UnaryOp) and isinstance(expr.op, ast.Not):
            b = self.expr_bits(expr.operand)
            return None if b is None else (~b & self.full)
        if isinstance(expr, ast.Constant) and isinstance(expr.value, (bool, type(None))):
            return self.full if expr.value else 0
        if isinstance(expr, ast.IfExp):
            t, a, b = self.expr_bits(expr.test), self.expr_bits(expr.body), self.expr_bits(expr.orelse)
            if None in (t, a, b):
                return None
            return (t & a) | (~t & self.full & b)
        txt, pol = norm_atom(expr)
        if txt in self.masks:
            m = self.masks[txt]
            return m if pol else (~m & self.full)
        return None

    def expr_bf(self, expr: ast.AST) -> T.Optional[BF]:
        b = self.expr_bits(expr)
        return None if b is None else BF(self.atoms, b)

    def _post(self, nid: int, f: int) -> int:
        node = self.cfg.nodes[nid]
        a = node.ast
        if a is None or node.kind == "test":
            return f
        if nid in self.call_post_bits:
            f = f & self.call_post_bits[nid]
        if node.kind == "iter":
            names = assigned_names(ast.Assign(targets=[node.extra["target"]], value=ast.Constant(0)))
            return self._kill_names(f, names)
        names = assigned_names(a)
        # boolean assignment  v = <expression over tracked atoms>  keeps the relation v == expression
        rel = None
        if isinstance(a, (ast.Assign, ast.AnnAssign)) and getattr(a, "value", None) is not None:
            tg = a.targets[0] if isinstance(a, ast.Assign) and len(a.targets) == 1 else (a.target if isinstance(a, ast.AnnAssign) else None)
            if isinstance(tg, ast.Name) and tg.id in self.masks and not isinstance(a.value, ast.Constant) \
                    and tg.id not in {x.id for x in ast.walk(a.value) if isinstance(x, ast.Name)}:
                bits = self.expr_bits(a.value)
                if bits is not None:
                    rel = (tg.id, bits)
        f = self._kill_names(f, names)
        if rel is not None:
            m = self.masks[rel[0]]
            f = f & (~(m ^ rel[1]) & self.full)
        # constant assignment to a bare name: atoms `v` and `v is None` become known
        val = None
        tname = None
        if isinstance(a, ast.Assign) and len(a.targets) == 1 and isinstance(a.targets[0], ast.Name):
            tname, val = a.targets[0].id, a.value
        elif isinstance(a, ast.AnnAssign) and isinstance(a.target, ast.Name) and a.value is not None:
            tname, val = a.target.id, a.value
        if tname is not None and isinstance(val, ast.Constant):
            c = val.value
            for atom, truth in ((tname, bool(c)), (f"{tname} is None", c is None),
                                (f"{tname} is False", c is False), (f"{tname} is True", c is True)):
                if atom in self.masks:
                    m = self.masks[atom]
                    f = f & (m if truth else ~m & self.full)
        return f

    def _edge(self, src: int, label: T.Any, f: int) -> int:
        if isinstance(label, tuple) and label[0] in ("T", "F") and label[1] in self.test_atom:
            atom, pol = self.test_atom[label[1]]
            if atom in self.masks:
                want = (label[0] == "T") == pol
                m = self.masks[atom]
                return f & (m if want else ~m & self.full)
        return f

    def _solve(self) -> None:
        cfg = self.cfg
        reach = {n.id: 0 for n in cfg.nodes}
        reach[cfg.entry] = self.full
        work = [cfg.entry]
        while work:
            nid = work.pop()
            f_in = reach[nid]
            f_out = self._post(nid, f_in)
            if nid in self.blocked:
                continue
            for dst, label in cfg.succ[nid]:
                if label == ("exc",):
                    g = f_in            # the statement did not complete
                else:
                    g = self._edge(nid, label, f_out)
                new = reach[dst] | g
                if new != reach[dst]:
                    reach[dst] = new
                    work.append(dst)
        self.reach_bits = reach

    def reach(self, nid: int) -> BF:
        return BF(self.atoms, self.reach_bits[nid])

    def after(self, nid: int) -> BF:
        """Condition holding after normal completion of node nid."""
        return BF(self.atoms, self._post(nid, self.reach_bits[nid]))

    def edge_cond(self, src: int, dst: int, label: T.Any) -> BF:
        f_in = self.reach_bits[src]
        if label == ("exc",):
            return BF(self.atoms, f_in)
        return BF(self.atoms, self._edge(src, label, self._post(src, f_in)))


def expr_atoms(expr: ast.AST) -> T.List[str]:
    """Atom texts (normalised) of the leaves of a boolean expression."""
    if isinstance(expr, ast.BoolOp):
        out: T.List[str] = []
        for v in expr.values:
            out += expr_atoms(v)
        return out
    if isinstance(expr, ast.UnaryOp) and isinstance(expr.op, ast.Not):
        return expr_atoms(expr.operand)
    if isinstance(expr, ast.IfExp):
        return expr_atoms(expr.test) + expr_atoms(expr.body) + expr_atoms(expr.orelse)
    if isinstance(expr, ast.Constant):
        return []
    return [norm_atom(expr)[0]]


def ifexp_atoms(root: ast.AST) -> T.List[str]:
    """Atoms of the tests of all conditional expressions below root."""
    out: T.List[str] = []
    for n in ast.walk(root):
        if isinstance(n, ast.IfExp):
            for a in expr_atoms(n.test):
                if a not in out:
                    out.append(a)
    return out


def assign_facts(cfg: CFG, pc: "PathCond", targets: T.Iterable[str]) -> T.List[T.Tuple[str, ast.AST, BF, ast.AST]]:
    """(target, value expression, condition, statement) for every reachable assignment to one of the
    targets; conditional expressions are split into one fact per branch."""
    tg = set(targets)
    out: T.List[T.Tuple[str, ast.AST, BF, ast.AST]] = []
    live = cfg.reachable()

    def split(name: str, val: ast.AST, cond: BF, st: ast.AST) -> None:
        if isinstance(val, ast.IfExp):
            t = pc.expr_bf(val.test)
            if t is None:
                raise AnalysisError(f"{cfg.fn.fq}: condition `{unparse(val.test)}` is not over tracked atoms")
            split(name, val.body, cond & t, st)
            split(name, val.orelse, cond & ~t, st)
        else:
            out.append((name, val, cond, st))

    for n in cfg.nodes:
        if n.kind != "stmt" or n.id not in live:
            continue
        name = val = None
        if isinstance(n.ast, ast.Assign) and len(n.ast.targets) == 1 and isinstance(n.ast.targets[0], ast.Name):
            name, val = n.ast.targets[0].id, n.ast.value
        elif isinstance(n.ast, ast.AnnAssign) and isinstance(n.ast.target, ast.Name) and n.ast.value is not None:
            name, val = n.ast.target.id, n.ast.value
        if name in tg and val is not None:
            split(name, val, pc.reach(n.id), n.ast)
    return out


class Interproc:
    """Lifts a node's local path condition into the vocabulary of a root function."""

    def __init__(self, prog: Program, cfgs: CFGs, effects: Effects,
                 import_exit_of: T.Iterable[str] = ()):
        self.import_exit_of = set(import_exit_of)
        self._in_progress: T.Set[str] = set()
        self.prog = prog
        self.cfgs = cfgs
        self.effects = effects
        self._pc: T.Dict[str, PathCond] = {}
        self.callers: T.Dict[str, T.List[T.Tuple[FunctionInfo, ast.AST]]] = {}
        for fq, calls in effects.calls.items():
            for node, callee in calls + effects.opaque_calls[fq]:
                if isinstance(node, ast.Call) or isinstance(node, ast.Attribute):
                    self.callers.setdefault(callee.fq, []).append((prog.function(fq), node))

    def pc(self, fq: str) -> PathCond:
        if fq not in self._pc:
            call_post: T.Dict[int, BF] = {}
            if self.import_exit_of and fq not in self._in_progress:
                self._in_progress.add(fq)
                cfg = self.cfgs.get(fq)
                caller = self.prog.function(fq)
                counter: T.Dict[str, int] = {}
                sites = sorted(((getattr(n, "lineno", 0), getattr(n, "col_offset", 0), n, callee)
                                for n, callee in self.effects.calls[fq] + self.effects.opaque_calls[fq]
                                if isinstance(n, ast.Call) and callee.fq in self.import_exit_of),
                               key=lambda x: (x[0], x[1]))
                for _, _, node, callee in sites:
                    k = counter.get(callee.fq, 0)
                    counter[callee.fq] = k + 1
                    nid = cfg.node_containing(node)
                    if nid is None or cfg.nodes[nid].kind not in ("stmt",):
                        continue
                    cpc = self.pc(callee.fq)
                    cond = cpc.reach(self.cfgs.get(callee.fq).exit).drop_unused()
                    if cond.is_true():
                        continue
                    # callee locals are qualified per call site: the n-th call in this caller, and the caller's name when
                    # the callee is also called from elsewhere (otherwise two call sites would share one atom)
                    other_callers = {c_.fq for c_, _n in self.callers.get(callee.fq, [])} - {fq}
                    tag = (f"_{caller.name.lstrip('_')}" if other_callers else "") + (f"_{k}" if k else "")
                    lifted = self.rename_cond(cond, callee, caller, node, tag=tag)
                    call_post[nid] = call_post[nid] & lifted if nid in call_post else lifted
                self._in_progress.discard(fq)
            self._pc[fq] = PathCond(self.cfgs.get(fq), call_post=call_post, max_atoms=20)
        return self._pc[fq]

    def rename_cond(self, cond: BF, callee: FunctionInfo, caller: FunctionInfo, call: ast.AST, tag: str = "") -> BF:
        c2 = cond.drop_unused()
        mapping, consts = self._rename_map(callee, caller, call, c2.atoms, tag)
        for a, v in consts.items():
            c2 = c2.restrict(a, v).project([x for x in c2.atoms if x != a])
        neg = {a: m[5:-1] for a, m in mapping.items() if m.startswith("not (")}
        pos = {a: m for a, m in mapping.items() if a not in neg}
        for a, m in neg.items():
            va = BF.var(a)
            c2 = (c2.restrict(a, False) & va) | (c2.restrict(a, True) & ~va)
            pos[a] = m
        return c2.rename(pos)

    # ---- renaming callee atoms into the caller's vocabulary
    def _rename_map(self, callee: FunctionInfo, caller: FunctionInfo, call: ast.AST,
                    atoms: T.Sequence[str], tag: str = "") -> T.Tuple[T.Dict[str, str], T.Dict[str, bool]]:
        params = callee.all_params
        sub: T.Dict[str, T.Optional[ast.AST]] = {}
        if isinstance(call, ast.Call):
            t = self.prog.resolve_call(caller, call, self.cfgs.types(caller.fq), count=False)
            for p in params:
                if p == "self" and callee.cls is not None:
                    sub[p] = t.recv if t.recv is not None else (call.func.value if isinstance(call.func, ast.Attribute) else call.func)
                    continue
                arg = call_arg(call, callee, p)
                if arg is None and p in callee.defaults:
                    arg = callee.defaults[p]
                sub[p] = arg
        elif isinstance(call, ast.Attribute):      # property access
            sub["self"] = call.value
        locals_ = _local_names(callee)
        mapping: T.Dict[str, str] = {}
        consts: T.Dict[str, bool] = {}
        for a in atoms:
            tree = ast.parse(a, mode="eval")
            unknown = False

            class R(ast.NodeTransformer):
                def visit_Name(self, node: ast.Name) -> ast.AST:
                    nonlocal unknown
                    if node.id in sub:
                        if sub[node.id] is None:
                            unknown = True
                            return node
                        return sub[node.id]
                    if node.id in locals_:
                        return ast.Name(id=f"{callee.qualname.replace('.', '_')}{tag}{SEP}{node.id}", ctx=ast.Load())
                    return node

            new = R().visit(tree).body
            if unknown:
                mapping[a] = f"{callee.qualname.replace('.', '_')}{SEP}unbound{SEP}{abs(hash(a)) % 9973}"
                continue
            if isinstance(new, ast.Constant):
                consts[a] = bool(new.value)
                continue
            cc = _const_compare(new)
            if cc is not None:
                consts[a] = cc
                continue
            txt, pol = norm_atom(new)
            mapping[a] = txt if pol else f"not ({txt})"
        return mapping, consts

    def lift(self, fn: FunctionInfo, cond: BF, root: str, _stack: T.Tuple[str, ...] = ()) -> BF:
        """cond is over fn's vocabulary and holds inside one activation of fn; return the
        condition in root's vocabulary (OR over all call chains root -> fn)."""
        if fn.fq == root:
            return cond
        if fn.fq in _stack:
            return BF.false()
        reach_root = self.effects.reachable_functions([root])
        total = BF.false()
        for caller, call in self.callers.get(fn.fq, []):
            if caller.fq not in reach_root:
                continue
            cfg = self.cfgs.get(caller.fq)
            nid = cfg.node_containing(call)
            if nid is None:
                continue     # reference inside a nested function / default
            here = self._without_flags(caller.fq, self.pc(caller.fq).reach(nid))
            c2 = self.rename_cond(cond, fn, caller, call)
            total = total | self.lift(caller, here & c2, root, _stack + (fn.fq,))
        return total

    def site_condition(self, fn: FunctionInfo, node: ast.AST, root: str) -> BF:
        cfg = self.cfgs.get(fn.fq)
        nid = cfg.node_containing(node)
        if nid is None:
            raise AnalysisError(f"site not found in CFG of {fn.fq}: {unparse(node)[:60]}")
        return self.lift(fn, self._without_flags(fn.fq, self.pc(fn.fq).reach(nid)), root)

    def _without_flags(self, fq: str, cond: BF) -> BF:
        """Flag locals that merely name a boolean expression whose leaves are tracked (`do_push = cfg.commit and cfg.push`)
        are quantified away: the relation flag == expression is part of the condition, so nothing about the leaves is lost."""
        for a in sorted(self.pc(fq).derived_flags):
            if a in cond.atoms:
                cond = cond.exists(a)
        return cond


def _local_names(fn: FunctionInfo) -> T.Set[str]:
    out: T.Set[str] = set()
    for n in walk_no_nested(fn.node):
        if isinstance(n, ast.Name) and isinstance(n.ctx, (ast.Store, ast.Del)):
            out.add(n.id)
        elif isinstance(n, ast.ExceptHandler) and n.name:
            out.add(n.name)
    return out - set(fn.all_params)


def _const_compare(node: ast.AST) -> T.Optional[bool]:
    """Evaluate `Const is None`, `Const is False`, `Const == Const` after parameter substitution."""
    if isinstance(node, ast.Compare) and len(node.ops) == 1 and isinstance(node.left, ast.Constant) \
            and isinstance(node.comparators[0], ast.Constant):
        l, r = node.left.value, node.comparators[0].value
        op = node.ops[0]
        if isinstance(op, ast.Is):
            return l is r
        if isinstance(op, ast.IsNot):
            return l is not r
        if isinstance(op, ast.Eq):
            return l == r
        if isinstance(op, ast.NotEq):
            return l != r
    return None
