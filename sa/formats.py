"""E4 - formatter abstraction: map a formatter function / format-spec to a descriptor,
and a (descriptor, value domain) pair to a regular language (its image)."""
from __future__ import annotations

import ast
import string
import typing as T

from . import relang as rl
from .model import AnalysisError, FunctionInfo, Program, const_str, unparse

# ----------------------------------------------------------------------------- domains
# A domain is ('ints', lo, hi) | ('nat', lo) | ('digits', min_len, nonzero) | ('strings', [..]) | ('lang', R)
Domain = T.Tuple[T.Any, ...]

STRFTIME_RANGES = {        # C / POSIX
    "%j": (1, 366), "%W": (0, 53), "%U": (0, 53), "%V": (1, 53),
    "%m": (1, 12), "%d": (1, 31), "%Y": None, "%G": None,
}


class Desc:
    """str-conversion descriptor: optional last-two-characters cut, optional int canonicalisation, zero padding."""

    def __init__(self, last2: bool = False, canon: bool = False, pad: int = 0):
        self.last2, self.canon, self.pad = last2, canon, pad

    def __repr__(self) -> str:
        bits = []
        if self.last2:
            bits.append("LAST2")
        bits.append("CANON" if self.canon else "ID")
        if self.pad:
            bits.append(f"PAD{self.pad}")
        return "·".join(bits)

    def apply_int(self, v: int) -> str:
        s = str(v)
        if self.last2:
            s = s[-2:]
            if self.canon:
                s = str(int(s))
        elif self.canon:
            s = str(int(s))
        return s.zfill(self.pad) if self.pad else s


def _strip_int(e: ast.AST) -> T.Tuple[ast.AST, bool]:
    """int(X) / int(X, 10) / int(X, base=10) -> (X, True)."""
    if isinstance(e, ast.Call) and unparse(e.func) == "int" and e.args:
        return e.args[0], True
    return e, False


def _last2(e: ast.AST, param: str) -> T.Optional[bool]:
    """str(param)[-2:] -> True ; param / str(param) -> False ; else None."""
    if isinstance(e, ast.Subscript) and isinstance(e.slice, ast.Slice) and e.slice.upper is None and e.slice.step is None \
            and isinstance(e.slice.lower, ast.UnaryOp) and isinstance(e.slice.lower.op, ast.USub) \
            and isinstance(e.slice.lower.operand, ast.Constant) and e.slice.lower.operand.value == 2:
        inner = e.value
        if isinstance(inner, ast.Call) and unparse(inner.func) == "str" and len(inner.args) == 1 and unparse(inner.args[0]) == param:
            return True
        return None
    if isinstance(e, ast.Name) and e.id == param:
        return False
    if isinstance(e, ast.Call) and unparse(e.func) == "str" and len(e.args) == 1 and unparse(e.args[0]) == param:
        return False
    return None


def _pad_of_spec(spec: str) -> T.Optional[int]:
    if spec in ("", "d"):
        return 0
    s = spec[:-1] if spec.endswith("d") else spec
    if len(s) >= 2 and s[0] == "0" and s[1:].isdigit():
        return int(s[1:])
    return None


def _formatter_expr(fn: FunctionInfo, depth: int = 3) -> ast.AST:
    """The returned expression of a one-argument formatter in terms of its parameter: single-assignment locals are
    substituted, a call of another one-argument formatter of the module (`_fmt_num(int(val))`) is unfolded."""
    import copy
    body = [st for st in fn.node.body if not (isinstance(st, ast.Expr) and isinstance(st.value, ast.Constant))]
    if not body or not isinstance(body[-1], ast.Return) or body[-1].value is None or len(fn.params) != 1:
        raise AnalysisError(f"formatter {fn.fq}: body is not a single return of one parameter")
    defs: T.Dict[str, ast.AST] = {}

    def subst(expr: ast.AST, table: T.Dict[str, ast.AST]) -> ast.AST:
        class Sub(ast.NodeTransformer):
            def visit_Name(self, node: ast.Name) -> ast.AST:
                return copy.deepcopy(table[node.id]) if isinstance(node.ctx, ast.Load) and node.id in table else node
        return Sub().visit(copy.deepcopy(expr))
    for st in body[:-1]:
        tgt = st.targets[0] if isinstance(st, ast.Assign) and len(st.targets) == 1 else (st.target if isinstance(st, ast.AnnAssign) and st.value is not None else None)
        if not isinstance(tgt, ast.Name) or tgt.id in defs or tgt.id == fn.params[0]:
            raise AnalysisError(f"formatter {fn.fq}: body is not a single return of one parameter")
        defs[tgt.id] = subst(st.value, defs)
    e = subst(body[-1].value, defs)
    if isinstance(e, ast.Call) and isinstance(e.func, ast.Name) and e.func.id in fn.module.functions and len(e.args) == 1 and not e.keywords and depth > 0:
        callee = fn.module.functions[e.func.id]
        if len(callee.params) == 1 and callee is not fn:
            e = subst(_formatter_expr(callee, depth - 1), {callee.params[0]: e.args[0]})
            # int(int(x)) is int(x)
            for n in ast.walk(e):
                if isinstance(n, ast.Call) and unparse(n.func) == "int" and len(n.args) == 1 and isinstance(n.args[0], ast.Call) and unparse(n.args[0].func) == "int" and len(n.args[0].args) == 1:
                    n.args = n.args[0].args
    return e


def describe_formatter(fn: FunctionInfo) -> Desc:
    """Recognise the body of a one-argument formatter function."""
    p = fn.params[0] if len(fn.params) == 1 else ""
    e = _formatter_expr(fn)
    # str(X)
    if isinstance(e, ast.Call) and unparse(e.func) == "str" and len(e.args) == 1:
        inner, canon = _strip_int(e.args[0])
        l2 = _last2(inner, p)
        if l2 is None:
            raise AnalysisError(f"formatter {fn.fq}: shape not enumerated: {unparse(e)}")
        return Desc(last2=l2, canon=canon, pad=0)          # without int(...) the last two digits keep a leading zero ("05")
    # f"{X:0N}"
    if isinstance(e, ast.JoinedStr) and len(e.values) == 1 and isinstance(e.values[0], ast.FormattedValue):
        fv = e.values[0]
        spec = ""
        if fv.format_spec is not None:
            if not (isinstance(fv.format_spec, ast.JoinedStr) and all(isinstance(v, ast.Constant) for v in fv.format_spec.values)):
                raise AnalysisError(f"formatter {fn.fq}: dynamic format spec")
            spec = "".join(v.value for v in fv.format_spec.values)
        pad = _pad_of_spec(spec)
        inner, canon = _strip_int(fv.value)
        l2 = _last2(inner, p)
        if pad is None or l2 is None or not canon:
            raise AnalysisError(f"formatter {fn.fq}: shape not enumerated: {unparse(e)}")
        return Desc(last2=l2, canon=True, pad=pad)
    # "%0Nd" % int(X)
    if isinstance(e, ast.BinOp) and isinstance(e.op, ast.Mod) and const_str(e.left):
        f = const_str(e.left)
        if f.startswith("%") and f.endswith("d"):
            pad = _pad_of_spec(f[1:])
            inner, canon = _strip_int(e.right)
            l2 = _last2(inner, p)
            if pad is not None and l2 is not None and canon:
                return Desc(last2=l2, canon=True, pad=pad)
    # str(X).zfill(N) / "{:0N}".format(int(X))
    if isinstance(e, ast.Call) and isinstance(e.func, ast.Attribute) and e.func.attr == "zfill" and len(e.args) == 1 and isinstance(e.args[0], ast.Constant):
        base = e.func.value
        if isinstance(base, ast.Call) and unparse(base.func) == "str" and len(base.args) == 1:
            inner, canon = _strip_int(base.args[0])
            l2 = _last2(inner, p)
            if l2 is not None:
                return Desc(last2=l2, canon=canon or l2, pad=int(e.args[0].value))
    if isinstance(e, ast.Call) and isinstance(e.func, ast.Attribute) and e.func.attr == "format" and const_str(e.func.value) and len(e.args) == 1:
        f = const_str(e.func.value)
        if f.startswith("{:") and f.endswith("}"):
            pad = _pad_of_spec(f[2:-1])
            inner, canon = _strip_int(e.args[0])
            l2 = _last2(inner, p)
            if pad is not None and l2 is not None and canon:
                return Desc(last2=l2, canon=True, pad=pad)
    raise AnalysisError(f"formatter {fn.fq}: shape not enumerated: {unparse(e)}")


# ----------------------------------------------------------------------------- images
def image(desc: Desc, dom: Domain) -> rl.R:
    kind = dom[0]
    if kind == "ints":
        lo, hi = dom[1], dom[2]
        return rl.alt_of_strings(sorted({desc.apply_int(v) for v in range(lo, hi + 1)}))
    if kind == "nat":
        lo = dom[1]
        if desc.last2:
            return rl.alt_of_strings(sorted({desc.apply_int(v) for v in range(0, 100)}))
        # canonical decimal numerals >= lo, zero padded to desc.pad
        n = max(desc.pad, 1)
        if lo > 10 ** n:
            raise AnalysisError("nat domain with a large lower bound not modelled")
        big = rl.Cat([rl.Cls("123456789"), rl.Rep(rl.Cls(rl.DIGITS), n, None)])
        if lo == 0:
            # every string of exactly n digits (numerals < 10**n, zero padded; n == 1: the digits themselves)
            return rl.Alt([rl.Rep(rl.Cls(rl.DIGITS), n, n), big])
        if n <= 3:
            small = [str(v).zfill(desc.pad) if desc.pad else str(v) for v in range(lo, 10 ** n)]
            return rl.Alt([rl.alt_of_strings(small), big])
        raise AnalysisError("padded nat domain with a positive lower bound and width > 3 not modelled")
    if kind == "digits":
        min_len, nonzero = dom[1], dom[2]
        if desc.last2:
            raise AnalysisError("LAST2 on a digit-string domain not modelled")
        if not desc.canon:
            base = rl.Rep(rl.Cls(rl.DIGITS), max(min_len, 1), None)
            if desc.pad:
                return rl.Alt([base, rl.Rep(rl.Cls(rl.DIGITS), desc.pad, desc.pad)])
            return base
        # int() of a digit string: canonical numeral
        return image(Desc(canon=True, pad=desc.pad), ("nat", 1 if nonzero else 0))
    if kind == "strings":
        if desc.canon or desc.last2 or desc.pad:
            raise AnalysisError("numeric formatter applied to a string-valued field")
        return rl.alt_of_strings(dom[1])
    if kind == "lang":
        if desc.canon or desc.last2 or desc.pad:
            raise AnalysisError("numeric formatter applied to a language-valued field")
        return dom[1]
    raise AnalysisError(f"unknown domain {dom}")


def domain_samples(desc: Desc, dom: Domain, limit: int = 400) -> T.List[str]:
    strings, _complete = rl.enumerate_language(image(desc, dom), max_len=6, limit=limit * 4)
    return strings[:limit]


# ----------------------------------------------------------------------------- calendar domains from the source
def calendar_domains(prog: Program, fq: str, year_range: T.Tuple[int, int]) -> T.Dict[str, T.Tuple[Domain, str]]:
    """Read the `kwargs = {...}` dict of a cal_info function: field -> (domain, provenance)."""
    fn = prog.function(fq)
    table = field_table(fn)
    if table is None:
        raise AnalysisError(f"{fq}: expected one field dict")
    date_param = date_name(fn)
    out: T.Dict[str, T.Tuple[Domain, str]] = {}
    for k, v in table.items():
        out[k] = _cal_expr_domain(prog, fn, v, date_param, year_range)
    return out


def date_name(fn: FunctionInfo) -> str:
    """The name that holds "the given date, or today" in a cal_info function: the date parameter itself (re-bound under
    `if date is None:`), or a local whose only definition chooses between the parameter and another value on `date is None`."""
    p = fn.params[0] if fn.params else "date"
    for n in ast.walk(fn.node):
        tgt = n.targets[0] if isinstance(n, ast.Assign) and len(n.targets) == 1 else (n.target if isinstance(n, ast.AnnAssign) and n.value is not None else None)
        if isinstance(tgt, ast.Name) and tgt.id != p and isinstance(n.value, ast.IfExp):
            t, v = unparse(n.value.test), n.value
            if (t == f"{p} is None" and unparse(v.orelse) == p) or (t == f"{p} is not None" and unparse(v.body) == p):
                stores = [x for x in ast.walk(fn.node) if isinstance(x, ast.Name) and x.id == tgt.id and isinstance(x.ctx, ast.Store)]
                if len(stores) == 1:
                    return tgt.id
    return p


def field_table(fn: FunctionInfo) -> T.Optional[T.Dict[str, ast.AST]]:
    """field -> value expression of a cal_info function: its one dict display with constant keys, or the keyword
    arguments of its one `...CalendarInfo(...)` constructor call."""
    dicts = [n for n in ast.walk(fn.node) if isinstance(n, ast.Dict) and n.keys and all(isinstance(k, ast.Constant) for k in n.keys)]
    if len(dicts) == 1:
        return {k.value: v for k, v in zip(dicts[0].keys, dicts[0].values)}
    ctors = [n for n in ast.walk(fn.node) if isinstance(n, ast.Call) and unparse(n.func).endswith("CalendarInfo") and n.keywords and all(k.arg for k in n.keywords) and not n.args]
    if not dicts and len(ctors) == 1:
        return {k.arg: k.value for k in ctors[0].keywords}
    return None


def _cal_expr_domain(prog: Program, fn: FunctionInfo, v: ast.AST, date: str, yr: T.Tuple[int, int]) -> T.Tuple[Domain, str]:
    txt = unparse(v)
    if txt == f"{date}.year":
        return ("ints", yr[0], yr[1]), "date.year"
    if txt == f"{date}.month":
        return ("ints", 1, 12), "date.month"
    if txt == f"{date}.day":
        return ("ints", 1, 31), "date.day"
    inner, is_int = _strip_int(v)
    if is_int and isinstance(inner, ast.Call) and isinstance(inner.func, ast.Attribute) and inner.func.attr == "strftime" \
            and unparse(inner.func.value) == date and inner.args and const_str(inner.args[0]):
        d = const_str(inner.args[0])
        if d in ("%Y", "%G"):
            return ("ints", yr[0], yr[1]), f"strftime({d})"
        if d in STRFTIME_RANGES and STRFTIME_RANGES[d] is not None:
            lo, hi = STRFTIME_RANGES[d]
            return ("ints", lo, hi), f"strftime({d})"
        raise AnalysisError(f"{fn.fq}: strftime directive {d} has no range entry")
    if isinstance(v, ast.Call):
        t = prog.resolve_call(fn, v, count=False)
        if t.fn is not None and t.fn.fq == "version.quarter_from_month" and unparse(v.args[0]) == f"{date}.month":
            # fold  ((m - 1) // 3) + 1  over m in 1..12
            q = t.fn
            vals = sorted({_fold_fn(q, m) for m in range(1, 13)})
            return ("ints", vals[0], vals[-1]), "quarter_from_month(date.month)"
    tab = month_table(prog, fn, v, date)
    if tab is not None:
        return ("ints", min(tab), max(tab)), f"arithmetic on date.month: {sorted(set(tab))}"
    raise AnalysisError(f"{fn.fq}: calendar field expression not enumerated: {txt}")


def month_table(prog: Program, fn: FunctionInfo, e: ast.AST, date: str) -> T.Optional[T.List[int]]:
    """Value of an arithmetic expression over `<date>.month` (possibly through a one-parameter arithmetic helper such
    as quarter_from_month) for month = 1..12; None if the expression is something else."""
    import copy
    MONTH = "__month__"

    class Sub(ast.NodeTransformer):
        def visit_Attribute(self, node: ast.Attribute) -> ast.AST:
            if unparse(node) == f"{date}.month":
                return ast.Name(id=MONTH, ctx=ast.Load())
            return self.generic_visit(node)
    e2 = Sub().visit(copy.deepcopy(e))
    if MONTH not in {n.id for n in ast.walk(e2) if isinstance(n, ast.Name)}:
        return None

    def ev(x: ast.AST, env: T.Dict[str, int]) -> int:
        if isinstance(x, ast.Call) and len(x.args) == 1 and not x.keywords:
            if unparse(x.func) == "int":
                return ev(x.args[0], env)
            t = prog.resolve_call(fn, x, count=False)
            if t.fn is not None and len(t.fn.params) == 1:
                return _fold_fn(t.fn, ev(x.args[0], env))
            raise AnalysisError("call")
        if isinstance(x, ast.BinOp):
            import operator
            ops = {ast.Add: operator.add, ast.Sub: operator.sub, ast.Mult: operator.mul, ast.FloorDiv: operator.floordiv, ast.Mod: operator.mod}
            if type(x.op) not in ops:
                raise AnalysisError("op")
            return ops[type(x.op)](ev(x.left, env), ev(x.right, env))
        return _fold_arith(x, env)
    try:
        return [ev(e2, {MONTH: m}) for m in range(1, 13)]
    except (AnalysisError, ZeroDivisionError, TypeError):
        return None


def _fold_fn(q: FunctionInfo, arg: int) -> int:
    """Fold a one-parameter arithmetic function: optional local assignments, then `return <expr>`."""
    env = {q.params[0]: arg}
    body = [st for st in q.node.body if not (isinstance(st, ast.Expr) and isinstance(st.value, ast.Constant))]
    for st in body:
        if isinstance(st, (ast.Assign, ast.AnnAssign)) and st.value is not None:
            tgt = st.targets[0] if isinstance(st, ast.Assign) else st.target
            if isinstance(tgt, ast.Name):
                env[tgt.id] = _fold_arith(st.value, env)
                continue
        if isinstance(st, ast.Return) and st.value is not None:
            return _fold_arith(st.value, env)
        raise AnalysisError(f"{q.fq}: statement not foldable: {unparse(st)[:50]}")
    raise AnalysisError(f"{q.fq}: no return")


def _fold_arith(e: ast.AST, env: T.Dict[str, int]) -> int:
    if isinstance(e, ast.Constant) and isinstance(e.value, int):
        return e.value
    if isinstance(e, ast.Name) and e.id in env:
        return env[e.id]
    if isinstance(e, ast.BinOp):
        l, r = _fold_arith(e.left, env), _fold_arith(e.right, env)
        if isinstance(e.op, ast.Add):
            return l + r
        if isinstance(e.op, ast.Sub):
            return l - r
        if isinstance(e.op, ast.FloorDiv):
            return l // r
        if isinstance(e.op, ast.Mult):
            return l * r
        if isinstance(e.op, ast.Mod):
            return l % r
    raise AnalysisError(f"arithmetic not foldable: {unparse(e)}")


# ----------------------------------------------------------------------------- str.format templates
def parse_format(tmpl: str) -> T.List[T.Tuple[str, T.Optional[str], str]]:
    """[(literal, field or None, spec)]"""
    out = []
    for lit, field, spec, conv in string.Formatter().parse(tmpl):
        if conv:
            raise AnalysisError(f"format conversion !{conv} not modelled in {tmpl!r}")
        out.append((lit or "", field, spec or ""))
    return out
