"""Exception-escape analysis: which exception classes can propagate out of a function.

Sources: explicit `raise`, escapes of resolved callees, and a small table of stdlib
raisers relevant to this code base (datetime.date with non-constant month/day, ...).
Sinks: enclosing `try` bodies whose handlers catch the class (or an ancestor)."""
from __future__ import annotations

import ast
import typing as T

from .cfg import exc_ancestors, exc_tail, handler_can_catch
from .model import FunctionInfo, Program, unparse

Chain = T.List[str]


def default_raisers(prog: Program, fn: FunctionInfo, call: ast.Call, name: str) -> T.Dict[str, str]:
    """stdlib calls that raise on data-dependent grounds."""
    if name in ("datetime.date", "datetime.datetime"):
        args = list(call.args) + [kw.value for kw in call.keywords]
        if len(args) >= 3 and not all(isinstance(a, ast.Constant) for a in args[1:3]):
            return {"ValueError": f"{name}(y, m, d) with non-constant month/day"}
    if name in ("datetime.datetime.strptime",):
        return {"ValueError": "strptime on a non-constant string"}
    return {}


class Escapes:
    def __init__(self, prog: Program, raisers: T.Callable[..., T.Dict[str, str]] = default_raisers,
                 include_asserts: bool = False):
        self.prog = prog
        self.raisers = raisers
        self._memo: T.Dict[str, T.Dict[str, Chain]] = {}
        self._active: T.Set[str] = set()

    def escapes(self, fq: str) -> T.Dict[str, Chain]:
        if fq in self._memo:
            return self._memo[fq]
        if fq in self._active:
            return {}
        self._active.add(fq)
        fn = self.prog.function(fq)
        types = self.prog.local_types(fn)
        out: T.Dict[str, Chain] = {}
        self._walk(fn, fn.node.body, [], out, types)
        self._active.discard(fq)
        self._memo[fq] = out
        return out

    def _caught(self, exc: str, tries: T.List[T.List[T.Optional[T.List[str]]]]) -> bool:
        for handlers in tries:
            for h_types in handlers:
                if handler_can_catch(h_types, exc):
                    return True
        return False

    def _emit(self, out: T.Dict[str, Chain], exc: str, chain: Chain, tries: T.List[T.Any]) -> None:
        exc = exc_tail(exc)
        if self._caught(exc, tries):
            return
        out.setdefault(exc, chain)

    def _walk(self, fn: FunctionInfo, stmts: T.List[ast.stmt], tries: T.List[T.Any], out: T.Dict[str, Chain],
              types: T.Any, handler_types: T.Optional[T.List[str]] = None) -> None:
        for st in stmts:
            if isinstance(st, (ast.FunctionDef, ast.AsyncFunctionDef, ast.ClassDef)):
                continue
            if isinstance(st, ast.Try):
                hs = []
                for h in st.handlers:
                    if h.type is None:
                        hs.append(None)
                    elif isinstance(h.type, ast.Tuple):
                        hs.append([unparse(e) for e in h.type.elts])
                    else:
                        hs.append([unparse(h.type)])
                self._walk(fn, st.body, tries + [hs], out, types, handler_types)
                for h, ht in zip(st.handlers, hs):
                    self._walk(fn, h.body, tries, out, types, ht if ht is not None else ["BaseException"])
                self._walk(fn, st.orelse, tries, out, types, handler_types)
                self._walk(fn, st.finalbody, tries, out, types, handler_types)
                continue
            if isinstance(st, ast.Raise):
                if st.exc is None:
                    for t in handler_types or ["Exception"]:
                        self._emit(out, t, [f"{fn.fq}:{st.lineno} re-raise"], tries)
                else:
                    e = st.exc.func if isinstance(st.exc, ast.Call) else st.exc
                    self._emit(out, unparse(e), [f"{fn.fq}:{st.lineno} raise {unparse(e)}"], tries)
            # expressions of this statement (not nested statement bodies)
            for expr in _own_exprs(st):
                for sub in ast.walk(expr):
                    if isinstance(sub, ast.Call):
                        t = self.prog.resolve_call(fn, sub, types, count=False)
                        if t.kind in ("func", "class") and t.fn is not None:
                            for exc, chain in self.escapes(t.fn.fq).items():
                                self._emit(out, exc, [f"{fn.fq}:{sub.lineno}"] + chain, tries)
                        elif t.kind in ("ext", "builtin"):
                            for exc, why in self.raisers(self.prog, fn, sub, t.name).items():
                                self._emit(out, exc, [f"{fn.fq}:{sub.lineno} {why}"], tries)
                    elif isinstance(sub, ast.Attribute):
                        # property access
                        t = self.prog.resolve_name(fn.module, sub, fn, types)
                        if t.kind == "func" and t.fn is not None and "property" in t.fn.decorators:
                            for exc, chain in self.escapes(t.fn.fq).items():
                                self._emit(out, exc, [f"{fn.fq}:{sub.lineno}"] + chain, tries)
            # nested bodies
            for field in ("body", "orelse"):
                sub_body = getattr(st, field, None)
                if isinstance(sub_body, list) and sub_body and isinstance(sub_body[0], ast.stmt):
                    self._walk(fn, sub_body, tries, out, types, handler_types)


def _own_exprs(st: ast.stmt) -> T.List[ast.AST]:
    out: T.List[ast.AST] = []
    for field, value in ast.iter_fields(st):
        if field in ("body", "orelse", "finalbody", "handlers"):
            continue
        if isinstance(value, ast.AST):
            out.append(value)
        elif isinstance(value, list):
            out.extend(v for v in value if isinstance(v, ast.AST))
    return out
