"""E0b - normalisation of the function decomposition.

The rules of the checks were confirmed by hand on the function decomposition of the pinned tree.  A later change may
move part of a function into a *new* module-local helper (extract-function), which is invisible to the behaviour but
hides statements from a rule anchored on the original function.  This pass undoes exactly that: every function that is
not in the frozen list of the pinned tree's functions (`baseline_functions.json`) and that is simple enough is expanded
at its module-local call sites, before the program model is built.  On the pinned tree the pass is the identity.

The expansion is a source-to-source rewriting on the `ast`:
  * a helper whose body is one `return <expr>` is substituted as an expression (anywhere, also in tests),
  * any other helper is expanded as statements in front of / in place of the statement that calls it; early returns
    of guard-clause form become if/else nesting, other early returns become a jump out of an *inline block*
    (`with __inline__:` carrying `_inline_block`, left by `break` nodes carrying `_inline_exit`; sa.cfg knows both),
  * parameters bound to plain names / constants / attribute chains are substituted, others are assigned first,
  * locals of the helper that clash with names of the caller are renamed.
A call that cannot be expanded safely (conditional evaluation, generator, recursion, *args, decorators) is left alone.
"""
from __future__ import annotations

import ast
import copy
import json
import os
import typing as T

LAST_RUN: T.Dict[str, T.Any] = {"renames_undone": [], "dropped": []}
_BASELINE: T.Optional[T.Dict[str, T.Dict[str, str]]] = None


def local_names(fd: ast.AST) -> T.List[str]:
    """Parameters, then the locals in the order the alpha-normalisation of body_hash numbers them."""
    body = list(fd.body)            # type: ignore[attr-defined]
    if body and isinstance(body[0], ast.Expr) and isinstance(body[0].value, ast.Constant) and isinstance(body[0].value.value, str):
        body = body[1:]
    out: T.List[str] = []
    args = fd.args                  # type: ignore[attr-defined]
    for a in args.posonlyargs + args.args + args.kwonlyargs:
        if a.arg not in out:
            out.append(a.arg)
    for b in body:
        for n in ast.walk(b):
            if isinstance(n, ast.Name) and isinstance(n.ctx, (ast.Store, ast.Del)) and n.id not in out:
                out.append(n.id)
    return out


def body_hash(fd: ast.AST) -> str:
    """Hash of a function body up to the names of its parameters and locals (and its docstring)."""
    import hashlib
    body = list(fd.body)            # type: ignore[attr-defined]
    if body and isinstance(body[0], ast.Expr) and isinstance(body[0].value, ast.Constant) and isinstance(body[0].value.value, str):
        body = body[1:]
    local: T.Dict[str, str] = {}
    args = fd.args                  # type: ignore[attr-defined]
    for a in args.posonlyargs + args.args + args.kwonlyargs:
        local.setdefault(a.arg, f"p{len(local)}")
    for b in body:
        for n in ast.walk(b):
            if isinstance(n, ast.Name) and isinstance(n.ctx, (ast.Store, ast.Del)):
                local.setdefault(n.id, f"v{len(local)}")
    body = copy.deepcopy(body)
    for b in body:
        for n in ast.walk(b):
            if isinstance(n, ast.Name) and n.id in local:
                n.id = local[n.id]
            elif isinstance(n, ast.keyword) and False:
                pass
    return hashlib.sha256("\n".join(ast.dump(b) for b in body).encode()).hexdigest()[:16]


def baseline() -> T.Dict[str, T.Dict[str, str]]:
    global _BASELINE
    if _BASELINE is None:
        with open(os.path.join(os.path.dirname(os.path.abspath(__file__)), "baseline_functions.json")) as fobj:
            _BASELINE = json.load(fobj)
    return _BASELINE


_BASELINE_SIGS: T.Optional[T.Dict[str, T.Dict[str, T.List[str]]]] = None


def baseline_signatures() -> T.Dict[str, T.Dict[str, T.List[str]]]:
    """Parameter names of the pinned tree's functions (sa/baseline_signatures.json, written by tools/make_baseline.py)."""
    global _BASELINE_SIGS
    if _BASELINE_SIGS is None:
        with open(os.path.join(os.path.dirname(os.path.abspath(__file__)), "baseline_signatures.json")) as fobj:
            _BASELINE_SIGS = json.load(fobj)
    return _BASELINE_SIGS


_BASELINE_CALLERS: T.Optional[T.Dict[str, T.Dict[str, T.List[str]]]] = None


def baseline_callers() -> T.Dict[str, T.Dict[str, T.List[str]]]:
    """Same-module callers (by plain name) of the pinned tree's functions (sa/baseline_callers.json)."""
    global _BASELINE_CALLERS
    if _BASELINE_CALLERS is None:
        with open(os.path.join(os.path.dirname(os.path.abspath(__file__)), "baseline_callers.json")) as fobj:
            _BASELINE_CALLERS = json.load(fobj)
    return _BASELINE_CALLERS


_BASELINE_ALIAS: T.Optional[T.Dict[str, T.List[str]]] = None


def baseline_ref_alias() -> T.Dict[str, T.List[str]]:
    """Functions of the pinned tree that bind a local to one of several references (sa/baseline_ref_alias.json)."""
    global _BASELINE_ALIAS
    if _BASELINE_ALIAS is None:
        with open(os.path.join(os.path.dirname(os.path.abspath(__file__)), "baseline_ref_alias.json")) as fobj:
            _BASELINE_ALIAS = json.load(fobj)
    return _BASELINE_ALIAS


_BASELINE_CONST_VALUES: T.Optional[T.Dict[str, T.Dict[str, str]]] = None


def baseline_const_values() -> T.Dict[str, T.Dict[str, str]]:
    """Source text of the value of each module-level name of the pinned tree (sa/baseline_const_values.json)."""
    global _BASELINE_CONST_VALUES
    if _BASELINE_CONST_VALUES is None:
        with open(os.path.join(os.path.dirname(os.path.abspath(__file__)), "baseline_const_values.json")) as fobj:
            _BASELINE_CONST_VALUES = json.load(fobj)
    return _BASELINE_CONST_VALUES


_BASELINE_CONSTS: T.Optional[T.Dict[str, T.List[str]]] = None


def baseline_consts() -> T.Dict[str, T.List[str]]:
    """Module-level names assigned on the pinned tree (sa/baseline_consts.json)."""
    global _BASELINE_CONSTS
    if _BASELINE_CONSTS is None:
        with open(os.path.join(os.path.dirname(os.path.abspath(__file__)), "baseline_consts.json")) as fobj:
            _BASELINE_CONSTS = json.load(fobj)
    return _BASELINE_CONSTS


_BASELINE_NAMES: T.Optional[T.Dict[str, T.Dict[str, T.List[str]]]] = None


def baseline_names() -> T.Dict[str, T.Dict[str, T.List[str]]]:
    """Parameter and local names of the pinned tree's functions in numbering order (sa/baseline_names.json)."""
    global _BASELINE_NAMES
    if _BASELINE_NAMES is None:
        with open(os.path.join(os.path.dirname(os.path.abspath(__file__)), "baseline_names.json")) as fobj:
            _BASELINE_NAMES = json.load(fobj)
    return _BASELINE_NAMES


# --------------------------------------------------------------------------------------------- helpers
def _stored_names(node: ast.AST) -> T.Set[str]:
    out: T.Set[str] = set()
    for n in ast.walk(node):
        if isinstance(n, ast.Name) and isinstance(n.ctx, (ast.Store, ast.Del)):
            out.add(n.id)
        elif isinstance(n, ast.ExceptHandler) and n.name:
            out.add(n.name)
        elif isinstance(n, ast.arg):
            out.add(n.arg)
    return out


def _all_names(node: ast.AST) -> T.Set[str]:
    return {n.id for n in ast.walk(node) if isinstance(n, ast.Name)} | {n.arg for n in ast.walk(node) if isinstance(n, ast.arg)}


def _body_without_doc(fd: ast.FunctionDef) -> T.List[ast.stmt]:
    body = list(fd.body)
    if body and isinstance(body[0], ast.Expr) and isinstance(body[0].value, ast.Constant) and isinstance(body[0].value.value, str):
        body = body[1:]
    return [st for st in body if not (isinstance(st, ast.AnnAssign) and st.value is None)]   # bare annotations


def _is_pure_arg(e: ast.AST) -> bool:
    if isinstance(e, (ast.Name, ast.Constant)):
        return True
    if isinstance(e, ast.Attribute):
        return _is_pure_arg(e.value)
    return False


def _inlinable(fd: ast.FunctionDef) -> bool:
    if fd.decorator_list or fd.args.vararg or fd.args.kwarg or fd.args.posonlyargs:
        return False
    for n in ast.walk(fd):
        if isinstance(n, (ast.Yield, ast.YieldFrom, ast.Await, ast.Global, ast.Nonlocal, ast.AsyncFunctionDef)):
            return False
        if isinstance(n, (ast.FunctionDef, ast.ClassDef)) and n is not fd:
            return False
        if isinstance(n, ast.Call) and isinstance(n.func, ast.Name) and n.func.id in ("locals", "vars", "globals", "super"):
            return False
    return True


def _calls_name(fd: ast.FunctionDef, name: str, method: bool) -> bool:
    for n in ast.walk(fd):
        if isinstance(n, ast.Call):
            if not method and isinstance(n.func, ast.Name) and n.func.id == name:
                return True
            if method and isinstance(n.func, ast.Attribute) and n.func.attr == name and isinstance(n.func.value, ast.Name) and n.func.value.id == "self":
                return True
    return False


class _Subst(ast.NodeTransformer):
    def __init__(self, exprs: T.Dict[str, ast.AST], renames: T.Dict[str, str]):
        self.exprs = exprs
        self.renames = renames

    def visit_Name(self, node: ast.Name) -> ast.AST:
        if node.id in self.exprs and isinstance(node.ctx, ast.Load):
            return copy.deepcopy(self.exprs[node.id])
        if node.id in self.renames:
            return ast.copy_location(ast.Name(id=self.renames[node.id], ctx=node.ctx), node)
        return node

    def visit_ExceptHandler(self, node: ast.ExceptHandler) -> ast.AST:
        self.generic_visit(node)
        if node.name and node.name in self.renames:
            node.name = self.renames[node.name]
        return node

    def visit_Lambda(self, node: ast.Lambda) -> ast.AST:
        shadow = {a.arg for a in node.args.args + node.args.kwonlyargs}
        saved = (self.exprs, self.renames)
        self.exprs = {k: v for k, v in self.exprs.items() if k not in shadow}
        self.renames = {k: v for k, v in self.renames.items() if k not in shadow}
        self.generic_visit(node)
        self.exprs, self.renames = saved
        return node


def _bind_args(fd: ast.FunctionDef, call: ast.Call, is_method: bool) -> T.Optional[T.Dict[str, ast.AST]]:
    params = [a.arg for a in fd.args.args]
    if is_method:
        if not params:
            return None
        params = params[1:]
    kwonly = [a.arg for a in fd.args.kwonlyargs]
    if any(isinstance(a, ast.Starred) for a in call.args) or any(k.arg is None for k in call.keywords):
        return None
    if len(call.args) > len(params):
        return None
    bound: T.Dict[str, ast.AST] = dict(zip(params, call.args))
    for k in call.keywords:
        if k.arg in bound or k.arg not in params + kwonly:
            return None
        bound[k.arg] = k.value
    allp = [a.arg for a in fd.args.args]
    pos_defaults = dict(zip(allp[len(allp) - len(fd.args.defaults):], fd.args.defaults)) if fd.args.defaults else {}
    for p in params:
        if p not in bound:
            if p in pos_defaults:
                bound[p] = pos_defaults[p]
            else:
                return None
    for a, d in zip(fd.args.kwonlyargs, fd.args.kw_defaults):
        if a.arg not in bound:
            if d is None:
                return None
            bound[a.arg] = d
    return bound


def _ends_in_return(stmts: T.List[ast.stmt]) -> bool:
    if not stmts:
        return False
    last = stmts[-1]
    if isinstance(last, (ast.Return, ast.Raise)):
        return True
    if isinstance(last, ast.If) and last.orelse:
        return _ends_in_return(last.body) and _ends_in_return(last.orelse)
    if isinstance(last, ast.Try) and not last.finalbody:
        normal = _ends_in_return(last.orelse) if last.orelse else _ends_in_return(last.body)
        return normal and all(_ends_in_return(h.body) for h in last.handlers)
    if isinstance(last, ast.With):
        return _ends_in_return(last.body)
    return False


def _structurise(stmts: T.List[ast.stmt]) -> T.List[ast.stmt]:
    """Guard clauses `if c: ...; return x` followed by more statements become `if c: ... return x else: <rest>`
    (only at the statement-list level, never inside loops / try / with)."""
    out: T.List[ast.stmt] = []
    for i, st in enumerate(stmts):
        if isinstance(st, ast.If):
            body = _structurise(st.body)
            orelse = _structurise(st.orelse)
            rest = stmts[i + 1:]
            if rest and _ends_in_return(body) and not orelse:
                new = ast.copy_location(ast.If(test=st.test, body=body, orelse=_structurise(rest)), st)
                out.append(new)
                return out
            if rest and orelse and _ends_in_return(orelse) and not _ends_in_return(body):
                # `if c: A else: return x` + rest  ->  `if c: A; rest else: return x`
                new = ast.copy_location(ast.If(test=st.test, body=body + _structurise(rest), orelse=orelse), st)
                out.append(new)
                return out
            out.append(ast.copy_location(ast.If(test=st.test, body=body, orelse=orelse), st))
        else:
            out.append(st)
    return out


def _has_non_tail_return(stmts: T.List[ast.stmt], tail: bool = True) -> bool:
    for i, st in enumerate(stmts):
        is_last = tail and i == len(stmts) - 1
        if isinstance(st, ast.Return):
            if not is_last:
                return True
        elif isinstance(st, ast.If):
            if _has_non_tail_return(st.body, is_last) or _has_non_tail_return(st.orelse, is_last):
                return True
        elif isinstance(st, (ast.For, ast.While, ast.With, ast.Try)):
            if any(isinstance(n, ast.Return) for n in ast.walk(st)):
                return True
    return False


_COUNTER = [0]


def _fresh() -> int:
    _COUNTER[0] += 1
    return _COUNTER[0]


class _ReturnRewriter(ast.NodeTransformer):
    """return e  ->  <target> = e [; jump]"""

    def __init__(self, target: T.Optional[ast.AST], block_id: T.Optional[int]):
        self.target = target
        self.block_id = block_id
        self.jumps = 0

    cont: T.Optional[T.Tuple[bool, T.List[ast.stmt], T.List[ast.stmt]]] = None     # (negated, body, orelse) of `if [not] H(): ..`
    keep_returns = False                                                               # `return H()`: returns stay returns

    def _assign(self, value: T.Optional[ast.AST], at: ast.AST) -> T.List[ast.stmt]:
        out: T.List[ast.stmt] = []
        if self.keep_returns:
            return [ast.copy_location(ast.Return(value=value), at)]
        if self.cont is not None:
            neg, body, orelse = self.cont
            v = value if value is not None else ast.Constant(value=None)
            if isinstance(v, ast.Constant):
                return copy.deepcopy(body if bool(v.value) != neg else orelse)
            test = ast.copy_location(ast.UnaryOp(op=ast.Not(), operand=v), at) if neg else v
            return [ast.copy_location(ast.If(test=test, body=copy.deepcopy(body) or [ast.copy_location(ast.Pass(), at)], orelse=copy.deepcopy(orelse)), at)]
        if self.target is not None:
            v = value if value is not None else ast.Constant(value=None)
            tg = self.target
            if isinstance(tg, ast.Name) and isinstance(v, ast.Name) and v.id == tg.id:
                return out          # x = x
            if isinstance(tg, (ast.Tuple, ast.List)) and isinstance(v, (ast.Tuple, ast.List)) and len(tg.elts) == len(v.elts) \
                    and all(isinstance(e, ast.Name) for e in tg.elts):
                names = [e.id for e in tg.elts]
                # element-wise, unless a value reads a target that an earlier element assignment has already changed
                safe = True
                for i, ve in enumerate(v.elts):
                    used = {n.id for n in ast.walk(ve) if isinstance(n, ast.Name)}
                    if used & {nm for j, nm in enumerate(names[:i]) if not (isinstance(v.elts[j], ast.Name) and v.elts[j].id == nm)}:
                        safe = False
                if safe:
                    for e, ve in zip(tg.elts, v.elts):
                        if isinstance(ve, ast.Name) and ve.id == e.id:
                            continue
                        out.append(ast.copy_location(ast.Assign(targets=[copy.deepcopy(e)], value=ve), at))
                    return out
            out.append(ast.copy_location(ast.Assign(targets=[copy.deepcopy(tg)], value=v), at))
        elif value is not None and not isinstance(value, (ast.Constant, ast.Name)):
            out.append(ast.copy_location(ast.Expr(value=value), at))
        return out

    def rewrite(self, stmts: T.List[ast.stmt], tail: bool) -> T.List[ast.stmt]:
        out: T.List[ast.stmt] = []
        for i, st in enumerate(stmts):
            is_last = tail and i == len(stmts) - 1
            if isinstance(st, ast.Return):
                repl = self._assign(st.value, st)
                out.extend(repl)
                if not is_last and not _ends_in_return(repl):
                    self.jumps += 1
                    j = ast.copy_location(ast.Break(), st)
                    j._inline_exit = self.block_id          # type: ignore[attr-defined]
                    out.append(j)
                elif not out or out[-1] is None:
                    pass
            elif isinstance(st, ast.If):
                new = ast.copy_location(ast.If(test=st.test, body=self.rewrite(st.body, is_last) or [ast.copy_location(ast.Pass(), st)],
                                               orelse=self.rewrite(st.orelse, is_last)), st)
                out.append(new)
            elif isinstance(st, (ast.For, ast.While)):
                new = copy.copy(st)
                new.body = self.rewrite(st.body, False) or [ast.copy_location(ast.Pass(), st)]
                new.orelse = self.rewrite(st.orelse, False)
                out.append(new)
            elif isinstance(st, ast.With):
                new = copy.copy(st)
                new.body = self.rewrite(st.body, is_last) or [ast.copy_location(ast.Pass(), st)]
                out.append(new)
            elif isinstance(st, ast.Try):
                new = copy.copy(st)
                # a return that ends the try body (no else clause) or a handler, with nothing after the try statement,
                # is the same as falling out of the try statement
                new.body = self.rewrite(st.body, is_last and not st.orelse) or [ast.copy_location(ast.Pass(), st)]
                new.handlers = []
                for h in st.handlers:
                    h2 = copy.copy(h)
                    h2.body = self.rewrite(h.body, is_last) or [ast.copy_location(ast.Pass(), h)]
                    new.handlers.append(h2)
                new.orelse = self.rewrite(st.orelse, is_last)
                new.finalbody = self.rewrite(st.finalbody, False)
                out.append(new)
            else:
                out.append(st)
        return out


class Inliner:
    def __init__(self, tree: ast.Module, modname: str, known: T.Dict[str, str]):
        self.tree = tree
        self.modname = modname
        self.known = known
        self.renamed_hashes: T.Set[str] = set()
        self.funcs: T.Dict[str, ast.FunctionDef] = {}          # new module-level helpers
        self.methods: T.Dict[T.Tuple[str, str], ast.FunctionDef] = {}   # (class, name) -> new methods
        self.expanded = 0
        self.dropped: T.List[str] = []
        self.external: T.Dict[T.Tuple[str, str], ast.FunctionDef] = {}     # (alias, name) -> adapted copy of another module's new helper
        self.external_names: T.Dict[str, ast.FunctionDef] = {}              # `from .m import h`
        self.foreign_refs: T.Callable[[str], int] = lambda name: 0          # references to a name in the other modules

    # ------------------------------------------------------------------ discovery
    def discover(self) -> None:
        # a function of the pinned tree that vanished while a new one has exactly its body was renamed, not extracted
        present: T.Set[str] = set()
        for st in ast.walk(self.tree):
            if isinstance(st, ast.ClassDef):
                present.add(st.name)
                present |= {f"{st.name}.{sub.name}" for sub in st.body if isinstance(sub, ast.FunctionDef)}
        for st in self._top_functions():
            present.add(st.name)
        self.renamed_hashes = {h for q, h in self.known.items() if q not in present and h}

        def scan(stmts: T.List[ast.stmt]) -> None:
            for st in stmts:
                if isinstance(st, ast.FunctionDef):
                    if st.name not in self.known and body_hash(st) not in self.renamed_hashes and _inlinable(st) and not _calls_name(st, st.name, False):
                        self.funcs[st.name] = st
                elif isinstance(st, ast.ClassDef):
                    for sub in st.body:
                        if isinstance(sub, ast.FunctionDef):
                            q = f"{st.name}.{sub.name}"
                            if q not in self.known and body_hash(sub) not in self.renamed_hashes and _inlinable(sub) and not _calls_name(sub, sub.name, True) \
                                    and sub.args.args and sub.args.args[0].arg == "self":
                                self.methods[(st.name, sub.name)] = sub
                elif isinstance(st, (ast.If, ast.Try)):
                    scan(getattr(st, "body", []))
                    scan(getattr(st, "orelse", []))
        scan(self.tree.body)
        # a name that is rebound at module level (or shadowed) is not a stable callee
        rebinds: T.Dict[str, int] = {}
        for st in self.tree.body:
            if isinstance(st, (ast.FunctionDef, ast.ClassDef)):
                rebinds[st.name] = rebinds.get(st.name, 0) + 1
            elif isinstance(st, (ast.Assign, ast.AnnAssign)):
                for n in _stored_names(st):
                    rebinds[n] = rebinds.get(n, 0) + 1
        for name in list(self.funcs):
            if rebinds.get(name, 0) != 1:
                del self.funcs[name]

    # ------------------------------------------------------------------ driver
    def run(self) -> ast.Module:
        self.discover()
        if not self.funcs and not self.methods and not self.external and not self.external_names:
            return self.tree
        # helpers first (so that helper-in-helper is expanded before the outer one is copied), three rounds
        for _round in range(3):
            for fd in list(self.funcs.values()) + list(self.methods.values()):
                self._process_function(fd, None)
        for st in ast.walk(self.tree):
            if isinstance(st, ast.ClassDef):
                for sub in st.body:
                    if isinstance(sub, ast.FunctionDef) and (st.name, sub.name) not in self.methods:
                        self._process_function(sub, st.name)
        for st in self._top_functions():
            if st.name not in self.funcs:
                self._process_function(st, None)
        self._drop_unreferenced()
        ast.fix_missing_locations(self.tree)
        return self.tree

    def _drop_unreferenced(self) -> None:
        """A helper whose every call site was expanded is no longer part of the program."""
        def refs(name: str, is_method: bool, own: ast.FunctionDef) -> int:
            own_ids = {id(n) for n in ast.walk(own)}
            k = 0
            for n in ast.walk(self.tree):
                if id(n) in own_ids:
                    continue
                if not is_method and isinstance(n, ast.Name) and n.id == name:
                    k += 1
                elif isinstance(n, ast.Attribute) and n.attr == name:
                    k += 1
                elif isinstance(n, ast.Constant) and n.value == name:
                    k += 1          # getattr(obj, "name") / __all__
            return k
        changed = True
        while changed:
            changed = False
            for name, fd in list(self.funcs.items()):
                if refs(name, False, fd) == 0 and self.foreign_refs(name) == 0 and self._remove_def(fd):
                    del self.funcs[name]
                    self.dropped.append(name)
                    changed = True
            for (cls, name), fd in list(self.methods.items()):
                if refs(name, True, fd) == 0 and self._remove_def(fd):
                    del self.methods[(cls, name)]
                    self.dropped.append(f"{cls}.{name}")
                    changed = True

    def _remove_def(self, fd: ast.FunctionDef) -> bool:
        for n in ast.walk(self.tree):
            for field in ("body", "orelse", "finalbody"):
                blk = getattr(n, field, None)
                if isinstance(blk, list) and fd in blk:
                    blk.remove(fd)
                    if not blk:
                        blk.append(ast.copy_location(ast.Pass(), fd))
                    return True
        return False

    def _top_functions(self) -> T.List[ast.FunctionDef]:
        out: T.List[ast.FunctionDef] = []

        def scan(stmts: T.List[ast.stmt]) -> None:
            for st in stmts:
                if isinstance(st, ast.FunctionDef):
                    out.append(st)
                elif isinstance(st, (ast.If, ast.Try)):
                    scan(getattr(st, "body", []))
                    scan(getattr(st, "orelse", []))
        scan(self.tree.body)
        return out

    def _class_of(self, fd: ast.FunctionDef) -> T.Optional[str]:
        for st in ast.walk(self.tree):
            if isinstance(st, ast.ClassDef) and fd in st.body:
                return st.name
        return None

    def _process_function(self, fd: ast.FunctionDef, cls: T.Optional[str]) -> None:
        if cls is None:
            cls = self._class_of(fd)
        self._cur = fd
        self._cls = cls
        self._shadow = _stored_names(fd)          # names bound in the caller shadow module-level helpers
        fd.body = self._expand_block(fd.body)

    # ------------------------------------------------------------------ call lookup
    def _callee(self, call: ast.Call) -> T.Optional[T.Tuple[ast.FunctionDef, bool]]:
        if isinstance(call.func, ast.Attribute) and isinstance(call.func.value, ast.Name) and (call.func.value.id, call.func.attr) in self.external \
                and call.func.value.id not in self._shadow:
            return self.external[(call.func.value.id, call.func.attr)], False
        if isinstance(call.func, ast.Name) and call.func.id in self.external_names and call.func.id not in self._shadow:
            return self.external_names[call.func.id], False
        if isinstance(call.func, ast.Name) and call.func.id in self.funcs and call.func.id not in self._shadow:
            fd = self.funcs[call.func.id]
            return (fd, False) if fd is not self._cur else None
        if isinstance(call.func, ast.Attribute) and isinstance(call.func.value, ast.Name) and call.func.value.id == "self" and self._cls is not None:
            fd = self.methods.get((self._cls, call.func.attr))
            if fd is not None and fd is not self._cur:
                return fd, True
        return None

    def _single_expr(self, fd: ast.FunctionDef) -> T.Optional[ast.AST]:
        body = _body_without_doc(fd)
        if len(body) == 1 and isinstance(body[0], ast.Return) and body[0].value is not None:
            return body[0].value
        # `if c: return a` / `else: return b` (or a trailing `return b`) is the expression `a if c else b`
        if body and isinstance(body[0], ast.If) and len(body[0].body) == 1 and isinstance(body[0].body[0], ast.Return) and body[0].body[0].value is not None:
            then = body[0].body[0].value
            other = None
            if len(body) == 1 and len(body[0].orelse) == 1 and isinstance(body[0].orelse[0], ast.Return):
                other = body[0].orelse[0].value
            elif len(body) == 2 and not body[0].orelse and isinstance(body[1], ast.Return):
                other = body[1].value
            else:
                return None
            if other is None:
                other = ast.Constant(value=None)
            return ast.fix_missing_locations(ast.copy_location(ast.IfExp(test=body[0].test, body=then, orelse=other), body[0]))
        return None

    # ------------------------------------------------------------------ expression-level substitution
    def _subst_expr_calls(self, node: ast.AST) -> ast.AST:
        inl = self

        class X(ast.NodeTransformer):
            def visit_Call(self, call: ast.Call) -> ast.AST:
                self.generic_visit(call)
                hit = inl._callee(call)
                if hit is None:
                    return call
                fd, is_method = hit
                expr = inl._single_expr(fd)
                if expr is None:
                    return call
                bound = _bind_args(fd, call, is_method)
                if bound is None:
                    return call
                # an argument may be substituted if it is pure, or if its parameter is used exactly once
                uses: T.Dict[str, int] = {}
                for n in ast.walk(expr):
                    if isinstance(n, ast.Name):
                        uses[n.id] = uses.get(n.id, 0) + 1
                for p, a in bound.items():
                    if not _is_pure_arg(a) and uses.get(p, 0) > 1:
                        return call
                    if not _is_pure_arg(a) and any(isinstance(n, (ast.Lambda, ast.ListComp, ast.GeneratorExp, ast.SetComp, ast.DictComp)) for n in ast.walk(expr)):
                        return call
                exprs = dict(bound)
                if is_method:
                    exprs["self"] = ast.Name(id="self", ctx=ast.Load())
                inl.expanded += 1
                return ast.copy_location(_Subst(exprs, {}).visit(copy.deepcopy(expr)), call)
        return X().visit(node)

    # ------------------------------------------------------------------ statement-level expansion
    def _expand_block(self, stmts: T.List[ast.stmt]) -> T.List[ast.stmt]:
        out: T.List[ast.stmt] = []
        for st in stmts:
            out.extend(self._expand_stmt(st))
        return out

    def _immediate_exprs(self, st: ast.stmt) -> T.List[ast.AST]:
        if isinstance(st, (ast.Assign, ast.AugAssign, ast.Expr, ast.Return)):
            return [st.value] if st.value is not None else []
        if isinstance(st, ast.AnnAssign):
            return [st.value] if st.value is not None else []
        if isinstance(st, ast.If):
            return [st.test]
        if isinstance(st, ast.For):
            return [st.iter]
        if isinstance(st, ast.With):
            return [i.context_expr for i in st.items]
        if isinstance(st, ast.Raise):
            return [e for e in (st.exc, st.cause) if e is not None]
        if isinstance(st, ast.Assert):
            return [st.test]
        return []

    def _unconditional_calls(self, e: ast.AST) -> T.List[ast.Call]:
        """Inlinable multi-statement calls evaluated unconditionally, in evaluation order (approximately: pre-order of
        arguments before the call itself)."""
        out: T.List[ast.Call] = []

        def rec(n: ast.AST) -> None:
            if isinstance(n, (ast.Lambda, ast.ListComp, ast.SetComp, ast.DictComp, ast.GeneratorExp)):
                return
            if isinstance(n, ast.BoolOp):
                rec(n.values[0])
                return
            if isinstance(n, ast.IfExp):
                rec(n.test)
                return
            if isinstance(n, ast.Compare) and len(n.ops) > 1:
                rec(n.left)
                rec(n.comparators[0])
                return
            for c in ast.iter_child_nodes(n):
                rec(c)
            if isinstance(n, ast.Call):
                hit = self._callee(n)
                if hit is not None and self._single_expr(hit[0]) is None:
                    out.append(n)
        rec(e)
        return out

    def _has_expandable_call(self, e: ast.AST) -> bool:
        for n in ast.walk(e):
            if isinstance(n, ast.Call):
                hit = self._callee(n)
                if hit is not None and self._single_expr(hit[0]) is None:
                    return True
        return False

    def _expand_stmt(self, st: ast.stmt) -> T.List[ast.stmt]:
        # 1. single-expression helpers, everywhere in the statement's own expressions (not in nested blocks)
        for field in ("value", "test", "iter", "exc", "cause", "msg"):
            v = getattr(st, field, None)
            if isinstance(v, ast.AST):
                setattr(st, field, self._subst_expr_calls(v))
        if isinstance(st, ast.With):
            for it in st.items:
                it.context_expr = self._subst_expr_calls(it.context_expr)
        if isinstance(st, ast.Assign):
            st.targets = [self._subst_expr_calls(t) for t in st.targets]
        # 2. nested blocks
        for field in ("body", "orelse", "finalbody"):
            blk = getattr(st, field, None)
            if isinstance(blk, list) and blk and isinstance(blk[0], ast.stmt) and not isinstance(st, (ast.FunctionDef, ast.ClassDef)):
                setattr(st, field, self._expand_block(blk))
        if isinstance(st, ast.Try):
            for h in st.handlers:
                h.body = self._expand_block(h.body)
        if isinstance(st, (ast.FunctionDef, ast.ClassDef, ast.While)):
            return [st]        # while tests are re-evaluated on every iteration: nothing is hoisted out of them
        # 2b. `if A and B(...): S` (no else) with an expandable call in a later operand: nest, so that the call is
        #     evaluated unconditionally inside `if A:`
        if isinstance(st, ast.If) and not st.orelse and isinstance(st.test, ast.BoolOp) and isinstance(st.test.op, ast.And):
            vals = st.test.values
            k = next((i for i, v in enumerate(vals) if i > 0 and self._has_expandable_call(v)), None)
            if k is not None:
                left = vals[0] if k == 1 else ast.copy_location(ast.BoolOp(op=ast.And(), values=vals[:k]), st.test)
                right = vals[k] if k == len(vals) - 1 else ast.copy_location(ast.BoolOp(op=ast.And(), values=vals[k:]), st.test)
                inner = ast.copy_location(ast.If(test=right, body=st.body, orelse=[]), st)
                outer = ast.copy_location(ast.If(test=left, body=self._expand_stmt(inner), orelse=[]), st)
                return self._expand_stmt(outer) if self._has_expandable_call(left) else [outer]
        # 3. multi-statement helpers called unconditionally by this statement
        pre: T.List[ast.stmt] = []
        for _guard in range(8):
            calls: T.List[ast.Call] = []
            for e in self._immediate_exprs(st):
                calls.extend(self._unconditional_calls(e))
            if not calls:
                break
            call = calls[0]
            fd, is_method = self._callee(call)      # type: ignore[misc]
            direct = isinstance(st, (ast.Assign, ast.AnnAssign, ast.Expr, ast.Return)) and st.value is call
            if direct and isinstance(st, ast.Return):
                blk = self._expand_call(fd, is_method, call, None, keep_returns=True)
                if blk is None:
                    break
                self._note_names(blk)
                return pre + blk
            if isinstance(st, ast.If):
                t, neg = st.test, False
                while isinstance(t, ast.UnaryOp) and isinstance(t.op, ast.Not):
                    t, neg = t.operand, not neg
                n_ret = sum(1 for n in ast.walk(fd) if isinstance(n, ast.Return)) + 1
                size = sum(1 for b_ in st.body + st.orelse for _n in ast.walk(b_) if isinstance(_n, ast.stmt))
                if t is call and n_ret * size <= 40:
                    blk = self._expand_call(fd, is_method, call, None, cont=(neg, st.body, st.orelse))
                    if blk is not None:
                        self._note_names(blk)
                        return pre + blk
            if direct and isinstance(st, ast.Expr):
                blk = self._expand_call(fd, is_method, call, None)
                if blk is None:
                    break
                self._note_names(blk)
                return pre + blk
            if direct and isinstance(st, ast.Assign) and len(st.targets) == 1:
                blk = self._expand_call(fd, is_method, call, st.targets[0])
                if blk is None:
                    break
                self._note_names(blk)
                return pre + blk
            if direct and isinstance(st, ast.AnnAssign) and isinstance(st.target, ast.Name):
                blk = self._expand_call(fd, is_method, call, st.target)
                if blk is None:
                    break
                decl = ast.copy_location(ast.AnnAssign(target=copy.deepcopy(st.target), annotation=st.annotation, value=None, simple=1), st)
                self._note_names(blk)
                return pre + [decl] + blk
            tmp = ast.Name(id=f"{fd.name.lstrip('_')}_result" if f"{fd.name.lstrip('_')}_result" not in self._shadow else f"{fd.name.lstrip('_')}_result_{_fresh()}", ctx=ast.Store())
            blk = self._expand_call(fd, is_method, call, tmp)
            if blk is None:
                break
            self._shadow.add(tmp.id)
            self._note_names(blk)
            pre.extend(blk)
            self._replace_node(st, call, ast.copy_location(ast.Name(id=tmp.id, ctx=ast.Load()), call))
        if pre:
            self._subst_fields(st)          # an argument that was a call is a plain name now
        return pre + [st]

    def _subst_fields(self, st: ast.stmt) -> None:
        for field in ("value", "test", "iter", "exc", "cause", "msg"):
            v = getattr(st, field, None)
            if isinstance(v, ast.AST):
                setattr(st, field, self._subst_expr_calls(v))
        if isinstance(st, ast.With):
            for it in st.items:
                it.context_expr = self._subst_expr_calls(it.context_expr)

    def _note_names(self, blk: T.List[ast.stmt]) -> None:
        for b in blk:
            self._shadow |= _stored_names(b)

    @staticmethod
    def _replace_node(root: ast.AST, old: ast.AST, new: ast.AST) -> None:
        for n in ast.walk(root):
            for f, v in ast.iter_fields(n):
                if v is old:
                    setattr(n, f, new)
                    return
                if isinstance(v, list):
                    for i, x in enumerate(v):
                        if x is old:
                            v[i] = new
                            return

    def _expand_call(self, fd: ast.FunctionDef, is_method: bool, call: ast.Call, target: T.Optional[ast.AST],
                     cont: T.Optional[T.Tuple[bool, T.List[ast.stmt], T.List[ast.stmt]]] = None, keep_returns: bool = False) -> T.Optional[T.List[ast.stmt]]:
        bound = _bind_args(fd, call, is_method)
        if bound is None:
            return None
        body = copy.deepcopy(_body_without_doc(fd))
        helper_stores = set()
        for b in body:
            helper_stores |= _stored_names(b)
        caller_names = _all_names(self._cur) | self._shadow
        target_names = {n.id for n in ast.walk(target) if isinstance(n, ast.Name)} if target is not None else set()
        exprs: T.Dict[str, ast.AST] = {}
        renames: T.Dict[str, str] = {}
        pre: T.List[ast.stmt] = []
        ann = {a.arg: a.annotation for a in fd.args.args + fd.args.kwonlyargs}
        for p, a in bound.items():
            arg_names = {n.id for n in ast.walk(a) if isinstance(n, ast.Name)}
            if _is_pure_arg(a) and p not in helper_stores and not (arg_names & helper_stores):
                if isinstance(a, ast.Name) and a.id == p:
                    continue
                exprs[p] = a
                continue
            if isinstance(a, ast.Name) and a.id == p and (p not in helper_stores or p in target_names):
                continue            # the caller's variable of the same name simply carries on
            new = p
            if p in caller_names:
                new = f"{p}__{_fresh()}"
                renames[p] = new
            tgt = ast.Name(id=new, ctx=ast.Store())
            if ann.get(p) is not None:
                pre.append(ast.copy_location(ast.AnnAssign(target=tgt, annotation=copy.deepcopy(ann[p]), value=copy.deepcopy(a), simple=1), call))
            else:
                pre.append(ast.copy_location(ast.Assign(targets=[tgt], value=copy.deepcopy(a)), call))
        for name in sorted(helper_stores):
            if name in bound:
                continue
            if name in caller_names and name not in target_names:
                renames[name] = f"{name}__{_fresh()}"
        if is_method:
            pass        # `self` stays `self`
        body = [_Subst(exprs, renames).visit(b) for b in body]
        body = _structurise(body)
        block_id = _fresh()
        rw = _ReturnRewriter(target, block_id)
        rw.cont, rw.keep_returns = cont, keep_returns
        if (cont is not None or keep_returns or target is not None) and not _ends_in_return(body):
            body = body + [ast.copy_location(ast.Return(value=ast.Constant(value=None)), call)]     # falling off the end returns None
        new_body = rw.rewrite(body, True)
        need_block = rw.jumps > 0
        if not new_body:
            new_body = [ast.copy_location(ast.Pass(), call)]
        self.expanded += 1
        if need_block:
            w = ast.copy_location(ast.With(items=[ast.withitem(context_expr=ast.Name(id="__inline__", ctx=ast.Load()), optional_vars=None)], body=new_body), call)
            w._inline_block = block_id          # type: ignore[attr-defined]
            w._inline_of = fd.name              # type: ignore[attr-defined]
            return pre + [w]
        return pre + new_body


def _module_aliases(tree: ast.Module, pkg: str = "bumpver") -> T.Tuple[T.Dict[str, str], T.Dict[str, T.Tuple[str, str]]]:
    """(alias -> sibling module name, local name -> (sibling module, name)) from the module-level imports."""
    mods: T.Dict[str, str] = {}
    names: T.Dict[str, T.Tuple[str, str]] = {}
    for st in tree.body:
        if isinstance(st, ast.ImportFrom):
            base = st.module or ""
            internal = st.level > 0 or base == pkg or base.startswith(pkg + ".")
            if not internal:
                continue
            if base.startswith(pkg):
                base = base[len(pkg):].lstrip(".")
            for al in st.names:
                if base == "":
                    mods[al.asname or al.name] = al.name
                else:
                    names[al.asname or al.name] = (base, al.name)
        elif isinstance(st, ast.Import):
            for al in st.names:
                if al.name.startswith(pkg + ".") and al.asname:
                    mods[al.asname] = al.name[len(pkg) + 1:]
    return mods, names


def _module_level_names(tree: ast.Module) -> T.Dict[str, str]:
    """name -> 'def' | 'import:<text>' for the module-level bindings."""
    out: T.Dict[str, str] = {}
    for st in tree.body:
        if isinstance(st, (ast.FunctionDef, ast.ClassDef)):
            out[st.name] = "def"
        elif isinstance(st, (ast.Assign, ast.AnnAssign)):
            for n in _stored_names(st):
                out[n] = "def"
        elif isinstance(st, ast.Import):
            for al in st.names:
                out[al.asname or al.name.split(".")[0]] = "import:" + ast.unparse(ast.Import(names=[al]))
        elif isinstance(st, ast.ImportFrom):
            for al in st.names:
                out[al.asname or al.name] = "import:" + ast.unparse(ast.ImportFrom(module=st.module, names=[al], level=st.level))
        elif isinstance(st, (ast.If, ast.Try)):
            for sub in ast.walk(st):
                if isinstance(sub, (ast.FunctionDef, ast.ClassDef)):
                    out.setdefault(sub.name, "def")
    return out


def _adapt_for(fd: ast.FunctionDef, home: ast.Module, target: ast.Module, alias: T.Optional[str], home_name: str = "") -> T.Optional[ast.FunctionDef]:
    """Copy of a helper of module `home` whose free names mean the same thing when evaluated inside module `target`
    (home-module definitions are qualified with `alias`; without a module alias they are imported by name), or None."""
    import builtins
    needed: T.List[str] = []
    inject: T.List[str] = []
    home_names, target_names = _module_level_names(home), _module_level_names(target)
    local = _stored_names(fd)
    new = copy.deepcopy(fd)
    ok = True

    class Q(ast.NodeTransformer):
        def visit_Name(self, node: ast.Name) -> ast.AST:
            nonlocal ok
            if node.id in local or hasattr(builtins, node.id) or not isinstance(node.ctx, ast.Load):
                return node
            kind = home_names.get(node.id)
            if kind == "def":
                if alias is None:
                    want = "import:" + ast.unparse(ast.ImportFrom(module=home_name, names=[ast.alias(name=node.id)], level=1))
                    if target_names.get(node.id) not in (None, want) or not home_name:
                        ok = False
                    elif node.id not in needed:
                        needed.append(node.id)
                    return node
                return ast.copy_location(ast.Attribute(value=ast.Name(id=alias, ctx=ast.Load()), attr=node.id, ctx=ast.Load()), node)
            if kind is not None and kind.startswith("import:"):
                have = target_names.get(node.id)
                if have is None:
                    if kind not in inject:
                        inject.append(kind)          # the same import is added to the target module
                elif have != kind:
                    ok = False
                return node
            ok = False
            return node
    new.body = [Q().visit(b) for b in new.body]
    if not ok:
        return None
    for kind in inject:
        target.body.insert(0, ast.fix_missing_locations(ast.parse(kind[len("import:"):]).body[0]))
    for name in needed:
        if target_names.get(name) is None:
            imp = ast.ImportFrom(module=home_name, names=[ast.alias(name=name)], level=1)
            target.body.insert(0, ast.fix_missing_locations(imp))
    return new


def _qualnames(tree: ast.Module) -> T.Dict[str, ast.FunctionDef]:
    out: T.Dict[str, ast.FunctionDef] = {}

    def scan(stmts: T.List[ast.stmt], prefix: str = "") -> None:
        for st in stmts:
            if isinstance(st, ast.FunctionDef):
                out[prefix + st.name] = st
            elif isinstance(st, ast.ClassDef) and not prefix:
                scan(st.body, st.name + ".")
            elif isinstance(st, (ast.If, ast.Try)):
                scan(getattr(st, "body", []), prefix)
                scan(getattr(st, "orelse", []), prefix)
    scan(tree.body)
    return out


def undo_renames(trees: T.Dict[str, ast.Module]) -> T.List[str]:
    """A function of the pinned tree that vanished while exactly one new function of the same module (and class) has
    its body - up to the names of parameters and locals - was renamed: the old name is restored, together with every
    reference, so that the rules find their anchors.  Repeated, because the body of a caller mentions the new name."""
    done: T.List[str] = []
    for _round in range(4):
        changed = False
        for m, tree in trees.items():
            known = baseline().get(m, {})
            if not known:
                continue
            defs = _qualnames(tree)
            vanished = {q: h for q, h in known.items() if h and q not in defs}
            fresh = {q: fd for q, fd in defs.items() if q not in known}
            if not vanished or not fresh:
                continue
            by_hash: T.Dict[str, T.List[str]] = {}
            for q, fd in fresh.items():
                by_hash.setdefault(body_hash(fd), []).append(q)
            def _sig(fd_: ast.AST) -> T.Tuple[str, ...]:
                a_ = fd_.args
                return tuple(x.arg for x in a_.posonlyargs + a_.args + a_.kwonlyargs)
            base_sigs = baseline_signatures().get(m, {})
            for old, h in sorted(vanished.items()):
                cands = [q for q in by_hash.get(h, []) if q.rpartition(".")[0] == old.rpartition(".")[0]]
                if len(cands) != 1 or [o for o, h2 in vanished.items() if h2 == h] != [old]:
                    # renamed AND edited: the one vanished function and the one new function of this module (class) that
                    # have the same parameter list (two or more parameters)
                    sig = tuple(base_sigs.get(old, ()))
                    cands = [q for q, fd in fresh.items() if q.rpartition(".")[0] == old.rpartition(".")[0] and _sig(fd) == sig]
                    same_sig_vanished = [o for o in vanished if tuple(base_sigs.get(o, ())) == sig]
                    if len(sig) < 2 or len(cands) != 1 or same_sig_vanished != [old]:
                        # ... or the one new top-level function that is called (by plain name) from exactly the functions
                        # that called the vanished one on the pinned tree
                        want_callers = set(baseline_callers().get(m, {}).get(old, []))
                        cands = []
                        if want_callers and "." not in old:
                            for q, fd in fresh.items():
                                if "." in q or len(_sig(fd)) != len(sig):
                                    continue
                                got = set()
                                for cq, cfd in defs.items():
                                    if cq != q and any(isinstance(c, ast.Call) and isinstance(c.func, ast.Name) and c.func.id == q for c in ast.walk(cfd)):
                                        got.add(cq)
                                if any(isinstance(c, ast.Call) and isinstance(c.func, ast.Name) and c.func.id == q for st_ in tree.body
                                       if not isinstance(st_, (ast.FunctionDef, ast.AsyncFunctionDef, ast.ClassDef)) for c in ast.walk(st_)):
                                    got.add("<module>")
                                if got == want_callers:
                                    cands.append(q)
                        others = [o for o in vanished if o != old and set(baseline_callers().get(m, {}).get(o, [])) == want_callers]
                        if len(cands) != 1 or others:
                            continue
                new = cands[0]
                new_name, old_name = new.rpartition(".")[2], old.rpartition(".")[2]
                is_method = "." in new
                # the new name must not be used for anything else
                clash = any(isinstance(n, ast.arg) and n.arg == new_name for t in trees.values() for n in ast.walk(t))
                if clash:
                    continue
                fresh[new].name = old_name
                for n2, t in trees.items():
                    mods, names = _module_aliases(t)
                    for x in ast.walk(t):
                        if is_method:
                            if isinstance(x, ast.Attribute) and x.attr == new_name:
                                x.attr = old_name
                        elif n2 == m:
                            if isinstance(x, ast.Name) and x.id == new_name:
                                x.id = old_name
                        else:
                            if isinstance(x, ast.Attribute) and x.attr == new_name and isinstance(x.value, ast.Name) and mods.get(x.value.id) == m:
                                x.attr = old_name
                            elif isinstance(x, ast.alias) and x.name == new_name and any(v == (m, new_name) for v in names.values()):
                                if x.asname is None:
                                    x.asname = new_name          # local spelling stays, the imported object gets its old name back
                                x.name = old_name
                done.append(f"{m}.{new} -> {old_name}")
                changed = True
                break
        if not changed:
            break
    return done


def undo_local_renames(trees: T.Dict[str, ast.Module]) -> T.List[str]:
    """A function whose body equals the pinned one up to the names of parameters and locals gets the pinned names back
    (the two name lists correspond position by position); keyword arguments at its call sites follow the parameters."""
    done: T.List[str] = []
    for m, tree in trees.items():
        known, names_tab = baseline().get(m, {}), baseline_names().get(m, {})
        if not known:
            continue
        for q, fd in _qualnames(tree).items():
            if not known.get(q) or q not in names_tab or known[q] != body_hash(fd):
                continue
            cur, old = local_names(fd), names_tab[q]
            if cur == old or len(cur) != len(old):
                continue
            ren = {c: o for c, o in zip(cur, old) if c != o}
            for n in ast.walk(fd):
                if isinstance(n, ast.Name) and n.id in ren:
                    n.id = ren[n.id]
                elif isinstance(n, ast.arg) and n.arg in ren:
                    n.arg = ren[n.arg]
            a = fd.args
            params = {x.arg for x in a.posonlyargs + a.args + a.kwonlyargs}
            pren = {c: o for c, o in ren.items() if o in params}
            fname = q.rpartition(".")[2]
            is_method = "." in q
            if pren:
                for n2, t in trees.items():
                    mods, _names = _module_aliases(t)
                    for c in ast.walk(t):
                        if not isinstance(c, ast.Call):
                            continue
                        f = c.func
                        hit = (isinstance(f, ast.Name) and f.id == fname and n2 == m and not is_method) or \
                            (isinstance(f, ast.Attribute) and f.attr == fname and (is_method or (isinstance(f.value, ast.Name) and mods.get(f.value.id) == m)))
                        if hit:
                            for kw in c.keywords:
                                if kw.arg in pren:
                                    kw.arg = pren[kw.arg]
            done.append(f"{m}.{q}: {', '.join(f'{c}->{o}' for c, o in sorted(ren.items()))}")
    return done


def _literal_value(e: ast.AST, known: T.Dict[str, T.Any]) -> T.Any:
    """Value of a literal expression: constants, + of strings, containers of literals, sep.join([...]), frozenset/tuple/set/list
    of a literal container, f-strings of literals, names of other new constants.  Raises ValueError otherwise."""
    if isinstance(e, ast.Constant) and isinstance(e.value, (str, int, bool, type(None), bytes)):
        return e.value
    if isinstance(e, ast.Name) and e.id in known:
        return known[e.id]
    if isinstance(e, ast.BinOp) and isinstance(e.op, ast.Add):
        l, r = _literal_value(e.left, known), _literal_value(e.right, known)
        if type(l) is type(r) and isinstance(l, (str, tuple, list)):
            return l + r
        raise ValueError
    if isinstance(e, ast.Tuple):
        return tuple(_literal_value(x, known) for x in e.elts)
    if isinstance(e, ast.List):
        return [_literal_value(x, known) for x in e.elts]
    if isinstance(e, ast.Set):
        return set(_literal_value(x, known) for x in e.elts)
    if isinstance(e, ast.JoinedStr):
        out = ""
        for v in e.values:
            if isinstance(v, ast.Constant):
                out += str(v.value)
            elif isinstance(v, ast.FormattedValue) and v.format_spec is None and v.conversion == -1:
                x = _literal_value(v.value, known)
                if not isinstance(x, str):
                    raise ValueError
                out += x
            else:
                raise ValueError
        return out
    if isinstance(e, ast.Call) and not e.keywords and len(e.args) == 1:
        if isinstance(e.func, ast.Attribute) and e.func.attr == "join":
            sep, items = _literal_value(e.func.value, known), _literal_value(e.args[0], known)
            if isinstance(sep, str) and isinstance(items, (list, tuple)) and all(isinstance(i, str) for i in items):
                return sep.join(items)
        if isinstance(e.func, ast.Name) and e.func.id in ("frozenset", "tuple", "set", "list"):
            v = _literal_value(e.args[0], known)
            if isinstance(v, (list, tuple, set)):
                return {"frozenset": frozenset, "tuple": tuple, "set": set, "list": list}[e.func.id](v)
    raise ValueError


def _literal_node(v: T.Any) -> ast.AST:
    if isinstance(v, (frozenset, set)):
        elts = sorted(v, key=repr)
        inner = ast.Set(elts=[_literal_node(x) for x in elts]) if elts else ast.Call(func=ast.Name(id="set", ctx=ast.Load()), args=[], keywords=[])
        return ast.Call(func=ast.Name(id="frozenset", ctx=ast.Load()), args=[inner], keywords=[]) if isinstance(v, frozenset) else inner
    if isinstance(v, tuple):
        return ast.Tuple(elts=[_literal_node(x) for x in v], ctx=ast.Load())
    if isinstance(v, list):
        return ast.List(elts=[_literal_node(x) for x in v], ctx=ast.Load())
    return ast.Constant(value=v)


def undo_const_renames(trees: T.Dict[str, ast.Module]) -> T.List[str]:
    """A module-level name of the pinned tree that vanished while exactly one new module-level name is bound to the same
    value expression was renamed: the old name is restored in the module (and for `module.NAME` uses elsewhere)."""
    done: T.List[str] = []
    for m, tree in trees.items():
        old_vals = baseline_const_values().get(m, {})
        if not old_vals:
            continue
        now: T.Dict[str, str] = {}
        for st in tree.body:
            if isinstance(st, (ast.Assign, ast.AnnAssign)) and getattr(st, "value", None) is not None:
                for t in (st.targets if isinstance(st, ast.Assign) else [st.target]):
                    if isinstance(t, ast.Name):
                        now[t.id] = ast.unparse(st.value)
        vanished = {k: v for k, v in old_vals.items() if k not in now}
        fresh = {k: v for k, v in now.items() if k not in old_vals}
        for old, val in sorted(vanished.items()):
            cands = [k for k, v in fresh.items() if v == val]
            if len(cands) != 1 or [k for k, v in vanished.items() if v == val] != [old]:
                continue
            new = cands[0]
            if any(isinstance(n, ast.arg) and n.arg in (new, old) for n in ast.walk(tree)):
                continue
            for n in ast.walk(tree):
                if isinstance(n, ast.Name) and n.id == new:
                    n.id = old
            for n2, t in trees.items():
                if n2 == m:
                    continue
                mods, _names = _module_aliases(t)
                for x in ast.walk(t):
                    if isinstance(x, ast.Attribute) and x.attr == new and isinstance(x.value, ast.Name) and mods.get(x.value.id) == m:
                        x.attr = old
            del fresh[new]
            done.append(f"{m}.{new} -> {old}")
    return done


def inline_new_constants(tree: ast.Module, m: str) -> T.List[str]:
    """A module-level name that the pinned tree does not have and that is bound once, to a literal, is a named constant
    introduced by a clean-up: its uses inside the module's functions are replaced by the literal."""
    import copy
    old = set(baseline_consts().get(m, []))
    bound: T.Dict[str, int] = {}
    for n in ast.walk(tree):
        if isinstance(n, ast.Name) and isinstance(n.ctx, (ast.Store, ast.Del)):
            bound[n.id] = bound.get(n.id, 0) + 1
        elif isinstance(n, ast.arg):
            bound[n.arg] = bound.get(n.arg, 0) + 1
        elif isinstance(n, (ast.Global, ast.Nonlocal)):
            for x in n.names:
                bound[x] = bound.get(x, 0) + 2
    known: T.Dict[str, T.Any] = {}
    for st in tree.body:
        tg = val = None
        if isinstance(st, ast.Assign) and len(st.targets) == 1:
            tg, val = st.targets[0], st.value
        elif isinstance(st, ast.AnnAssign) and st.value is not None:
            tg, val = st.target, st.value
        if isinstance(tg, ast.Name) and tg.id not in old and bound.get(tg.id) == 1:
            try:
                known[tg.id] = _literal_value(val, known)
            except ValueError:
                continue
    if not known:
        return []

    class Sub(ast.NodeTransformer):
        def visit_Name(self, node: ast.Name) -> ast.AST:
            if node.id in known and isinstance(node.ctx, ast.Load):
                return ast.copy_location(_literal_node(copy.deepcopy(known[node.id])), node)
            return node
    for i, st in enumerate(tree.body):
        if isinstance(st, (ast.FunctionDef, ast.AsyncFunctionDef, ast.ClassDef)):
            tree.body[i] = Sub().visit(st)
    ast.fix_missing_locations(tree)
    return sorted(known)


def expand_kwargs_splats(tree: ast.Module, unchanged: T.Optional[T.Set[int]] = None) -> int:
    """`f(a, **opts)` where `opts` is a local bound once to a dict display with constant string keys and never mutated or
    passed on otherwise: the call gets the explicit keywords (values are plain names / attributes / constants, so moving
    their evaluation to the call changes nothing).  `dict(k=v)` calls are displays already (canonical_dict_calls)."""
    import copy
    count = 0
    for fd in [n for n in ast.walk(tree) if isinstance(n, (ast.FunctionDef, ast.AsyncFunctionDef))]:
        if unchanged and id(fd) in unchanged:
            continue
        stores: T.Dict[str, int] = {}
        for n in ast.walk(fd):
            if isinstance(n, ast.Name) and isinstance(n.ctx, (ast.Store, ast.Del)):
                stores[n.id] = stores.get(n.id, 0) + 1
        tables: T.Dict[str, ast.Dict] = {}
        for n in ast.walk(fd):
            tg = val = None
            if isinstance(n, ast.Assign) and len(n.targets) == 1:
                tg, val = n.targets[0], n.value
            elif isinstance(n, ast.AnnAssign) and n.value is not None:
                tg, val = n.target, n.value
            if isinstance(tg, ast.Name) and isinstance(val, ast.Dict) and val.keys and stores.get(tg.id) == 1 \
                    and all(isinstance(k, ast.Constant) and isinstance(k.value, str) and k.value.isidentifier() for k in val.keys) \
                    and all(isinstance(v, (ast.Name, ast.Attribute, ast.Constant)) for v in val.values):
                tables[tg.id] = val
        for name, table in list(tables.items()):
            uses = [n for n in ast.walk(fd) if isinstance(n, ast.Name) and n.id == name and isinstance(n.ctx, ast.Load)]
            splats = [(c, k) for c in ast.walk(fd) if isinstance(c, ast.Call) for k in c.keywords if k.arg is None and isinstance(k.value, ast.Name) and k.value.id == name]
            # names read by the values must not be rebound between the table and the calls: require single assignment or parameters
            params = {a.arg for a in fd.args.posonlyargs + fd.args.args + fd.args.kwonlyargs}
            stable = all((not isinstance(v, ast.Name)) or v.id in params or stores.get(v.id, 0) <= 1 for v in table.values)
            if not splats or len(splats) != len(uses) or not stable:
                continue
            for c, k in splats:
                i = c.keywords.index(k)
                c.keywords[i:i + 1] = [ast.keyword(arg=key.value, value=copy.deepcopy(v)) for key, v in zip(table.keys, table.values)]
                count += 1
    if count:
        ast.fix_missing_locations(tree)
    return count


def expand_accumulated_replace(tree: ast.Module, unchanged: T.Optional[T.Set[int]] = None) -> int:
    """`opts = {}` ... `if c: opts['k'] = v` ... `[if opts:] x = x._replace(**opts)`  ==  `if c: x = x._replace(k=v)` at each
    store (a namedtuple's _replace is pure and x is not read in between): the per-option shape the rules know."""
    import copy
    count = 0
    for fd in [n for n in ast.walk(tree) if isinstance(n, (ast.FunctionDef, ast.AsyncFunctionDef))]:
        if unchanged and id(fd) in unchanged:
            continue
        body = fd.body
        for i, st in enumerate(body):
            tg = val = None
            if isinstance(st, ast.Assign) and len(st.targets) == 1:
                tg, val = st.targets[0], st.value
            elif isinstance(st, ast.AnnAssign) and st.value is not None:
                tg, val = st.target, st.value
            if not (isinstance(tg, ast.Name) and isinstance(val, ast.Dict) and not val.keys):
                continue
            d = tg.id
            # the final statement: x = x._replace(**d), possibly under `if d:`
            fin = None
            for j in range(i + 1, len(body)):
                cand = body[j]
                inner = cand.body[0] if isinstance(cand, ast.If) and isinstance(cand.test, ast.Name) and cand.test.id == d and len(cand.body) == 1 and not cand.orelse else cand
                if isinstance(inner, ast.Assign) and len(inner.targets) == 1 and isinstance(inner.targets[0], ast.Name) and isinstance(inner.value, ast.Call) \
                        and isinstance(inner.value.func, ast.Attribute) and inner.value.func.attr == "_replace" and isinstance(inner.value.func.value, ast.Name) \
                        and inner.value.func.value.id == inner.targets[0].id and not inner.value.args and len(inner.value.keywords) == 1 \
                        and inner.value.keywords[0].arg is None and isinstance(inner.value.keywords[0].value, ast.Name) and inner.value.keywords[0].value.id == d:
                    fin = (j, inner.targets[0].id)
                    break
            if fin is None:
                continue
            j, x = fin
            between = body[i + 1:j]
            stores = [n for b in between for n in ast.walk(b) if isinstance(n, ast.Assign) and len(n.targets) == 1 and isinstance(n.targets[0], ast.Subscript)
                      and isinstance(n.targets[0].value, ast.Name) and n.targets[0].value.id == d and isinstance(n.targets[0].slice, ast.Constant) and isinstance(n.targets[0].slice.value, str)]
            other_uses = [n for b in between for n in ast.walk(b) if isinstance(n, ast.Name) and n.id == d] 
            reads_x = [n for b in between for n in ast.walk(b) if isinstance(n, ast.Name) and n.id == x]
            uses_after = [n for b in body[j + 1:] for n in ast.walk(b) if isinstance(n, ast.Name) and n.id == d]
            if not stores or len(other_uses) != len(stores) or reads_x or uses_after:
                continue
            for n in stores:
                key = n.targets[0].slice.value
                n.targets = [ast.Name(id=x, ctx=ast.Store())]
                n.value = ast.Call(func=ast.Attribute(value=ast.Name(id=x, ctx=ast.Load()), attr="_replace", ctx=ast.Load()), args=[], keywords=[ast.keyword(arg=key, value=n.value)])
            del body[j]
            del body[i]
            ast.fix_missing_locations(fd)
            count += 1
            break
    return count


def expand_bool_returns(tree: ast.Module, unchanged: T.Optional[T.Set[int]] = None, only: T.Optional[T.Set[int]] = None) -> int:
    """In a changed function annotated `-> bool`, `return <condition>` (a comparison, and/or/not, or a flag local defined
    as one) becomes `if <condition>: return True` / `return False`: the exits the path-condition rules look for."""
    count = 0

    def is_cond(e: ast.AST, fd: ast.AST, depth: int = 0) -> bool:
        if isinstance(e, (ast.Compare,)):
            return True
        if isinstance(e, ast.UnaryOp) and isinstance(e.op, ast.Not):
            return True
        if isinstance(e, ast.BoolOp):
            return all(is_cond(v, fd, depth) or isinstance(v, ast.Name) for v in e.values)
        if isinstance(e, ast.Name) and depth < 2:
            defs = [n.value for n in ast.walk(fd) if isinstance(n, ast.Assign) and len(n.targets) == 1 and isinstance(n.targets[0], ast.Name) and n.targets[0].id == e.id]
            return len(defs) == 1 and is_cond(defs[0], fd, depth + 1)
        return False

    def visit_block(stmts: T.List[ast.stmt], fd: ast.AST) -> None:
        nonlocal count
        i = 0
        while i < len(stmts):
            st = stmts[i]
            for fld in ("body", "orelse", "finalbody"):
                sub = getattr(st, fld, None)
                if isinstance(sub, list) and sub and isinstance(sub[0], ast.stmt) and not isinstance(st, (ast.FunctionDef, ast.AsyncFunctionDef, ast.ClassDef)):
                    visit_block(sub, fd)
            for h in getattr(st, "handlers", []) or []:
                visit_block(h.body, fd)
            if isinstance(st, ast.Return) and st.value is not None and not isinstance(st.value, ast.Constant) and is_cond(st.value, fd):
                new_if = ast.If(test=st.value, body=[ast.Return(value=ast.Constant(value=True))], orelse=[])
                ast.copy_location(new_if, st)
                tail = ast.Return(value=ast.Constant(value=False))
                ast.copy_location(tail, st)
                stmts[i:i + 1] = [ast.fix_missing_locations(new_if), ast.fix_missing_locations(tail)]
                count += 1
                i += 2
                continue
            i += 1
    for fd in [n for n in ast.walk(tree) if isinstance(n, (ast.FunctionDef, ast.AsyncFunctionDef))]:
        if unchanged and id(fd) in unchanged:
            continue
        if only is not None and id(fd) not in only:
            continue          # a helper the pinned tree does not have is expanded at its call sites as it stands
        if fd.returns is None or ast.unparse(fd.returns) != "bool":
            continue
        visit_block(fd.body, fd)
    return count


def unroll_literal_loops(tree: ast.Module, unchanged: T.Optional[T.Set[int]] = None) -> int:
    """`for x in ("a", "b"): ...` over a short literal of constants, in a function that differs from the pinned one:
    a first-match loop (`if test(x): ...; break`, optional `else`) becomes an if/elif chain, a loop without break/continue
    becomes one copy of its body per element."""
    import copy
    count = 0

    def subst(stmts: T.List[ast.stmt], name: T.Any, const: T.Any) -> T.List[ast.stmt]:
        table = {name: const} if isinstance(name, str) else dict(zip(name, const.elts))

        class Sub(ast.NodeTransformer):
            def visit_Name(self, node: ast.Name) -> ast.AST:
                if node.id in table and isinstance(node.ctx, ast.Load):
                    return ast.copy_location(ast.Constant(value=table[node.id].value), node)
                return node
        return [ast.fix_missing_locations(Sub().visit(copy.deepcopy(st))) for st in stmts]

    # module-level single-assignment tables of constants (or of tuples of constants): `for a, b in _TABLE:` unrolls like a literal
    mod_tables: T.Dict[str, ast.AST] = {}
    n_assigned: T.Dict[str, int] = {}
    for st_ in tree.body:
        tg_ = st_.targets[0] if isinstance(st_, ast.Assign) and len(st_.targets) == 1 else (st_.target if isinstance(st_, ast.AnnAssign) and st_.value is not None else None)
        if isinstance(tg_, ast.Name):
            n_assigned[tg_.id] = n_assigned.get(tg_.id, 0) + 1
            if isinstance(st_.value, (ast.Tuple, ast.List)):
                mod_tables[tg_.id] = st_.value
    mod_tables = {k: v for k, v in mod_tables.items() if n_assigned.get(k) == 1}

    def literal_of(it: ast.AST, target: ast.AST) -> T.Optional[ast.AST]:
        # a named table only for `for a, b in _TABLE:` (rows of constants); a flag loop over a named list of plain constants
        # (`for fn in SUPPORTED_CONFIGS: if ...: found = True; break`) is an idiom the rules read as it stands
        if isinstance(it, ast.Name) and it.id in mod_tables and isinstance(target, ast.Tuple):
            return mod_tables[it.id]
        return it if isinstance(it, (ast.Tuple, ast.List)) else None

    def elements_fit(target: ast.AST, lit: ast.AST) -> bool:
        if isinstance(target, ast.Name):
            return all(isinstance(e, ast.Constant) for e in lit.elts)
        if isinstance(target, ast.Tuple) and all(isinstance(t_, ast.Name) for t_ in target.elts):
            return all(isinstance(e, ast.Tuple) and len(e.elts) == len(target.elts) and all(isinstance(x, ast.Constant) for x in e.elts) for e in lit.elts)
        return False

    def own_jumps(stmts: T.List[ast.stmt]) -> bool:
        stack = list(stmts)
        while stack:
            n = stack.pop()
            if isinstance(n, (ast.Break, ast.Continue)):
                return True
            if isinstance(n, (ast.For, ast.While, ast.FunctionDef, ast.AsyncFunctionDef, ast.ClassDef)):
                continue
            stack.extend(ast.iter_child_nodes(n))
        return False

    def visit_block(stmts: T.List[ast.stmt]) -> None:
        nonlocal count
        i = 0
        while i < len(stmts):
            st = stmts[i]
            for fld in ("body", "orelse", "finalbody"):
                sub = getattr(st, fld, None)
                if isinstance(sub, list) and sub and isinstance(sub[0], ast.stmt):
                    visit_block(sub)
            for h in getattr(st, "handlers", []) or []:
                visit_block(h.body)
            lit = literal_of(st.iter, st.target) if isinstance(st, ast.For) else None
            tnames = ([st.target.id] if isinstance(st.target, ast.Name) else [t_.id for t_ in st.target.elts if isinstance(t_, ast.Name)]) if isinstance(st, ast.For) and isinstance(st.target, (ast.Name, ast.Tuple)) else []
            if isinstance(st, ast.For) and lit is not None and 1 <= len(lit.elts) <= 6 and elements_fit(st.target, lit) \
                    and not any(isinstance(x, ast.Name) and x.id in tnames and isinstance(x.ctx, ast.Store) for b in st.body for x in ast.walk(b)):
                name = st.target.id if isinstance(st.target, ast.Name) else tnames
                body = st.body
                st = copy.copy(st)
                st.iter = lit
                if len(body) == 1 and isinstance(body[0], ast.If) and not body[0].orelse and body[0].body and isinstance(body[0].body[-1], ast.Break) \
                        and not own_jumps(body[0].body[:-1]):
                    chain: T.List[ast.stmt] = list(st.orelse)
                    for e in reversed(st.iter.elts):
                        t_, = subst([ast.Expr(value=body[0].test)], name, e)
                        new_if = ast.If(test=t_.value, body=subst(body[0].body[:-1], name, e) or [ast.Pass()], orelse=chain)
                        ast.copy_location(new_if, st)
                        chain = [ast.fix_missing_locations(new_if)]
                    stmts[i:i + 1] = chain
                    count += 1
                    i += len(chain)
                    continue
                if not st.orelse and not own_jumps(body):
                    new: T.List[ast.stmt] = []
                    for e in st.iter.elts:
                        new += subst(body, name, e)
                    stmts[i:i + 1] = new
                    count += 1
                    i += len(new)
                    continue
            i += 1
    for fd in [n for n in ast.walk(tree) if isinstance(n, (ast.FunctionDef, ast.AsyncFunctionDef))]:
        if unchanged and id(fd) in unchanged:
            continue
        visit_block(fd.body)
    return count


def merge_inplace_sorts(tree: ast.Module, unchanged: T.Optional[T.Set[int]] = None) -> int:
    """`L.sort(<keywords>)` directly followed by `for ... in L:` (L a local list that is not read after that loop), in a
    function that differs from the pinned one, is `for ... in sorted(L, <keywords>):`."""
    count = 0
    for fd in [n for n in ast.walk(tree) if isinstance(n, (ast.FunctionDef, ast.AsyncFunctionDef))]:
        if unchanged and id(fd) in unchanged:
            continue
        params = {a.arg for a in fd.args.args + fd.args.kwonlyargs}

        def visit_block(stmts: T.List[ast.stmt]) -> None:
            nonlocal count
            i = 0
            while i < len(stmts):
                st = stmts[i]
                for fld in ("body", "orelse", "finalbody"):
                    sub = getattr(st, fld, None)
                    if isinstance(sub, list) and sub and isinstance(sub[0], ast.stmt):
                        visit_block(sub)
                for h in getattr(st, "handlers", []) or []:
                    visit_block(h.body)
                if isinstance(st, ast.Expr) and isinstance(st.value, ast.Call) and isinstance(st.value.func, ast.Attribute) and st.value.func.attr == "sort" \
                        and isinstance(st.value.func.value, ast.Name) and not st.value.args and i + 1 < len(stmts):
                    name = st.value.func.value.id
                    nxt = stmts[i + 1]
                    later = [x for r_ in stmts[i + 2:] for x in ast.walk(r_) if isinstance(x, ast.Name) and x.id == name]
                    inside = [x for b_ in nxt.body for x in ast.walk(b_) if isinstance(x, ast.Name) and x.id == name] if isinstance(nxt, ast.For) else [None]
                    if isinstance(nxt, ast.For) and isinstance(nxt.iter, ast.Name) and nxt.iter.id == name and not later and not inside and name not in params:
                        nxt.iter = ast.copy_location(ast.Call(func=ast.Name(id="sorted", ctx=ast.Load()), args=[ast.Name(id=name, ctx=ast.Load())], keywords=st.value.keywords), nxt.iter)
                        ast.fix_missing_locations(nxt)
                        del stmts[i]
                        count += 1
                        continue
                i += 1
        visit_block(fd.body)
    return count


def split_compare_chains(tree: ast.Module, unchanged: T.Optional[T.Set[int]] = None) -> int:
    """`0 < a == b` in a function that differs from the pinned one becomes `0 < a and a == b`: the shared operand is a name,
    an attribute of a name or a constant, so evaluating it twice changes nothing."""
    import copy
    count = 0

    def pure(e: ast.AST) -> bool:
        return isinstance(e, (ast.Name, ast.Constant)) or (isinstance(e, ast.Attribute) and pure(e.value))

    class Split(ast.NodeTransformer):
        def visit_Compare(self, node: ast.Compare) -> ast.AST:
            nonlocal count
            self.generic_visit(node)
            if len(node.ops) < 2 or not all(pure(c) for c in node.comparators[:-1]):
                return node
            parts: T.List[ast.expr] = []
            left = node.left
            for op, right in zip(node.ops, node.comparators):
                parts.append(ast.Compare(left=copy.deepcopy(left), ops=[op], comparators=[copy.deepcopy(right)]))
                left = right
            count += 1
            return ast.fix_missing_locations(ast.copy_location(ast.BoolOp(op=ast.And(), values=parts), node))
    for fd in [n for n in ast.walk(tree) if isinstance(n, (ast.FunctionDef, ast.AsyncFunctionDef))]:
        if unchanged and id(fd) in unchanged:
            continue
        Split().visit(fd)
    return count


def _is_ref(e: ast.AST) -> bool:
    """A reference to a module / function / attribute chain, or a tuple of such (no calls, no computations)."""
    if isinstance(e, ast.Name):
        return True
    if isinstance(e, ast.Attribute):
        return _is_ref(e.value)
    if isinstance(e, ast.Tuple):
        return all(_is_ref(x) for x in e.elts)
    return False


def has_ref_alias(fd: ast.AST) -> bool:
    """Does the function bind a local to one of several references (conditional expression, if/else, lookup table)?"""
    for n in ast.walk(fd):
        if isinstance(n, ast.Assign) and len(n.targets) == 1 and isinstance(n.targets[0], ast.Name):
            if isinstance(n.value, ast.IfExp) and _is_ref(n.value.body) and _is_ref(n.value.orelse):
                return True
            if isinstance(n.value, ast.Dict) and n.value.keys and all(isinstance(k, ast.Constant) for k in n.value.keys) and all(_is_ref(v) for v in n.value.values):
                return True
        if isinstance(n, ast.If) and len(n.body) == 1 and len(n.orelse) == 1 and all(
                isinstance(b_, ast.Assign) and len(b_.targets) == 1 and isinstance(b_.targets[0], ast.Name) and _is_ref(b_.value) for b_ in (n.body[0], n.orelse[0])) \
                and n.body[0].targets[0].id == n.orelse[0].targets[0].id:
            return True
    return False


def expand_table_dispatch(tree: ast.Module, unchanged: T.Optional[T.Set[int]] = None) -> int:
    """De-virtualise a local lookup table of references:

        impl = {True: (v2version, v2rewrite), False: (v1version, v1rewrite)}
        ...
        ver, rew = impl[bool(cond)]
        <rest of the block>

    becomes `if cond: <rest with ver, rew := v2version, v2rewrite> else: <rest with ...>`, so that calls through the table
    resolve to their targets.  Only when the table is a single-assignment local dict literal with constant keys and
    reference values, the bound names are assigned nowhere else and are not used outside the rest of the block."""
    import copy
    count = 0
    for fd in [n for n in ast.walk(tree) if isinstance(n, (ast.FunctionDef, ast.AsyncFunctionDef))]:
        if unchanged and id(fd) in unchanged:
            continue          # a function of the pinned tree, untouched: the rules were confirmed against this very shape
        tables: T.Dict[str, ast.Dict] = {}
        stores: T.Dict[str, int] = {}
        bare = {id(n.target) for n in ast.walk(fd) if isinstance(n, ast.AnnAssign) and n.value is None}
        for n in ast.walk(fd):
            if isinstance(n, ast.Name) and isinstance(n.ctx, ast.Store) and id(n) not in bare:
                stores[n.id] = stores.get(n.id, 0) + 1
        for n in ast.walk(fd):
            tg = val = None
            if isinstance(n, ast.Assign) and len(n.targets) == 1:
                tg, val = n.targets[0], n.value
            elif isinstance(n, ast.AnnAssign) and n.value is not None:
                tg, val = n.target, n.value
            if isinstance(tg, ast.Name) and isinstance(val, ast.Dict) and val.keys and all(isinstance(k, ast.Constant) for k in val.keys) \
                    and all(_is_ref(v) for v in val.values) and stores.get(tg.id) == 1:
                tables[tg.id] = val

        def visit_block(stmts: T.List[ast.stmt]) -> None:
            nonlocal count
            i = 0
            while i < len(stmts):
                st = stmts[i]
                hit = None
                if isinstance(st, ast.Assign) and len(st.targets) == 1 and isinstance(st.value, ast.Subscript) and isinstance(st.value.value, ast.Name) \
                        and st.value.value.id in tables and not isinstance(st.value.slice, ast.Slice):
                    tgt = st.targets[0]
                    names = [tgt.id] if isinstance(tgt, ast.Name) else ([e.id for e in tgt.elts] if isinstance(tgt, ast.Tuple) and all(isinstance(e, ast.Name) for e in tgt.elts) else None)
                    table = tables[st.value.value.id]
                    if names and all(stores.get(n_) == 1 for n_ in names) and \
                            all((isinstance(v, ast.Tuple) and len(v.elts) == len(names)) if isinstance(tgt, ast.Tuple) else True for v in table.values):
                        rest = stmts[i + 1:]
                        used_in_rest = sum(1 for r_ in rest for x in ast.walk(r_) if isinstance(x, ast.Name) and x.id in names)
                        used_total = sum(1 for x in ast.walk(fd) if isinstance(x, ast.Name) and x.id in names and isinstance(x.ctx, ast.Load))
                        if used_in_rest == used_total and rest:
                            hit = (names, table, st.value.slice, rest, isinstance(tgt, ast.Tuple))
                # `impl = A if cond else B` with references A, B, where impl is only called through: the same expansion,
                # over the shortest run of following statements that holds every use of impl
                st_tgt = st.targets[0] if isinstance(st, ast.Assign) and len(st.targets) == 1 else (st.target if isinstance(st, ast.AnnAssign) and st.value is not None else None)
                if hit is None and isinstance(st_tgt, ast.Name) and isinstance(st.value, ast.IfExp) \
                        and _is_ref(st.value.body) and _is_ref(st.value.orelse) and not isinstance(st.value.body, ast.Tuple) and stores.get(st_tgt.id) == 1:
                    nm = st_tgt.id
                    uses = [x for x in ast.walk(fd) if isinstance(x, ast.Name) and x.id == nm and isinstance(x.ctx, ast.Load)]
                    called = [x for x in ast.walk(fd) if (isinstance(x, ast.Call) and ((isinstance(x.func, ast.Name) and x.func.id == nm) or
                              (isinstance(x.func, ast.Attribute) and isinstance(x.func.value, ast.Name) and x.func.value.id == nm)))]
                    last = -1
                    for j, r_ in enumerate(stmts[i + 1:]):
                        if any(isinstance(x, ast.Name) and x.id == nm for x in ast.walk(r_)):
                            last = j
                    in_rest = sum(1 for r_ in stmts[i + 1:i + 2 + last] for x in ast.walk(r_) if isinstance(x, ast.Name) and x.id == nm and isinstance(x.ctx, ast.Load))
                    if uses and len(called) == len(uses) and last >= 0 and in_rest == len(uses):
                        fake = ast.Dict(keys=[ast.Constant(value=True), ast.Constant(value=False)], values=[st.value.body, st.value.orelse])
                        tail = stmts[i + 2 + last:]
                        del stmts[i + 2 + last:]
                        hit = ([nm], fake, ast.Call(func=ast.Name(id="bool", ctx=ast.Load()), args=[st.value.test], keywords=[]), stmts[i + 1:], False)
                        pending_tail = tail
                    else:
                        pending_tail = []
                else:
                    pending_tail = []
                # `if c: impl = A` / `else: impl = B` followed by calls through impl: the same expansion
                if hit is None and isinstance(st, ast.If) and len(st.body) == 1 and len(st.orelse) == 1 and all(
                        isinstance(b_, ast.Assign) and len(b_.targets) == 1 and isinstance(b_.targets[0], ast.Name) and _is_ref(b_.value) and not isinstance(b_.value, ast.Tuple)
                        for b_ in (st.body[0], st.orelse[0])) and st.body[0].targets[0].id == st.orelse[0].targets[0].id and stores.get(st.body[0].targets[0].id) == 2:
                    nm = st.body[0].targets[0].id
                    uses = [x for x in ast.walk(fd) if isinstance(x, ast.Name) and x.id == nm and isinstance(x.ctx, ast.Load)]
                    called = [x for x in ast.walk(fd) if (isinstance(x, ast.Call) and ((isinstance(x.func, ast.Name) and x.func.id == nm) or
                              (isinstance(x.func, ast.Attribute) and isinstance(x.func.value, ast.Name) and x.func.value.id == nm)))]
                    last = -1
                    for j, r_ in enumerate(stmts[i + 1:]):
                        if any(isinstance(x, ast.Name) and x.id == nm for x in ast.walk(r_)):
                            last = j
                    in_rest = sum(1 for r_ in stmts[i + 1:i + 2 + last] for x in ast.walk(r_) if isinstance(x, ast.Name) and x.id == nm and isinstance(x.ctx, ast.Load))
                    if uses and len(called) == len(uses) and last >= 0 and in_rest == len(uses):
                        fake = ast.Dict(keys=[ast.Constant(value=True), ast.Constant(value=False)], values=[st.body[0].value, st.orelse[0].value])
                        tail = stmts[i + 2 + last:]
                        del stmts[i + 2 + last:]
                        hit = ([nm], fake, ast.Call(func=ast.Name(id="bool", ctx=ast.Load()), args=[st.test], keywords=[]), stmts[i + 1:], False)
                        pending_tail = tail
                # `if c: ver, rew = A, B` / `else: ver, rew = C, D` followed by calls through ver / rew: the same expansion
                if hit is None and isinstance(st, ast.If) and len(st.body) == 1 and len(st.orelse) == 1 and all(
                        isinstance(b_, ast.Assign) and len(b_.targets) == 1 and isinstance(b_.targets[0], ast.Tuple) and isinstance(b_.value, ast.Tuple)
                        and len(b_.targets[0].elts) == len(b_.value.elts) and all(isinstance(e_, ast.Name) for e_ in b_.targets[0].elts) and all(_is_ref(v_) and not isinstance(v_, ast.Tuple) for v_ in b_.value.elts)
                        for b_ in (st.body[0], st.orelse[0])) and [e_.id for e_ in st.body[0].targets[0].elts] == [e_.id for e_ in st.orelse[0].targets[0].elts] \
                        and all(stores.get(e_.id) == 2 for e_ in st.body[0].targets[0].elts):
                    nms = [e_.id for e_ in st.body[0].targets[0].elts]
                    uses = [x for x in ast.walk(fd) if isinstance(x, ast.Name) and x.id in nms and isinstance(x.ctx, ast.Load)]
                    called = [x for x in ast.walk(fd) if (isinstance(x, ast.Call) and ((isinstance(x.func, ast.Name) and x.func.id in nms) or
                              (isinstance(x.func, ast.Attribute) and isinstance(x.func.value, ast.Name) and x.func.value.id in nms)))]
                    last = -1
                    for j, r_ in enumerate(stmts[i + 1:]):
                        if any(isinstance(x, ast.Name) and x.id in nms for x in ast.walk(r_)):
                            last = j
                    in_rest = sum(1 for r_ in stmts[i + 1:i + 2 + last] for x in ast.walk(r_) if isinstance(x, ast.Name) and x.id in nms and isinstance(x.ctx, ast.Load))
                    if uses and len(called) == len(uses) and last >= 0 and in_rest == len(uses):
                        fake = ast.Dict(keys=[ast.Constant(value=True), ast.Constant(value=False)], values=[st.body[0].value, st.orelse[0].value])
                        tail = stmts[i + 2 + last:]
                        del stmts[i + 2 + last:]
                        hit = (nms, fake, ast.Call(func=ast.Name(id="bool", ctx=ast.Load()), args=[st.test], keywords=[]), stmts[i + 1:], True)
                        pending_tail = tail
                if hit is None:
                    for fld in ("body", "orelse", "finalbody"):
                        sub = getattr(st, fld, None)
                        if isinstance(sub, list) and sub and isinstance(sub[0], ast.stmt):
                            visit_block(sub)
                    for h in getattr(st, "handlers", []) or []:
                        visit_block(h.body)
                    i += 1
                    continue
                names, table, key, rest, is_tuple = hit
                if isinstance(key, ast.Call) and isinstance(key.func, ast.Name) and key.func.id == "bool" and len(key.args) == 1 and not key.keywords:
                    key = key.args[0]
                    boolean = True
                else:
                    boolean = False
                keys = [k.value for k in table.keys]

                # locals bound in the duplicated part (and used nowhere else) get one name per branch: single assignment stays
                rest_ids = {id(x) for r_ in rest for x in ast.walk(r_)}
                bound_in_rest = {x.id for r_ in rest for x in ast.walk(r_) if isinstance(x, ast.Name) and isinstance(x.ctx, ast.Store)}
                private = {n_ for n_ in bound_in_rest if not any(isinstance(x, ast.Name) and x.id == n_ and id(x) not in rest_ids for x in ast.walk(fd))}
                branch_no = [0]

                def branch(val: ast.AST) -> T.List[ast.stmt]:
                    repl = dict(zip(names, val.elts)) if is_tuple else {names[0]: val}
                    branch_no[0] += 1
                    sfx = f"__b{branch_no[0]}"

                    class Sub(ast.NodeTransformer):
                        def visit_Name(self, node: ast.Name) -> ast.AST:
                            if node.id in repl and isinstance(node.ctx, ast.Load):
                                return ast.copy_location(copy.deepcopy(repl[node.id]), node)
                            if node.id in private:
                                return ast.copy_location(ast.Name(id=node.id + sfx, ctx=node.ctx), node)
                            return node
                    return [ast.fix_missing_locations(Sub().visit(copy.deepcopy(r_))) for r_ in rest]
                if set(keys) == {True, False} and all(isinstance(k, bool) for k in keys) and boolean:
                    vt = table.values[keys.index(True)]
                    vf = table.values[keys.index(False)]
                    new_if = ast.If(test=key, body=branch(vt), orelse=branch(vf))
                else:
                    new_if = None
                    for k, v in reversed(list(zip(table.keys, table.values))):
                        test = ast.Compare(left=copy.deepcopy(key), ops=[ast.Eq()], comparators=[copy.deepcopy(k)])
                        orelse = [new_if] if new_if is not None else [ast.Raise(exc=ast.Call(func=ast.Name(id="KeyError", ctx=ast.Load()), args=[copy.deepcopy(key)], keywords=[]), cause=None)]
                        new_if = ast.If(test=test, body=branch(v), orelse=orelse)
                ast.copy_location(new_if, st)
                ast.fix_missing_locations(new_if)
                stmts[i:] = [new_if] + pending_tail
                count += 1
                visit_block(new_if.body)
                visit_block(new_if.orelse)
                if pending_tail:
                    i += 1
                    continue
                return
        visit_block(fd.body)
    return count


def canonical_dict_calls(tree: ast.Module) -> int:
    """`dict(a=x, b=y)` (keywords only) is the display `{'a': x, 'b': y}`: same keys, same order, same values."""
    shadowed = any(isinstance(n, ast.Name) and n.id == "dict" and isinstance(n.ctx, ast.Store) for n in ast.walk(tree)) or \
        any(isinstance(n, ast.arg) and n.arg == "dict" for n in ast.walk(tree))
    if shadowed:
        return 0
    count = [0]

    class Tr(ast.NodeTransformer):
        def visit_Call(self, node: ast.Call) -> ast.AST:
            self.generic_visit(node)
            if isinstance(node.func, ast.Name) and node.func.id == "dict" and not node.args and node.keywords and all(k.arg is not None for k in node.keywords):
                count[0] += 1
                return ast.copy_location(ast.Dict(keys=[ast.copy_location(ast.Constant(value=k.arg), k.value) for k in node.keywords], values=[k.value for k in node.keywords]), node)
            return node
    Tr().visit(tree)
    if count[0]:
        ast.fix_missing_locations(tree)
    return count[0]


def constructor_to_replace(trees: T.Dict[str, ast.Module], tree: ast.Module, unchanged: T.Optional[T.Set[int]] = None) -> int:
    """`Cls(f1=x.f1, ..., fk=v, ..., fn=x.fn)` with every field of the NamedTuple `Cls` given by keyword and most of them copied
    from one record `x` is `x._replace(fk=v)` spelled out: rewritten to the `_replace` form the rules know (in functions whose
    body differs from the pinned tree only)."""
    records: T.Dict[str, T.List[str]] = {}
    for t in trees.values():
        for c in t.body:
            if isinstance(c, ast.ClassDef) and any(ast.unparse(b).endswith("NamedTuple") for b in c.bases):
                records[c.name] = [st.target.id for st in c.body if isinstance(st, ast.AnnAssign) and isinstance(st.target, ast.Name)]
    n = 0
    # return annotations of the program's functions (by bare name): evidence for the type of a local bound from a call
    returns: T.Dict[str, str] = {}
    for t in trees.values():
        for f in ast.walk(t):
            if isinstance(f, (ast.FunctionDef, ast.AsyncFunctionDef)) and f.returns is not None:
                returns.setdefault(f.name, ast.unparse(f.returns).split(".")[-1])

    def typed_names(fd: ast.AST) -> T.Dict[str, str]:
        out: T.Dict[str, str] = {}
        a = fd.args
        for p in a.posonlyargs + a.args + a.kwonlyargs:
            if p.annotation is not None:
                out[p.arg] = ast.unparse(p.annotation).split(".")[-1]
        for st in ast.walk(fd):
            if isinstance(st, ast.AnnAssign) and isinstance(st.target, ast.Name):
                out.setdefault(st.target.id, ast.unparse(st.annotation).split(".")[-1])
            elif isinstance(st, ast.Assign) and len(st.targets) == 1 and isinstance(st.targets[0], ast.Name) and isinstance(st.value, ast.Call):
                fname = st.value.func.attr if isinstance(st.value.func, ast.Attribute) else st.value.func.id if isinstance(st.value.func, ast.Name) else ""
                if fname in returns:
                    out.setdefault(st.targets[0].id, returns[fname])
                elif fname in records:
                    out.setdefault(st.targets[0].id, fname)
        return out

    class Tr(ast.NodeTransformer):
        def __init__(self, types: T.Dict[str, str]):
            self.types = types

        def visit_Call(self, call: ast.Call) -> ast.AST:
            nonlocal n
            self.generic_visit(call)
            name = call.func.attr if isinstance(call.func, ast.Attribute) else call.func.id if isinstance(call.func, ast.Name) else None
            fields = records.get(name or "")
            if not fields or any(isinstance(a, ast.Starred) for a in call.args) or any(k.arg is None for k in call.keywords) or len(call.args) > len(fields):
                return call
            kws = [ast.keyword(arg=f, value=a) for f, a in zip(fields, call.args)] + list(call.keywords)          # positional arguments are the leading fields
            if sorted(k.arg for k in kws) != sorted(fields):
                return call
            call = ast.copy_location(ast.Call(func=call.func, args=[], keywords=kws), call)
            src: T.Dict[str, int] = {}
            for k in call.keywords:
                if isinstance(k.value, ast.Attribute) and isinstance(k.value.value, ast.Name) and k.value.attr == k.arg:
                    src[k.value.value.id] = src.get(k.value.value.id, 0) + 1
            if not src:
                return call
            x, cnt = max(src.items(), key=lambda kv: kv[1])
            if cnt * 2 <= len(fields) or self.types.get(x) != name:
                return call          # (a record of another type with the same field names is not `x._replace(...)`)
            rest = [k for k in call.keywords if not (isinstance(k.value, ast.Attribute) and isinstance(k.value.value, ast.Name) and k.value.value.id == x and k.value.attr == k.arg)]
            n += 1
            return ast.copy_location(ast.Call(func=ast.Attribute(value=ast.Name(id=x, ctx=ast.Load()), attr="_replace", ctx=ast.Load()), args=[], keywords=rest), call)

    for fd in ast.walk(tree):
        if isinstance(fd, (ast.FunctionDef, ast.AsyncFunctionDef)) and not (unchanged and id(fd) in unchanged):
            fd.body = [Tr(typed_names(fd)).visit(st) for st in fd.body]
    if n:
        ast.fix_missing_locations(tree)
    return n


def normalise_program(trees: T.Dict[str, ast.Module]) -> T.Dict[str, int]:
    """Expand the new helpers of every module (also across sibling modules); returns expanded call sites per module."""
    out = {m: 0 for m in trees}
    if os.environ.get("VERIF_NO_NORMALISE"):
        return out
    LAST_RUN["const_renames_undone"] = undo_const_renames(trees)
    LAST_RUN["constants_inlined"] = [f"{m}.{c}" for m, t in trees.items() if baseline().get(m) for c in inline_new_constants(t, m)]
    LAST_RUN["dict_calls"] = sum(canonical_dict_calls(t) for m, t in trees.items() if baseline().get(m))
    LAST_RUN["renames_undone"] = undo_renames(trees)
    LAST_RUN["local_renames_undone"] = undo_local_renames(trees)
    n_disp = 0
    n_ctor = 0
    n_unrolled = 0
    n_splats = 0
    n_boolret = 0
    n_accrep = 0
    n_chains = 0
    n_sorts = 0
    for m, t in trees.items():
        known = baseline().get(m)
        if known:
            same = {id(fd) for q, fd in _qualnames(t).items() if known.get(q) and known[q] == body_hash(fd)}
            # a function that already chose between references on the pinned tree: the rules know that form
            same_disp = same | {id(fd) for q, fd in _qualnames(t).items() if q in baseline_ref_alias().get(m, [])}
            n_ctor += constructor_to_replace(trees, t, same)
            n_disp += expand_table_dispatch(t, same_disp)
            n_unrolled += unroll_literal_loops(t, same)
            n_splats += expand_kwargs_splats(t, same)
            n_boolret += expand_bool_returns(t, same, {id(fd) for q, fd in _qualnames(t).items() if q in known})
            n_accrep += expand_accumulated_replace(t, same)
            n_chains += split_compare_chains(t, same)
            n_sorts += merge_inplace_sorts(t, same)
    LAST_RUN["constructors_to_replace"] = n_ctor
    LAST_RUN["dispatch_expanded"] = n_disp
    LAST_RUN["literal_loops_unrolled"] = n_unrolled
    LAST_RUN["kwargs_splats_expanded"] = n_splats
    LAST_RUN["bool_returns_expanded"] = n_boolret
    LAST_RUN["accumulated_replace_expanded"] = n_accrep
    LAST_RUN["compare_chains_split"] = n_chains
    LAST_RUN["inplace_sorts_merged"] = n_sorts
    inliners: T.Dict[str, Inliner] = {}
    for m, tree in trees.items():
        known = dict(baseline().get(m, {}))
        if known:            # a module the pinned tree does not have: nothing is known about its decomposition
            inliners[m] = Inliner(tree, m, known)
            inliners[m].discover()
    # helpers of one module that are called from a sibling
    for m, inl in inliners.items():
        for name, fd in inl.funcs.items():
            for n, other in inliners.items():
                if n == m:
                    continue
                mods, names = _module_aliases(other.tree)
                for alias, target in mods.items():
                    if target == m and any(isinstance(c, ast.Attribute) and c.attr == name and isinstance(c.value, ast.Name) and c.value.id == alias for c in ast.walk(other.tree)):
                        ad = _adapt_for(fd, inl.tree, other.tree, alias, m)
                        if ad is not None:
                            other.external[(alias, name)] = ad
                for local, (target, orig) in names.items():
                    if target == m and orig == name:
                        ad = _adapt_for(fd, inl.tree, other.tree, next((a for a, t in mods.items() if t == m), None), m)
                        if ad is not None:
                            other.external_names[local] = ad

    def foreign(m: str) -> T.Callable[[str], int]:
        def count(name: str) -> int:
            k = 0
            for n, tree in trees.items():
                if n == m:
                    continue
                mods, names = _module_aliases(tree)
                imported_here = any(t == (m, name) for t in names.values())
                for x in ast.walk(tree):
                    if isinstance(x, ast.Attribute) and x.attr == name:
                        # `other_module.name` is a different function; `m_alias.name` or an unknown receiver counts
                        if isinstance(x.value, ast.Name) and x.value.id in mods and mods[x.value.id] != m:
                            continue
                        k += 1
                    elif isinstance(x, ast.Name) and x.id == name and imported_here:
                        k += 1
                    elif isinstance(x, ast.Constant) and x.value == name:
                        k += 1
            return k
        return count
    # expand everywhere first, drop afterwards (a helper of m may only be referenced from its siblings)
    for m, inl in inliners.items():
        inl.foreign_refs = lambda name: 1            # nothing is dropped in the first pass
        try:
            trees[m] = inl.run()
        except RecursionError:
            continue
        out[m] = inl.expanded
    LAST_RUN["dropped"] = []
    for m, inl in inliners.items():
        inl.foreign_refs = foreign(m)
        inl._drop_unreferenced()
        ast.fix_missing_locations(inl.tree)
        LAST_RUN["dropped"] += [f"{m}.{d}" for d in inl.dropped]
    return out


def normalise_module(tree: ast.Module, modname: str) -> T.Tuple[ast.Module, int]:
    """Expand new helpers of `modname`; returns (tree, number of expanded call sites)."""
    if os.environ.get("VERIF_NO_NORMALISE"):
        return tree, 0
    known = dict(baseline().get(modname, {}))
    if not known:
        return tree, 0          # a module the pinned tree does not have: nothing is known about its decomposition
    inl = Inliner(tree, modname, known)
    try:
        new = inl.run()
    except RecursionError:
        return tree, 0
    return new, inl.expanded
