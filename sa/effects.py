"""E2 - primitive effects at call sites, call graph, transitive summaries."""
from __future__ import annotations

import ast
import typing as T

from .model import (AnalysisError, ClassInfo, FunctionInfo, Program, Target, call_arg,
                    const_str, unparse, walk_no_nested)

VCS_MUTATING = {"add_path", "commit", "tag", "tag_light", "push", "push_tag"}
VCS_FETCHING = {"fetch"}
VCS_READING = {"is_usable", "ls_tags", "ls_tags_branch", "status", "show_remotes", "ls_branches"}

FS_WRITE_FUNCS = {
    "os.unlink", "os.remove", "os.rename", "os.replace", "os.rmdir", "os.removedirs", "os.mkdir",
    "os.makedirs", "os.truncate", "os.chmod", "os.chown", "os.symlink", "os.link", "os.write",
    "shutil.copy", "shutil.copy2", "shutil.copyfile", "shutil.move", "shutil.rmtree", "shutil.copytree",
}
FS_WRITE_METHODS = {"write_text", "write_bytes", "unlink", "rename", "replace", "touch", "mkdir", "rmdir",
                    "symlink_to", "hardlink_to", "chmod", "truncate"}
TEMP_FUNCS = {"tempfile.NamedTemporaryFile", "tempfile.mkstemp", "tempfile.mkdtemp", "tempfile.TemporaryFile",
              "tempfile.TemporaryDirectory", "tempfile.SpooledTemporaryFile"}
PROC_FUNCS = {"subprocess.Popen", "subprocess.call", "subprocess.check_call", "subprocess.check_output",
              "subprocess.run", "subprocess.getoutput", "subprocess.getstatusoutput",
              "os.system", "os.popen", "os.execv", "os.execvp", "os.execve", "os.spawnv", "os.spawnvp",
              "os.startfile"}
LOG_METHODS = {"debug", "info", "warning", "warn", "error", "exception", "critical", "log"}


class Site:
    """A primitive-effect site or a call to an internal function."""

    def __init__(self, fn: FunctionInfo, node: ast.AST, effect: str, detail: T.Dict[str, T.Any]):
        self.fn = fn
        self.node = node
        self.effect = effect
        self.detail = detail

    @property
    def loc(self) -> str:
        return self.fn.loc(self.node)

    def __repr__(self) -> str:
        return f"<{self.effect} @ {self.fn.fq}:{getattr(self.node, 'lineno', 0)}>"


def open_mode(call: ast.Call, is_method: bool) -> T.Tuple[T.Optional[str], T.Optional[ast.AST]]:
    """Constant mode string of an open()/x.open() call ('r' default), or (None, expr)."""
    mode_node: T.Optional[ast.AST] = None
    for kw in call.keywords:
        if kw.arg == "mode":
            mode_node = kw.value
    if mode_node is None:
        idx = 0 if is_method else 1
        if len(call.args) > idx:
            mode_node = call.args[idx]
    if mode_node is None:
        return "r", None
    s = const_str(mode_node)
    return s, mode_node


class Effects:
    def __init__(self, prog: Program):
        self.prog = prog
        self.sites: T.Dict[str, T.List[Site]] = {}          # fn.fq -> primitive sites
        self.calls: T.Dict[str, T.List[T.Tuple[ast.AST, FunctionInfo]]] = {}   # fn.fq -> (node, callee)
        self.opaque_calls: T.Dict[str, T.List[T.Tuple[ast.AST, FunctionInfo]]] = {}
        self.summary: T.Dict[str, T.Dict[str, T.List[str]]] = {}  # fn.fq -> effect -> witness chain
        self.n_calls = 0
        for fn in prog.all_functions():
            self._scan(fn)
        self._propagate()

    # -------------------------------------------------------------- scanning
    def _scan(self, fn: FunctionInfo) -> None:
        prog = self.prog
        types = prog.local_types(fn)
        sites: T.List[Site] = []
        calls: T.List[T.Tuple[ast.AST, FunctionInfo]] = []
        opaque: T.List[T.Tuple[ast.AST, FunctionInfo]] = []
        call_funcs = set()
        for n in walk_no_nested(fn.node):
            if isinstance(n, ast.Call):
                call_funcs.add(id(n.func))
                self.n_calls += 1
                t = prog.resolve_call(fn, n, types)
                self._classify(fn, n, t, types, sites, calls, opaque)
            elif isinstance(n, ast.Raise):
                exc = n.exc
                name = "<reraise>" if exc is None else unparse(exc.func if isinstance(exc, ast.Call) else exc)
                sites.append(Site(fn, n, f"RAISE:{name.split('.')[-1]}", {}))
        # property accesses and function references (may-call edges)
        for n in walk_no_nested(fn.node):
            if isinstance(n, ast.Attribute) and id(n) not in call_funcs:
                t = prog.resolve_name(fn.module, n, fn, types)
                if t.kind == "func" and t.fn is not None:
                    calls.append((n, t.fn))
            elif isinstance(n, ast.Name) and id(n) not in call_funcs and isinstance(n.ctx, ast.Load):
                if n.id in fn.module.functions and n.id not in types:
                    calls.append((n, fn.module.functions[n.id]))
        self.sites[fn.fq] = sites
        self.calls[fn.fq] = calls
        self.opaque_calls[fn.fq] = opaque

    def _classify(self, fn: FunctionInfo, call: ast.Call, t: Target, types: T.Dict[str, ClassInfo],
                  sites: T.List[Site], calls: T.List[T.Tuple[ast.AST, FunctionInfo]],
                  opaque: T.List[T.Tuple[ast.AST, FunctionInfo]]) -> None:
        name = t.name
        if t.kind == "func" and t.fn is not None:
            if t.fn.fq == "vcs.VCSAPI.__call__":
                alts = _const_alternatives(fn, call_arg(call, t.fn, "cmd_name"), prog=self.prog)
                if not alts:
                    sites.append(Site(fn, call, "VCS_UNKNOWN", {"cmd": None}))
                for cmd in alts or []:
                    extra = {"alternatives": alts} if len(alts) > 1 else {}
                    if cmd in VCS_MUTATING:
                        sites.append(Site(fn, call, f"VCS_MUTATE:{cmd}", dict({"cmd": cmd}, **extra)))
                    elif cmd in VCS_FETCHING:
                        sites.append(Site(fn, call, f"VCS_FETCH:{cmd}", dict({"cmd": cmd}, **extra)))
                    elif cmd in VCS_READING:
                        sites.append(Site(fn, call, f"VCS_READ:{cmd}", dict({"cmd": cmd}, **extra)))
                    else:
                        sites.append(Site(fn, call, "VCS_UNKNOWN", dict({"cmd": cmd}, **extra)))
                opaque.append((call, t.fn))
                return
            if t.fn.fq == "hooks.run":
                sites.append(Site(fn, call, "HOOK", {}))
                opaque.append((call, t.fn))
                return
            calls.append((call, t.fn))
            return
        if t.kind == "class" and t.cls is not None:
            if t.fn is not None:
                calls.append((call, t.fn))
            return
        if t.kind == "ext":
            if name in ("sys.exit", "os._exit"):
                code: T.Any = 0
                if call.args:
                    code = call.args[0].value if isinstance(call.args[0], ast.Constant) else "?"
                sites.append(Site(fn, call, f"EXIT:{code}", {"code": code}))
                return
            if name in ("io.open", "codecs.open", "os.open", "os.fdopen"):
                self._open_site(fn, call, False, sites)
                return
            if name in FS_WRITE_FUNCS:
                sites.append(Site(fn, call, "FS_WRITE", {"via": name}))
                return
            if name in TEMP_FUNCS:
                sites.append(Site(fn, call, "FS_WRITE", {"via": name, "temp": True}))
                return
            if name in PROC_FUNCS:
                # command taken from the VCS sub-command table?
                cmd = self._subcommand_key(fn, call)
                if cmd is not None and cmd in VCS_READING:
                    sites.append(Site(fn, call, f"VCS_READ:{cmd}", {"cmd": cmd, "direct": True}))
                elif cmd is not None and cmd in VCS_MUTATING:
                    sites.append(Site(fn, call, f"VCS_MUTATE:{cmd}", {"cmd": cmd, "direct": True}))
                elif cmd is not None and cmd in VCS_FETCHING:
                    sites.append(Site(fn, call, f"VCS_FETCH:{cmd}", {"cmd": cmd, "direct": True}))
                else:
                    sites.append(Site(fn, call, "PROC", {"via": name}))
                return
            if name == "click.echo":
                sites.append(Site(fn, call, "ECHO", {}))
                return
            return
        if t.kind == "builtin":
            if name == "open":
                self._open_site(fn, call, False, sites)
            elif name == "print":
                sites.append(Site(fn, call, "ECHO", {}))
            elif name in ("exit", "quit"):
                sites.append(Site(fn, call, "EXIT:?", {"code": "?"}))
            elif name in ("eval", "exec", "__import__"):
                sites.append(Site(fn, call, "DYNAMIC", {"via": name}))
            return
        if t.kind == "method":
            if name == "open":
                self._open_site(fn, call, True, sites)
            elif name in ("read_text", "read_bytes") and not call.args:
                # pathlib: read_text(encoding=..) == open(mode='r', newline=None, encoding=..).read()
                sites.append(Site(fn, call, "FS_READ", {"via": name, "mode": "rt" if name == "read_text" else "rb"}))
            elif name in FS_WRITE_METHODS and not _is_str_method_ctx(call, name):
                sites.append(Site(fn, call, "FS_WRITE", {"via": "." + name}))
            elif name in LOG_METHODS and isinstance(call.func, ast.Attribute) and unparse(call.func.value) in ("logger", "logging"):
                sites.append(Site(fn, call, "LOG", {"level": name}))
            return

    def _open_site(self, fn: FunctionInfo, call: ast.Call, is_method: bool, sites: T.List[Site]) -> None:
        mode, node = open_mode(call, is_method)
        if mode is None:
            sites.append(Site(fn, call, "FS_WRITE", {"via": "open", "mode": None}))
        elif any(c in mode for c in "wax+"):
            sites.append(Site(fn, call, "FS_WRITE", {"via": "open", "mode": mode}))
        else:
            sites.append(Site(fn, call, "FS_READ", {"via": "open", "mode": mode}))

    def _subcommand_key(self, fn: FunctionInfo, call: ast.Call) -> T.Optional[str]:
        """`sp.call(cmd)` where cmd = self.subcommands['<key>'].split() -> '<key>'."""
        if not call.args:
            return None
        arg = call.args[0]
        exprs = [arg]
        if isinstance(arg, ast.Name):
            for n in walk_no_nested(fn.node):
                if isinstance(n, ast.Assign) and any(isinstance(t, ast.Name) and t.id == arg.id for t in n.targets):
                    exprs.append(n.value)
        keys = set()
        for e in exprs[1:] if len(exprs) > 1 else exprs:
            for sub in ast.walk(e):
                if isinstance(sub, ast.Subscript) and unparse(sub.value) == "self.subcommands":
                    k = const_str(sub.slice)
                    if k:
                        keys.add(k)
        if len(keys) == 1 and len(exprs) <= 2:
            return keys.pop()
        return None

    # -------------------------------------------------------------- summaries
    def _propagate(self) -> None:
        summ: T.Dict[str, T.Dict[str, T.List[str]]] = {}
        for fq, sites in self.sites.items():
            d: T.Dict[str, T.List[str]] = {}
            for s in sites:
                d.setdefault(s.effect, [f"{fq}:{getattr(s.node, 'lineno', 0)}"])
            summ[fq] = d
        changed = True
        while changed:
            changed = False
            for fq, calls in self.calls.items():
                d = summ[fq]
                for node, callee in calls:
                    for eff, chain in summ.get(callee.fq, {}).items():
                        if eff not in d:
                            d[eff] = [f"{fq}:{getattr(node, 'lineno', 0)}"] + chain
                            changed = True
                for node, callee in self.opaque_calls[fq]:
                    # only process-exit effects leak through opaque (VCS/hook) calls
                    for eff, chain in summ.get(callee.fq, {}).items():
                        if eff.startswith("EXIT") and eff not in d:
                            d[eff] = [f"{fq}:{getattr(node, 'lineno', 0)}"] + chain
                            changed = True
        self.summary = summ

    def effects_of(self, fq: str) -> T.Dict[str, T.List[str]]:
        if fq not in self.summary:
            raise AnalysisError(f"no summary for {fq}")
        return self.summary[fq]

    def has(self, fq: str, prefix: str) -> T.List[T.Tuple[str, T.List[str]]]:
        return [(e, c) for e, c in self.effects_of(fq).items() if e == prefix or e.startswith(prefix + ":") or e.startswith(prefix)]

    def node_effects(self, fn: FunctionInfo, root: ast.AST) -> T.Dict[str, T.List[str]]:
        """Transitive effects of everything called inside the AST subtree `root` of fn."""
        ids = set(id(n) for n in ast.walk(root))
        out: T.Dict[str, T.List[str]] = {}
        for s in self.sites[fn.fq]:
            if id(s.node) in ids:
                out.setdefault(s.effect, [s.loc])
        for node, callee in self.calls[fn.fq]:
            if id(node) in ids:
                for eff, chain in self.summary.get(callee.fq, {}).items():
                    out.setdefault(eff, [f"{fn.fq}:{getattr(node, 'lineno', 0)}"] + chain)
        for node, callee in self.opaque_calls[fn.fq]:
            if id(node) in ids:
                for eff, chain in self.summary.get(callee.fq, {}).items():
                    if eff.startswith("EXIT"):
                        out.setdefault(eff, [f"{fn.fq}:{getattr(node, 'lineno', 0)}"] + chain)
        return out

    def reachable_functions(self, roots: T.Iterable[str]) -> T.Set[str]:
        seen = set()
        stack = list(roots)
        while stack:
            fq = stack.pop()
            if fq in seen:
                continue
            seen.add(fq)
            for _, callee in self.calls.get(fq, []) + self.opaque_calls.get(fq, []):
                stack.append(callee.fq)
        return seen

    def all_sites(self, prefix: str) -> T.List[Site]:
        out = []
        for sites in self.sites.values():
            out.extend(s for s in sites if s.effect.startswith(prefix))
        return out


def _const_alternatives(fn: FunctionInfo, e: T.Optional[ast.AST], depth: int = 0, prog: T.Optional[Program] = None) -> T.Optional[T.List[str]]:
    """The string constants an expression can denote: a literal, a conditional expression of such, or a local that is
    assigned exactly once to such.  None when it is anything else."""
    if e is None or depth > 4:
        return None
    c = const_str(e)
    if c is not None:
        return [c]
    if isinstance(e, ast.IfExp):
        a, b = _const_alternatives(fn, e.body, depth + 1, prog), _const_alternatives(fn, e.orelse, depth + 1, prog)
        return None if a is None or b is None else a + [x for x in b if x not in a]
    if isinstance(e, ast.Name):
        defs = []
        for n in walk_no_nested(fn.node):
            if isinstance(n, ast.Assign) and any(isinstance(t, ast.Name) and t.id == e.id for t in n.targets):
                defs.append(n.value)
            elif isinstance(n, ast.AnnAssign) and isinstance(n.target, ast.Name) and n.target.id == e.id and n.value is not None:
                defs.append(n.value)
            elif isinstance(n, (ast.AugAssign, ast.For, ast.NamedExpr)) and any(isinstance(x, ast.Name) and x.id == e.id and isinstance(x.ctx, ast.Store) for x in ast.walk(n.target)):
                return None
        if e.id not in fn.all_params and not defs and prog is not None:
            # a module-level named constant (also imported): its folded value
            try:
                v = prog.fold(fn.module, e)
            except AnalysisError:
                v = None
            if isinstance(v, str):
                return [v]
        if e.id in fn.all_params or not defs:
            return None
        out: T.List[str] = []
        for d in defs:
            alt = _const_alternatives(fn, d, depth + 1, prog)
            if alt is None:
                return None
            out += [x for x in alt if x not in out]
        return out
    return None


def _is_str_method_ctx(call: ast.Call, name: str) -> bool:
    """`x.replace(a, b)` / `x.rename` on strings: str.replace takes 2+ args; Path.replace takes 1."""
    if name == "replace":
        return len(call.args) >= 2
    return False
