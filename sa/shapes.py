"""E5 - small shape matchers shared by the checks."""
from __future__ import annotations

import ast
import typing as T

from .cfg import CFG, exc_ancestors, exc_tail, handler_can_catch
from .effects import Effects
from .model import AnalysisError, FunctionInfo, Program, call_arg, const_str, unparse, walk_no_nested

MATERIALISERS = {"list", "tuple", "sorted", "set", "frozenset", "dict", "sum", "max", "min", "any", "all", "len"}
LAZY_WRAPPERS = {"enumerate", "zip", "map", "filter", "iter", "reversed"}


# --------------------------------------------------------------------------- defs
def local_defs(fn: FunctionInfo, name: str) -> T.List[T.Tuple[ast.AST, T.Optional[ast.AST]]]:
    """All (statement, value expression or None) that bind `name` in fn (flow-insensitive)."""
    out: T.List[T.Tuple[ast.AST, T.Optional[ast.AST]]] = []
    for n in walk_no_nested(fn.node):
        if isinstance(n, ast.Assign):
            for t in n.targets:
                if isinstance(t, ast.Name) and t.id == name:
                    out.append((n, n.value))
                elif isinstance(t, (ast.Tuple, ast.List)):
                    for i, e in enumerate(t.elts):
                        if isinstance(e, ast.Name) and e.id == name:
                            if isinstance(n.value, (ast.Tuple, ast.List)) and len(n.value.elts) == len(t.elts):
                                out.append((n, n.value.elts[i]))
                            else:
                                out.append((n, None))
        elif isinstance(n, ast.AnnAssign) and isinstance(n.target, ast.Name) and n.target.id == name and n.value is not None:
            out.append((n, n.value))
        elif isinstance(n, ast.AugAssign) and isinstance(n.target, ast.Name) and n.target.id == name:
            out.append((n, None))
        elif isinstance(n, (ast.For, ast.AsyncFor)):
            if name in {x.id for x in ast.walk(n.target) if isinstance(x, ast.Name)}:
                out.append((n, None))
        elif isinstance(n, (ast.With, ast.AsyncWith)):
            for it in n.items:
                if it.optional_vars is not None and name in {x.id for x in ast.walk(it.optional_vars) if isinstance(x, ast.Name)}:
                    out.append((n, None))
        elif isinstance(n, ast.NamedExpr) and isinstance(n.target, ast.Name) and n.target.id == name:
            out.append((n, n.value))
        elif isinstance(n, ast.ExceptHandler) and n.name == name:
            out.append((n, None))
    return out


def ifelse_def(fn: FunctionInfo, name: str) -> T.Optional[ast.IfExp]:
    """`if c: name = A else: name = B` (the only two bindings of name, each the only statement of its branch)
    read as the conditional expression `A if c else B`."""
    d = local_defs(fn, name)
    if len(d) != 2 or any(v is None or not isinstance(st, (ast.Assign, ast.AnnAssign)) for st, v in d):
        return None
    (s1, v1), (s2, v2) = d
    for n in walk_no_nested(fn.node):
        if isinstance(n, ast.If) and len(n.body) == 1 and len(n.orelse) == 1:
            if n.body[0] is s1 and n.orelse[0] is s2:
                return ast.copy_location(ast.IfExp(test=n.test, body=v1, orelse=v2), n)
            if n.body[0] is s2 and n.orelse[0] is s1:
                return ast.copy_location(ast.IfExp(test=n.test, body=v2, orelse=v1), n)
    return None


def single_def(fn: FunctionInfo, name: str) -> T.Optional[ast.AST]:
    """The value expression if `name` is a local bound exactly once by a plain assignment (or by the two branches of
    one if/else, read as a conditional expression)."""
    if name in fn.all_params:
        return None
    d = local_defs(fn, name)
    if len(d) == 1 and d[0][1] is not None:
        return d[0][1]
    if len(d) == 2:
        return ifelse_def(fn, name)
    return None


def resolve_alias(fn: FunctionInfo, expr: ast.AST, depth: int = 4) -> ast.AST:
    """Follow single-assignment local aliases:  x = <expr>  ... use(x)."""
    while depth > 0 and isinstance(expr, ast.Name):
        v = single_def(fn, expr.id)
        if v is None:
            break
        expr = v
        depth -= 1
    return expr


def flows_from(fn: FunctionInfo, expr: ast.AST, pred: T.Callable[[ast.AST], bool], depth: int = 6,
               _seen: T.Optional[T.Set[str]] = None) -> bool:
    """Does some sub-expression satisfying pred flow (through local assignments) into expr?"""
    seen = _seen if _seen is not None else set()
    for sub in ast.walk(expr):
        if pred(sub):
            return True
    if depth <= 0:
        return False
    for sub in ast.walk(expr):
        if isinstance(sub, ast.Name) and sub.id not in seen:
            seen.add(sub.id)
            for _stmt, val in local_defs(fn, sub.id):
                if val is not None and flows_from(fn, val, pred, depth - 1, seen):
                    return True
                if val is None and isinstance(_stmt, (ast.For, ast.AsyncFor)) and flows_from(fn, _stmt.iter, pred, depth - 1, seen):
                    return True
                if val is None and isinstance(_stmt, ast.Assign) and flows_from(fn, _stmt.value, pred, depth - 1, seen):
                    return True
    return False


# --------------------------------------------------------------------------- laziness
def lazy_generator_calls(prog: Program, fn: FunctionInfo, expr: ast.AST, types: T.Any,
                         depth: int = 3) -> T.List[T.Tuple[ast.Call, FunctionInfo]]:
    """Generator-function calls whose bodies run lazily when `expr` is iterated
    (i.e. not wrapped in a materialiser)."""
    out: T.List[T.Tuple[ast.Call, FunctionInfo]] = []
    expr0 = expr
    if isinstance(expr, ast.Name) and depth > 0:
        v = single_def(fn, expr.id)
        if v is not None:
            return lazy_generator_calls(prog, fn, v, types, depth - 1)
        return out
    if isinstance(expr, ast.Call):
        t = prog.resolve_call(fn, expr, types, count=False)
        if t.kind == "func" and t.fn is not None and t.fn.is_generator:
            out.append((expr, t.fn))
            return out
        if t.kind == "func" and t.fn is not None and not t.fn.is_generator:
            # a plain function returning a lazily evaluated generator:  return gen(...) / return (x for ...)
            for n in walk_no_nested(t.fn.node):
                if isinstance(n, ast.Return) and n.value is not None and depth > 0:
                    out.extend(lazy_generator_calls(prog, t.fn, n.value, prog.local_types(t.fn), depth - 1))
            return out
        if t.kind == "builtin" and t.name in LAZY_WRAPPERS or (t.kind == "ext" and t.name.startswith("itertools.")):
            for a in expr.args:
                out.extend(lazy_generator_calls(prog, fn, a, types, depth))
            return out
        return out
    if isinstance(expr, ast.GeneratorExp):
        for g in expr.generators:
            out.extend(lazy_generator_calls(prog, fn, g.iter, types, depth))
        # calls in the element expression also run lazily
        for sub in ast.walk(expr.elt):
            if isinstance(sub, ast.Call):
                t = prog.resolve_call(fn, sub, types, count=False)
                if t.kind == "func" and t.fn is not None:
                    out.append((sub, t.fn))
        return out
    return out


def node_effects_lazy(prog: Program, effects: Effects, cfg: CFG, types: T.Any) -> T.Dict[int, T.Dict[str, T.List[str]]]:
    """Per CFG node: transitive effects of the calls it contains, where the body of a
    lazily consumed generator is attributed to the `for` header that pulls from it,
    not to the statement that merely created the generator object."""
    fn = cfg.fn
    out: T.Dict[int, T.Dict[str, T.List[str]]] = {}
    # generator calls that are created lazily (assigned to a name / passed to a lazy wrapper) are
    # removed from their creating node
    lazy_created: T.Set[int] = set()
    for n in cfg.nodes:
        if n.ast is None or n.kind in ("handler",):
            continue
        root = n.ast.context_expr if isinstance(n.ast, ast.withitem) else n.ast
        if n.kind == "stmt" and isinstance(root, (ast.FunctionDef, ast.ClassDef, ast.AsyncFunctionDef)):
            continue
        eff: T.Dict[str, T.List[str]] = {}
        if n.kind == "iter":
            for call, g in lazy_generator_calls(prog, fn, root, types):
                lazy_created.add(id(call))
                for e, chain in effects.effects_of(g.fq).items():
                    eff.setdefault(e, [f"{fn.fq}:{n.lineno} [lazy]"] + chain)
        out[n.id] = eff
    for n in cfg.nodes:
        if n.ast is None or n.kind in ("handler",):
            continue
        root = n.ast.context_expr if isinstance(n.ast, ast.withitem) else n.ast
        if n.kind == "stmt" and isinstance(root, (ast.FunctionDef, ast.ClassDef, ast.AsyncFunctionDef)):
            continue
        if n.kind == "stmt" and isinstance(root, ast.Assign) and isinstance(root.value, ast.Call):
            # x = gen(...)  creates a generator object; no body code runs here
            t = prog.resolve_call(fn, root.value, types, count=False)
            if t.kind == "func" and t.fn is not None and t.fn.is_generator:
                lazy_created.add(id(root.value))
        full = effects.node_effects(fn, root)
        # subtract effects that come only from lazily created generator calls
        eager: T.Dict[str, T.List[str]] = {}
        ids_lazy = {i for i in lazy_created}
        if any(id(sub) in ids_lazy for sub in ast.walk(root)):
            # recompute without the lazy calls
            for s in effects.sites[fn.fq]:
                if any(sub is s.node for sub in ast.walk(root)):
                    eager.setdefault(s.effect, [s.loc])
            for node, callee in effects.calls[fn.fq] + effects.opaque_calls[fn.fq]:
                if id(node) in ids_lazy:
                    continue
                if any(sub is node for sub in ast.walk(root)):
                    for e, chain in effects.effects_of(callee.fq).items():
                        eager.setdefault(e, [f"{fn.fq}:{getattr(node, 'lineno', 0)}"] + chain)
        else:
            eager = full
        for e, chain in eager.items():
            out[n.id].setdefault(e, chain)
    return out


# --------------------------------------------------------------------------- handlers
def handler_outcome(cfg: CFG, handler_nid: int) -> T.Dict[str, T.Any]:
    """What can happen after entering the handler: set of {'exit:<code>', 'raise', 'fallthrough'}."""
    reach = cfg.reachable(handler_nid)
    outcomes: T.Set[str] = set()
    body_ids = set()
    h = cfg.nodes[handler_nid].ast
    for st in ast.walk(h):
        for nid in cfg.stmt_nodes.get(id(st), []):
            body_ids.add(nid)
    body_ids.add(handler_nid)
    for nid in reach:
        n = cfg.nodes[nid]
        if n.kind == "sysexit":
            outcomes.add(f"exit:{n.extra.get('code')}")
        elif nid == cfg.raise_exit:
            # only explicit raises inside the handler count; implicit may-raise edges of calls are ignored
            pass
    for nid in body_ids & reach:
        n = cfg.nodes[nid]
        if n.kind == "stmt" and isinstance(n.ast, ast.Raise):
            outcomes.add("raise")
        if n.kind == "stmt" and n.extra.get("noreturn_call"):
            outcomes.add("noreturn-call")
    # fall-through: some non-exceptional edge leaves the handler body to a node outside it
    for nid in body_ids & reach:
        for dst, label in cfg.succ[nid]:
            if label == ("exc",):
                continue
            if dst not in body_ids and cfg.nodes[dst].kind != "sysexit":
                if cfg.nodes[nid].kind == "stmt" and isinstance(cfg.nodes[nid].ast, ast.Raise):
                    continue
                outcomes.add("fallthrough")
    return {"outcomes": outcomes}


def handlers_catching(cfg: CFG, exc_names: T.Iterable[str]) -> T.List[int]:
    out = []
    for n in cfg.nodes:
        if n.kind == "handler":
            types = n.extra.get("types")
            if any(handler_can_catch(types, e) for e in exc_names):
                out.append(n.id)
    return out


def try_body_nodes(cfg: CFG, handler_nid: int) -> T.Set[int]:
    """CFG nodes of the try-body guarded by this handler."""
    st = cfg.nodes[handler_nid].stmt
    out: T.Set[int] = set()
    for b in st.body:
        for sub in ast.walk(b):
            out.update(cfg.stmt_nodes.get(id(sub), []))
    return out


# --------------------------------------------------------------------------- comparison gates
def compare_shape(test: ast.AST) -> T.Optional[T.Tuple[str, ast.AST, ast.AST]]:
    """Normalise `a OP b`, `not (a OP b)` into (op, left, right) with op in < <= > >= == !=."""
    neg = False
    while isinstance(test, ast.UnaryOp) and isinstance(test.op, ast.Not):
        neg = not neg
        test = test.operand
    if not (isinstance(test, ast.Compare) and len(test.ops) == 1):
        return None
    ops = {ast.Lt: "<", ast.LtE: "<=", ast.Gt: ">", ast.GtE: ">=", ast.Eq: "==", ast.NotEq: "!="}
    op = ops.get(type(test.ops[0]))
    if op is None:
        return None
    if neg:
        op = {"<": ">=", "<=": ">", ">": "<=", ">=": "<", "==": "!=", "!=": "=="}[op]
    return op, test.left, test.comparators[0]


def mirror(op: str) -> str:
    return {"<": ">", "<=": ">=", ">": "<", ">=": "<=", "==": "==", "!=": "!="}[op]


def kwargs_of(call: ast.Call) -> T.Dict[str, ast.AST]:
    return {kw.arg: kw.value for kw in call.keywords if kw.arg is not None}


def find_calls(prog: Program, fn: FunctionInfo, target_fq: str) -> T.List[ast.Call]:
    out = []
    for call, t in prog.calls_in(fn):
        if t.kind in ("func", "class") and t.fn is not None and t.fn.fq == target_fq:
            out.append(call)
        elif t.kind == "func" and t.name == target_fq:
            out.append(call)
    return out


def enclosing_loops(fn: FunctionInfo, node: ast.AST) -> T.List[ast.AST]:
    """For/While statements of fn that contain node (outermost first)."""
    path: T.List[ast.AST] = []

    def rec(cur: ast.AST, stack: T.List[ast.AST]) -> bool:
        if cur is node:
            path.extend(stack)
            return True
        for ch in ast.iter_child_nodes(cur):
            if isinstance(ch, (ast.FunctionDef, ast.AsyncFunctionDef, ast.Lambda, ast.ClassDef)) and ch is not fn.node:
                continue
            ns = stack + [cur] if isinstance(cur, (ast.For, ast.While, ast.AsyncFor)) else stack
            if rec(ch, ns):
                return True
        return False

    rec(fn.node, [])
    return path


# --------------------------------------------------------------------------- wiring
def check_passthrough(ctx, rule: str, caller_fq: str, callee_fq: str, expected: T.Dict[str, T.Any],
                      floor: int = 1, what_prefix: str = "") -> int:
    """Along every call chain caller -> (helpers) -> callee, parameter p must receive the expression whose text
    (single-assignment locals inlined) is expected[p] - a string, a tuple of alternative strings, or a predicate
    on (fn, inlined expr)."""
    prog: Program = ctx.prog
    caller = prog.function(caller_fq)
    callee = prog.function(callee_fq)
    ctx.visit(caller_fq, callee_fq)
    n_sites = 0
    for p, exp in expected.items():
        traces = trace_param(prog, caller, callee_fq, p)
        if not traces:
            if p in callee.all_params or callee.kwarg:
                raise AnalysisError(f"{ctx.prop}/{rule}: no call chain {caller_fq} -> {callee_fq} found for parameter `{p}`")
        n_sites = max(n_sites, len(traces))
        for expr, call, chain in traces:
            txt = unparse(expr)
            if callable(exp):
                good = bool(exp(caller, expr))
                exp_txt = getattr(exp, "__doc__", None) or "predicate"
            else:
                alts = (exp,) if isinstance(exp, str) else tuple(exp)
                # the expectation may itself be written with caller locals: inline it the same way
                alt_txts = set(alts)
                for a_ in alts:
                    try:
                        alt_txts.add(unparse(inline(caller, ast.parse(a_, mode="eval").body, prog)))
                    except SyntaxError:
                        pass
                good = txt in alt_txts
                exp_txt = alts[0]
            via = "" if len(chain) == 2 else f" via {' -> '.join(c.split('.')[-1] for c in chain[1:-1])}"
            ctx.check(rule, good,
                      f"{what_prefix}{caller_fq} L{call.lineno}: {callee.qualname}({p}=...) receives `{exp_txt}`{via}",
                      f"{caller_fq} -> {callee_fq}: parameter `{p}` is not wired to `{exp_txt}`",
                      f"call at L{call.lineno} passes `{txt[:100]}` for `{p}`, expected `{exp_txt}`",
                      loc=caller.loc(call))
    if n_sites < floor:
        raise AnalysisError(f"{ctx.prop}/{rule}: {caller_fq} reaches {callee_fq} {n_sites} time(s), expected >= {floor}")
    return n_sites


def tainted_names(fn: FunctionInfo, sources: T.Set[str], sanitisers: T.Set[str] = frozenset()) -> T.Set[str]:
    """Locals of fn that (transitively, flow-insensitively) depend on a source name.
    A value wrapped in a sanitiser call (by dotted text) is clean."""
    tainted = set(sources)
    changed = True

    def expr_tainted(e: ast.AST) -> bool:
        if isinstance(e, ast.Call) and unparse(e.func) in sanitisers:
            return False
        if isinstance(e, ast.Name):
            return e.id in tainted
        return any(expr_tainted(c) for c in ast.iter_child_nodes(e))

    while changed:
        changed = False
        for n in walk_no_nested(fn.node):
            tgts: T.List[ast.AST] = []
            val: T.Optional[ast.AST] = None
            if isinstance(n, ast.Assign):
                tgts, val = n.targets, n.value
            elif isinstance(n, ast.AnnAssign) and n.value is not None:
                tgts, val = [n.target], n.value
            elif isinstance(n, ast.AugAssign):
                tgts, val = [n.target], n.value
            elif isinstance(n, (ast.For, ast.AsyncFor)):
                tgts, val = [n.target], n.iter
            elif isinstance(n, ast.comprehension):
                tgts, val = [n.target], n.iter
            elif isinstance(n, ast.NamedExpr):
                tgts, val = [n.target], n.value
            if val is None or not expr_tainted(val):
                continue
            for t in tgts:
                for x in ast.walk(t):
                    if isinstance(x, ast.Name) and x.id not in tainted:
                        tainted.add(x.id)
                        changed = True
    return tainted


def expr_tainted(e: ast.AST, tainted: T.Set[str], sanitisers: T.Set[str] = frozenset()) -> bool:
    if isinstance(e, ast.Call) and unparse(e.func) in sanitisers:
        return False
    if isinstance(e, ast.Name):
        return e.id in tainted
    if isinstance(e, (ast.ListComp, ast.SetComp, ast.GeneratorExp, ast.DictComp)):
        # comprehension variables bound from tainted iterables
        local = set(tainted)
        for g in e.generators:
            if expr_tainted(g.iter, local, sanitisers):
                for x in ast.walk(g.target):
                    if isinstance(x, ast.Name):
                        local.add(x.id)
            else:
                for x in ast.walk(g.target):
                    if isinstance(x, ast.Name):
                        local.discard(x.id)
        elts = [e.elt] if not isinstance(e, ast.DictComp) else [e.key, e.value]
        return any(expr_tainted(x, local, sanitisers) for x in elts)
    return any(expr_tainted(c, tainted, sanitisers) for c in ast.iter_child_nodes(e))


# --------------------------------------------------------------------------- boolean expressions
def bool_expr_bf(test: ast.AST, classify: T.Callable[[ast.AST], T.Tuple[str, bool]]):
    """Boolean structure of `test` as a BF over atoms named by classify(leaf) -> (atom, polarity)."""
    from .boolfn import BF
    if isinstance(test, ast.BoolOp):
        parts = [bool_expr_bf(v, classify) for v in test.values]
        out = parts[0]
        for p in parts[1:]:
            out = (out & p) if isinstance(test.op, ast.And) else (out | p)
        return out
    if isinstance(test, ast.UnaryOp) and isinstance(test.op, ast.Not):
        return ~bool_expr_bf(test.operand, classify)
    if isinstance(test, ast.Constant):
        return BF.true() if test.value else BF.false()
    if isinstance(test, ast.Compare) and len(test.ops) > 1:
        # a <= b <= c  is  (a <= b) and (b <= c)
        out = BF.true()
        operands = [test.left] + list(test.comparators)
        for i, op in enumerate(test.ops):
            out = out & bool_expr_bf(ast.copy_location(ast.Compare(left=operands[i], ops=[op], comparators=[operands[i + 1]]), test), classify)
        return out
    atom, pol = classify(test)
    v = BF.var(atom)
    return v if pol else ~v


def bool_contexts(root: ast.AST) -> T.Iterator[T.Tuple[ast.AST, ast.AST]]:
    """(context node, operand) for operands evaluated for truthiness."""
    for n in ast.walk(root):
        if isinstance(n, ast.BoolOp):
            for v in n.values:
                yield n, v
        elif isinstance(n, (ast.If, ast.While, ast.IfExp)):
            t = n.test
            if not isinstance(t, (ast.BoolOp, ast.Compare)):
                yield n, t.operand if isinstance(t, ast.UnaryOp) and isinstance(t.op, ast.Not) else t
        elif isinstance(n, ast.UnaryOp) and isinstance(n.op, ast.Not):
            yield n, n.operand
        elif isinstance(n, ast.Call) and unparse(n.func) in ("any", "all") and n.args and isinstance(n.args[0], (ast.Tuple, ast.List, ast.Set)):
            for e in n.args[0].elts:
                yield n, e




def name_guard(ctx, fn, call: ast.Call) -> T.Optional[str]:
    """'git' if the site only runs when self.name == 'git'; 'hg' if only when it is not; else None."""
    cfg = ctx.cfgs.get(fn.fq)
    nid = cfg.node_containing(call)
    if nid is None:
        return None
    from .pathcond import PathCond
    pc = PathCond(cfg)
    atom = "self.name == 'git'"
    if atom not in pc.atoms:
        return None
    r = pc.reach(nid)
    from .boolfn import BF
    if r.implies(BF.var(atom)):
        return "git"
    if r.implies(~BF.var(atom)):
        return "hg"
    return None


# --------------------------------------------------------------------------- inlining (robustness to local aliases)
def iter_assigns(root: ast.AST) -> T.Iterator[T.Tuple[ast.AST, ast.AST, ast.AST]]:
    """(statement, target, value) for Assign (each target) and AnnAssign with a value."""
    for n in ast.walk(root):
        if isinstance(n, ast.Assign):
            for t in n.targets:
                yield n, t, n.value
        elif isinstance(n, ast.AnnAssign) and n.value is not None:
            yield n, n.target, n.value


def _module_const_ast(prog: T.Optional[Program], fn: FunctionInfo, name: str) -> T.Optional[ast.AST]:
    """AST of a module-level constant that is a plain literal (str / tuple / list of literals), possibly imported."""
    mod = fn.module
    cand = None
    if name in mod.consts and len(mod.consts[name]) == 1:
        cand = mod.consts[name][0]
    elif prog is not None:
        imp = mod.imports.get(name)
        if imp and imp[0] == "name" and imp[1] in prog.modules and imp[2] in prog.modules[imp[1]].consts and len(prog.modules[imp[1]].consts[imp[2]]) == 1:
            cand = prog.modules[imp[1]].consts[imp[2]][0]
    if cand is None:
        return None
    def lit(e: ast.AST) -> bool:
        if isinstance(e, ast.Constant):
            return True
        if isinstance(e, (ast.Tuple, ast.List, ast.Set)):
            return all(lit(x) for x in e.elts)
        return False
    return cand if lit(cand) else None


_MUT_METHODS = {"append", "add", "extend", "update", "pop", "remove", "clear", "sort", "insert", "discard", "setdefault", "popitem", "reverse"}


def _mutated_names(fn: FunctionInfo) -> T.Set[str]:
    """Locals that are modified in place (method call, item/attribute store, augmented assignment, del)."""
    cached = getattr(fn, "_mutated_cache", None)
    if cached is not None:
        return cached
    out: T.Set[str] = set()
    for n in walk_no_nested(fn.node):
        if isinstance(n, ast.Call) and isinstance(n.func, ast.Attribute) and n.func.attr in _MUT_METHODS and isinstance(n.func.value, ast.Name):
            out.add(n.func.value.id)
        elif isinstance(n, (ast.Subscript, ast.Attribute)) and isinstance(n.ctx, (ast.Store, ast.Del)):
            r = n
            while isinstance(r, (ast.Subscript, ast.Attribute)):
                r = r.value
            if isinstance(r, ast.Name):
                out.add(r.id)
        elif isinstance(n, ast.AugAssign) and isinstance(n.target, ast.Name):
            out.add(n.target.id)
    try:
        fn._mutated_cache = out      # type: ignore[attr-defined]
    except AttributeError:
        pass
    return out


def inline(fn: FunctionInfo, expr: ast.AST, prog: T.Optional[Program] = None, depth: int = 6, consts: bool = True) -> ast.AST:
    """Copy of expr with single-assignment locals replaced by their defining expressions (recursively) and
    literal module constants replaced by their literals.  Parameters and multiply-assigned names stay."""
    import copy
    memo: T.Dict[str, T.Optional[ast.AST]] = {}
    mutated = _mutated_names(fn)

    def defn(name: str) -> T.Optional[ast.AST]:
        if name in memo:
            return memo[name]
        memo[name] = None
        if name in fn.all_params or name in mutated:
            return None
        d = local_defs(fn, name)
        if len(d) == 1 and d[0][1] is not None and isinstance(d[0][0], (ast.Assign, ast.AnnAssign)):
            v = d[0][1]
            if name not in {x.id for x in ast.walk(v) if isinstance(x, ast.Name)}:
                memo[name] = v
        elif len(d) == 2:
            v2 = ifelse_def(fn, name)
            if v2 is not None and name not in {x.id for x in ast.walk(v2) if isinstance(x, ast.Name)}:
                memo[name] = v2
        elif not d and consts:
            memo[name] = _module_const_ast(prog, fn, name)
        return memo[name]

    class Tr(ast.NodeTransformer):
        def __init__(self, budget: int):
            self.budget = budget

        def visit_Name(self, node: ast.Name) -> ast.AST:
            if isinstance(node.ctx, ast.Load) and self.budget > 0:
                v = defn(node.id)
                if v is not None:
                    return Tr(self.budget - 1).visit(copy.deepcopy(v))
            return node

        def visit_Lambda(self, node: ast.Lambda) -> ast.AST:
            return node

    return Tr(depth).visit(copy.deepcopy(expr))


def inline_text(fn: FunctionInfo, expr: ast.AST, prog: T.Optional[Program] = None) -> str:
    return unparse(inline(fn, expr, prog))


def trace_param(prog: Program, caller: FunctionInfo, callee_fq: str, param: str, depth: int = 3,
                _seen: T.Optional[T.Set[str]] = None) -> T.List[T.Tuple[ast.AST, ast.Call, T.List[str]]]:
    """Expressions (in caller's vocabulary, locals inlined) that reach `param` of callee along call chains
    caller -> (private helpers)* -> callee.  Returns [(expr, outermost call in caller, chain)]."""
    seen = _seen or set()
    out: T.List[T.Tuple[ast.AST, ast.Call, T.List[str]]] = []
    callee = prog.function(callee_fq)
    direct = find_calls(prog, caller, callee_fq)
    for c in direct:
        arg = call_arg(c, callee, param)
        if arg is None and param in callee.defaults:
            arg = callee.defaults[param]
        if arg is not None:
            out.append((inline(caller, arg, prog), c, [caller.fq, callee_fq]))
    if direct or depth <= 0:
        return out
    # through helpers: internal functions called by caller that (transitively) call callee
    for call, t in prog.calls_in(caller):
        if t.kind != "func" or t.fn is None or t.fn.fq in seen or t.fn.fq == caller.fq:
            continue
        h = t.fn
        sub = trace_param(prog, h, callee_fq, param, depth - 1, seen | {caller.fq})
        for expr, _c, chain in sub:
            # substitute h's parameters by the arguments of `call`
            import copy
            mapping: T.Dict[str, ast.AST] = {}
            for p in h.all_params:
                a = call_arg(call, h, p)
                if a is None and p in h.defaults:
                    a = h.defaults[p]
                if a is not None:
                    mapping[p] = a

            class Sub(ast.NodeTransformer):
                def visit_Name(self, node: ast.Name) -> ast.AST:
                    if node.id in mapping:
                        return copy.deepcopy(mapping[node.id])
                    return node
            e2 = Sub().visit(copy.deepcopy(expr))
            out.append((inline(caller, e2, prog), call, [caller.fq] + chain))
    return out


def calls_transitively(prog: Program, effects: T.Any, caller_fq: str, callee_fq: str) -> bool:
    return callee_fq in effects.reachable_functions([caller_fq])


def loop_as_listcomp(fn: FunctionInfo, name: str, prog: T.Optional[Program] = None) -> T.Optional[ast.ListComp]:
    """Recognise the accumulator idiom
           name = []            (or: name: List[..] = [])
           for T in IT: [local assignments]; [if COND:] name.append(E)
       and return the equivalent  [E for T in IT if COND]  with loop-local single assignments inlined."""
    defs = local_defs(fn, name)
    if len(defs) != 1 or not (isinstance(defs[0][1], ast.List) and not defs[0][1].elts or
                              (isinstance(defs[0][1], ast.Call) and unparse(defs[0][1].func) == "list" and not defs[0][1].args)):
        return None
    appends = [c for c in ast.walk(fn.node) if isinstance(c, ast.Call) and isinstance(c.func, ast.Attribute) and c.func.attr == "append"
               and unparse(c.func.value) == name and len(c.args) == 1]
    others = [c for c in ast.walk(fn.node) if isinstance(c, ast.Call) and isinstance(c.func, ast.Attribute) and unparse(c.func.value) == name
              and c.func.attr in ("extend", "insert", "pop", "remove", "clear", "sort", "reverse")]
    if len(appends) != 1 or others:
        return None
    app = appends[0]
    # path from the function body to the append: For loops and If tests
    gens: T.List[ast.comprehension] = []
    conds: T.List[ast.AST] = []

    def find(stmts: T.List[ast.stmt]) -> bool:
        for st in stmts:
            if isinstance(st, ast.Expr) and st.value is app:
                return True
            if isinstance(st, ast.For):
                gens.append(ast.comprehension(target=st.target, iter=st.iter, ifs=[], is_async=0))
                if find(st.body):
                    return True
                gens.pop()
            elif isinstance(st, ast.If):
                conds.append(st.test)
                if find(st.body):
                    return True
                conds.pop()
                neg = ast.UnaryOp(op=ast.Not(), operand=st.test)
                conds.append(neg)
                if find(st.orelse):
                    return True
                conds.pop()
        return False

    if not find(fn.node.body) or not gens:
        return None
    # `continue` guards before the append in the innermost loop body are not modelled
    for n in ast.walk(fn.node):
        if isinstance(n, (ast.Continue, ast.Break)):
            return None
    elt = inline(fn, app.args[0], prog, consts=False)
    gens[-1].ifs = [inline(fn, c, prog, consts=False) for c in conds]
    gens = [ast.comprehension(target=g.target, iter=inline(fn, g.iter, prog, consts=False), ifs=g.ifs, is_async=0) for g in gens]
    return ast.fix_missing_locations(ast.ListComp(elt=elt, generators=gens))


def semantic_bf(cond: T.Any, fn: FunctionInfo, classify: T.Callable[[ast.AST], T.Tuple[str, bool]], prog: T.Optional[Program] = None) -> T.Any:
    """Re-express a BF over source atoms as a BF over classified leaves: every atom is parsed, its
    single-assignment locals are inlined, and its boolean structure is mapped with `classify`."""
    from .boolfn import BF
    c = cond.drop_unused()
    leaf: T.Dict[str, T.Any] = {}
    for a in c.atoms:
        tree = inline(fn, ast.parse(a, mode="eval").body, prog, consts=False)
        leaf[a] = bool_expr_bf(tree, classify)
    out = BF.false()
    n = len(c.atoms)
    for i in range(1 << n):
        if (c.bits >> i) & 1:
            term = BF.true()
            for j, a in enumerate(c.atoms):
                term = term & (leaf[a] if (i >> j) & 1 else ~leaf[a])
            out = out | term
    return out


def open_sites_through_helpers(prog: Program, effects: T.Any, fn: FunctionInfo, depth: int = 2) -> T.List[T.Tuple[ast.Call, FunctionInfo, ast.AST, T.Dict[str, str]]]:
    """Text/binary open() sites executed by fn directly or through private helpers of its own module:
    [(open call, function containing it, opened-path expression in fn's vocabulary (inlined), keyword texts)]."""
    import copy
    out: T.List[T.Tuple[ast.Call, FunctionInfo, ast.AST, T.Dict[str, str]]] = []
    for s in effects.sites.get(fn.fq, []):
        if s.detail.get("via") == "open" and isinstance(s.node, ast.Call):
            c = s.node
            path = c.func.value if isinstance(c.func, ast.Attribute) and c.func.attr == "open" and unparse(c.func) not in ("io.open", "codecs.open") else (c.args[0] if c.args else None)
            if path is None:
                continue
            kws = {kw.arg: unparse(kw.value) for kw in c.keywords if kw.arg}
            mode, _n = None, None
            out.append((c, fn, inline(fn, path, prog, consts=False), kws))
        elif s.detail.get("via") in ("read_text", "read_bytes", "write_text", "write_bytes") and isinstance(s.node, ast.Call) and isinstance(s.node.func, ast.Attribute):
            c = s.node
            kws = {"mode": repr(s.detail.get("mode") or ("wt" if s.detail["via"] == "write_text" else "wb"))}
            kws.update({kw.arg: unparse(kw.value) for kw in c.keywords if kw.arg})
            out.append((c, fn, inline(fn, c.func.value, prog, consts=False), kws))
    if depth <= 0:
        return out
    for call, t in prog.calls_in(fn):
        if t.kind != "func" or t.fn is None or t.fn.fq == fn.fq or t.fn.module.name != fn.module.name or t.fn.is_generator:
            continue
        h = t.fn
        for c, owner, pexpr, kws in open_sites_through_helpers(prog, effects, h, depth - 1):
            mapping: T.Dict[str, ast.AST] = {}
            for p in h.all_params:
                a = call_arg(call, h, p)
                if a is not None:
                    mapping[p] = a

            class Sub(ast.NodeTransformer):
                def visit_Name(self, node: ast.Name) -> ast.AST:
                    return copy.deepcopy(mapping[node.id]) if node.id in mapping else node
            out.append((c, owner, inline(fn, Sub().visit(copy.deepcopy(pexpr)), prog, consts=False), kws))
    return out


# --------------------------------------------------------------------------- one-expression helpers
def inline_simple_calls(prog: T.Optional[Program], fn: FunctionInfo, expr: ast.AST, depth: int = 3,
                        skip: T.Iterable[str] = ()) -> ast.AST:
    """Replace calls of one-expression helpers (a closure defined in fn, or a function of fn's module, whose body is a
    single `return <expr>` after an optional docstring) by that expression with the parameters substituted."""
    import copy
    skip_ = set(skip)
    local_defs_: T.Dict[str, ast.FunctionDef] = {n.name: n for n in ast.walk(fn.node) if isinstance(n, ast.FunctionDef) and n is not fn.node}

    def body_expr(fd: ast.FunctionDef) -> T.Optional[ast.AST]:
        body = [st for st in fd.body if not (isinstance(st, ast.Expr) and isinstance(st.value, ast.Constant))]
        if len(body) == 1 and isinstance(body[0], ast.Return) and body[0].value is not None:
            return body[0].value
        return None

    class Sub(ast.NodeTransformer):
        def __init__(self, mapping: T.Dict[str, ast.AST]):
            self.mapping = mapping
        def visit_Name(self, node: ast.Name) -> ast.AST:
            if isinstance(node.ctx, ast.Load) and node.id in self.mapping:
                return copy.deepcopy(self.mapping[node.id])
            return node

    class Inl(ast.NodeTransformer):
        def __init__(self, d: int):
            self.d = d
        def visit_Call(self, node: ast.Call) -> ast.AST:
            self.generic_visit(node)
            if self.d <= 0 or not isinstance(node.func, ast.Name) or node.keywords and any(k.arg is None for k in node.keywords):
                return node
            if node.func.id in skip_:
                return node
            fd = local_defs_.get(node.func.id)
            if fd is None and prog is not None and node.func.id in fn.module.functions:
                fd = fn.module.functions[node.func.id].node
            if fd is None or fd.args.vararg or fd.args.kwarg:
                return node
            be = body_expr(fd)
            if be is None:
                return node
            params = [a.arg for a in fd.args.args]
            if len(node.args) > len(params):
                return node
            mapping: T.Dict[str, ast.AST] = dict(zip(params, node.args))
            for k in node.keywords:
                mapping[k.arg] = k.value
            if set(params) - set(mapping):
                return node
            out = Sub(mapping).visit(copy.deepcopy(be))
            return Inl(self.d - 1).visit(out)
    return ast.fix_missing_locations(Inl(depth).visit(copy.deepcopy(expr)))


# --------------------------------------------------------------------------- flag loops
def any_loop(fn: FunctionInfo, var: str) -> T.Optional[ast.AST]:
    """Recognise   var = False; for x in ITER: if TEST: var = True [; break]   as  any(TEST for x in ITER)."""
    defs = local_defs(fn, var)
    consts = [(st, v) for st, v in defs if isinstance(v, ast.Constant) and isinstance(v.value, bool)]
    if len(defs) != 2 or len(consts) != 2 or {v.value for _s, v in consts} != {True, False}:
        return None
    true_stmt = [st for st, v in consts if v.value is True][0]
    for loop in walk_no_nested(fn.node):
        if isinstance(loop, ast.For) and len(loop.body) == 1 and isinstance(loop.body[0], ast.If) and not loop.orelse:
            iff = loop.body[0]
            body = [b for b in iff.body if not isinstance(b, ast.Break)]
            if len(body) == 1 and body[0] is true_stmt and not iff.orelse:
                gen = ast.GeneratorExp(elt=iff.test, generators=[ast.comprehension(target=loop.target, iter=loop.iter, ifs=[], is_async=0)])
                return ast.fix_missing_locations(ast.Call(func=ast.Name(id="any", ctx=ast.Load()), args=[gen], keywords=[]))
    return None



# --------------------------------------------------------------------------- pinned calendar
def pinned_calendar_ctor(prog: Program, incr_fn: FunctionInfo, cal_class: str, vinfo_var: str = "old_vinfo") -> T.Optional[T.Tuple[FunctionInfo, ast.Call, str]]:
    """Where the calendar of the parsed version is rebuilt for --pin-date: (function holding the <cal_class>(...) constructor,
    the constructor call, text of the version-info expression its arguments read from).  The constructor sits in a helper
    called with the parsed version, or directly in incr."""
    for c, t in prog.calls_in(incr_fn):
        if t.kind == "func" and t.fn is not None and [unparse(x) for x in c.args] == [vinfo_var] and t.fn.returns is not None and "CalendarInfo" in unparse(t.fn.returns):
            ctor = [x for x in ast.walk(t.fn.node) if isinstance(x, ast.Call) and unparse(x.func).endswith(cal_class)]
            if len(ctor) == 1 and t.fn.params:
                return t.fn, ctor[0], t.fn.params[0]
    direct = [x for x in ast.walk(incr_fn.node) if isinstance(x, ast.Call) and unparse(x.func).endswith(cal_class)
              and any(isinstance(a, ast.Attribute) and unparse(a.value) == vinfo_var for a in ast.walk(x))]
    if len(direct) == 1:
        return incr_fn, direct[0], vinfo_var
    return None


# --------------------------------------------------------------------------- click options
CLI_OPTION_DEFAULTS: T.Dict[str, T.Tuple[T.Any, T.Optional[bool]]] = {
    # option name -> (default, is_flag)   None for is_flag: not a plain flag (value option / on-off pair)
    "--dry": (False, True), "--allow-dirty": (False, True), "--ignore-vcs-tag": (False, True), "--fetch/--no-fetch": (True, True),
    "--major": (False, True), "--minor": (False, True), "--patch": (False, True), "--tag-num": (False, True), "--pin-increments": (False, True),
    "--pin-date": (False, True), "--tag": (None, None), "--date": (None, None), "--set-version": (None, None),
    "--commit/--no-commit": (None, None), "--tag-commit/--no-tag-commit": (None, None), "--push/--no-push": (None, None),
    "--commit-message": (None, None), "--tag-message": (None, None), "--tag-scope": (None, None),
}


def cli_option_rule(ctx: T.Any, rule: str, names: T.Iterable[str]) -> None:
    """The named command-line options are declared with their documented defaults: a flag that is not given is off (an
    unset value option is None, so the configuration decides), `--fetch` is on."""
    prog = ctx.prog
    mod = prog.module("cli")
    decls: T.Dict[str, ast.Call] = {}
    for n in ast.walk(mod.tree):
        if isinstance(n, ast.Call) and unparse(n.func) == "click.option":
            for a in n.args:
                s_ = const_str(a)
                if s_ and s_.startswith("--"):
                    decls[s_] = n
    for name in names:
        want_default, want_flag = CLI_OPTION_DEFAULTS[name]
        c = decls.get(name)
        if c is None:
            ctx.require(False, f"cli: option {name} is not declared with click.option")
        kws = kwargs_of(c)
        d = kws.get("default")
        is_switch = "/" in name          # `--push/--no-push`: click resolves an absent switch to False unless default=None is explicit
        d_ok = (d is None and want_default is None and not is_switch) or (isinstance(d, ast.Constant) and d.value is want_default) or (d is None and want_default is False and want_flag)
        ctx.check(rule, d_ok, f"cli: option {name} defaults to {want_default!r}", f"cli: option {name} does not default to {want_default!r}",
                  f"`default={unparse(d) if d is not None else None}`: the option takes effect although it was not given on the command line", loc=f"{mod.relpath}:{c.lineno}",
                  witness={"option": name, "default": unparse(d) if d is not None else None})
        if want_flag:
            f_ = kws.get("is_flag")
            ctx.check(rule, isinstance(f_, ast.Constant) and f_.value is True, f"cli: option {name} is a flag", f"cli: option {name} is not a flag (it consumes the next argument)",
                      f"`is_flag={unparse(f_) if f_ is not None else None}`", loc=f"{mod.relpath}:{c.lineno}")


def calls_toward(ctx: T.Any, fn: FunctionInfo, target_fq: str) -> T.List[T.Tuple[ast.Call, FunctionInfo]]:
    """Calls in `fn` whose callee is `target_fq` or a function of the program from which it is reachable: the step of a
    call chain, whether or not an intermediate helper (cli._try_update) exists."""
    out: T.List[T.Tuple[ast.Call, FunctionInfo]] = []
    for call, t in ctx.prog.calls_in(fn):
        if t.kind == "func" and t.fn is not None and t.fn.fq != fn.fq:
            if t.fn.fq == target_fq or target_fq in ctx.effects.reachable_functions([t.fn.fq]):
                out.append((call, t.fn))
    return out


def errors_are_fatal(ctx: T.Any, rule: str, fq: str, floor: int) -> None:
    """In the validation helper `fq`, every `logger.error(...)` is followed, on every path, by a process exit or a raise:
    the function's normal return is not reachable from the report.  (Non-zero exit codes are decided by the exit-code
    rules; this one decides that the rejection is not merely logged.)"""
    fn = ctx.prog.function(fq)
    ctx.visit(fn.fq)
    cfg = ctx.cfgs.get(fn.fq)
    live = cfg.reachable()
    sites = []
    for n in cfg.nodes:
        if n.kind != "stmt" or n.id not in live or not isinstance(n.ast, ast.Expr) or not isinstance(n.ast.value, ast.Call):
            continue
        if unparse(n.ast.value.func) in ("logger.error", "logger.critical"):
            sites.append(n)
    # a rejection is an error report or a `raise` (a handler that lets the error go on rejects without a report of its own)
    raises = [n for n in cfg.nodes if n.kind == "stmt" and n.id in live and isinstance(n.ast, ast.Raise)]
    ctx.floor(rule, f"error reports in {fq}", len(sites) + len(raises), floor)
    for n in sites:
        after = cfg.reachable(start=n.id)
        if cfg.exit in after:
            flagged = [m for m in cfg.nodes if m.id in after and m.kind == "stmt" and isinstance(m.ast, ast.Assign) and isinstance(m.ast.value, ast.Constant)
                       and isinstance(m.ast.value.value, bool)]
            if flagged:
                raise AnalysisError(f"{fq}: the error at line {n.ast.lineno} is recorded in a flag variable (`{unparse(flagged[0].ast)}`); this rule decides only direct exits")
        msg = unparse(n.ast.value.args[0])[:70] if n.ast.value.args else ""
        ctx.check(rule, cfg.exit not in after, f"{fq}: `logger.error({msg}...)` is followed by an exit on every path",
                  f"{fq}: an input error is logged but the function returns normally", f"after `logger.error({msg}...)` the normal return is reachable: the rejected input is used anyway",
                  loc=fn.loc(n.ast))


def memo_rule(ctx: T.Any, rule: str) -> None:
    """`utils.memo` (the cache in front of both `compile_pattern`s) answers from the cache only for the same argument tuple:
    the key is made of all positional arguments, the stored value is `func(*args)`, and the value returned is the one
    stored under that key."""
    prog = ctx.prog
    memo = prog.function("utils.memo")
    ctx.visit(memo.fq)
    users = [f.fq for f in prog.all_functions() if any(unparse(d) in ("utils.memo", "memo") for d in getattr(f.node, "decorator_list", []))]
    ctx.floor(rule, "functions behind utils.memo", len(users), 2)
    # a cached result is handed out again and again: it must not be a mutable container (callers extend pattern lists in place)
    for fq_ in sorted(users):
        f_ = prog.function(fq_)
        ann = unparse(f_.node.returns) if getattr(f_.node, "returns", None) is not None else ""
        mutable = ann.startswith(("typ.List", "typ.Dict", "typ.Set", "typ.MutableSequence", "typ.MutableMapping", "List[", "Dict[", "Set[", "list", "dict", "set"))
        builds_list = any(isinstance(r.value, (ast.List, ast.ListComp, ast.Dict, ast.DictComp, ast.Set, ast.SetComp)) for r in walk_no_nested(f_.node) if isinstance(r, ast.Return) and r.value is not None)
        ctx.check(rule, not mutable and not builds_list, f"{fq_}: the memoised result is not a mutable container",
                  f"{fq_}: a memoised function hands out one shared mutable container",
                  f"returns `{ann or 'a container display'}`: every caller gets the same list object; config._compile_file_patterns extends the pattern list of a file in place, "
                  "so patterns configured for one file are applied to every other file that shares the cached list", loc=f_.loc(), witness={"config": "a glob entry plus an explicit entry for one of the matched files"})
    # delegation to functools is fine as it stands
    rets = [n for n in walk_no_nested(memo.node) if isinstance(n, ast.Return) and n.value is not None]
    if any(isinstance(r.value, ast.Call) and "lru_cache" in unparse(r.value) or "functools.cache" in unparse(r.value) for r in rets):
        ctx.ok(rule, "utils.memo delegates to functools' cache (keyed by all arguments)")
        return
    inner = [n for n in memo.node.body if isinstance(n, ast.FunctionDef)]
    ctx.require(len(inner) == 1 and inner[0].args.vararg is not None, "utils.memo: wrapper(*args) not found")
    w = inner[0]
    va = w.args.vararg.arg
    func = memo.params[0]
    defs = {tg.id: v for st in ast.walk(w) if isinstance(st, ast.Assign) and len(st.targets) == 1 for tg, v in [(st.targets[0], st.value)] if isinstance(tg, ast.Name)}

    def key_ok(e: ast.AST, depth: int = 0) -> bool:
        if isinstance(e, ast.Name) and e.id in defs and depth < 3:
            return key_ok(defs[e.id], depth + 1)
        if isinstance(e, ast.Name):
            return e.id == va
        if isinstance(e, ast.Call) and unparse(e.func) in ("str", "repr", "tuple") and len(e.args) == 1 and not e.keywords:
            return key_ok(e.args[0], depth)
        return False
    stores = [st for st in ast.walk(w) if isinstance(st, ast.Assign) and isinstance(st.targets[0], ast.Subscript)]
    calls = [c for c in ast.walk(w) if isinstance(c, ast.Call) and unparse(c.func) == func]
    ctx.require(len(stores) == 1 and len(calls) == 1, "utils.memo: expected one cache store and one call of the wrapped function")
    st = stores[0]
    key_e = st.targets[0].slice
    good_key = key_ok(key_e)
    ctx.check(rule, good_key, "utils.memo: the cache key is made of all positional arguments", "utils.memo: the cache key does not cover all arguments",
              f"key `{unparse(defs.get(key_e.id, key_e)) if isinstance(key_e, ast.Name) else unparse(key_e)}`: compile_pattern(version_pattern, raw_pattern) answers with the regex of another "
              f"file pattern that shares the covered arguments", loc=memo.loc(st), witness={"calls": ["compile_pattern('vYYYY.BUILD', '__version__ = \"{version}\"')", "compile_pattern('vYYYY.BUILD', 'Copyright YYYY')"]})
    c = calls[0]
    full = len(c.args) == 1 and isinstance(c.args[0], ast.Starred) and unparse(c.args[0].value) == va and (st.value is c or unparse(defs.get(unparse(st.value), st.value)) == unparse(c))
    ctx.check(rule, full, f"utils.memo: stores {func}(*{va}) under the key", "utils.memo: the cached value is not the wrapped function's result for these arguments", unparse(st), loc=memo.loc(st))
    wrets = [n for n in walk_no_nested(w) if isinstance(n, ast.Return)]
    cache = unparse(st.targets[0].value)
    same = len(wrets) >= 1 and all(r.value is not None and (unparse(r.value) == f"{cache}[{unparse(key_e)}]" or
                                                            (isinstance(r.value, ast.Name) and r.value.id in defs and unparse(defs[r.value.id]) in (unparse(c), f"{cache}[{unparse(key_e)}]"))) for r in wrets)
    ctx.check(rule, same, "utils.memo: returns the value stored under the same key", "utils.memo: the returned value is not the one cached for these arguments",
              f"{[unparse(r) for r in wrets]}", loc=memo.loc(w))


def maybe_unbound(cfg: CFG, fn: FunctionInfo) -> T.List[T.Tuple[str, int]]:
    """Definite-assignment analysis: (local name, CFG node id) for every read of a local on some path on which it has
    not been bound (UnboundLocalError).  Must-definitions are intersected over predecessors; a statement that raises
    binds nothing; comprehension variables and names declared global / nonlocal are not locals."""
    from .pathcond import assigned_names
    stored: T.Set[str] = set()
    for n in walk_no_nested(fn.node):
        if isinstance(n, ast.Name) and isinstance(n.ctx, (ast.Store, ast.Del)):
            stored.add(n.id)
        elif isinstance(n, ast.ExceptHandler) and n.name:
            stored.add(n.name)
        elif isinstance(n, (ast.Import, ast.ImportFrom)):
            for a in n.names:
                stored.add((a.asname or a.name).split(".")[0])
    comp_vars: T.Set[str] = set()
    for n in walk_no_nested(fn.node):
        if isinstance(n, (ast.ListComp, ast.SetComp, ast.DictComp, ast.GeneratorExp)):
            for g in n.generators:
                for x in ast.walk(g.target):
                    if isinstance(x, ast.Name):
                        comp_vars.add(x.id)
        elif isinstance(n, (ast.Global, ast.Nonlocal)):
            comp_vars |= set(n.names)
    # a comprehension variable that is also an ordinary local is still tracked as a local
    ordinary: T.Set[str] = set()
    for n in walk_no_nested(fn.node):
        if isinstance(n, (ast.Assign, ast.AnnAssign, ast.AugAssign, ast.For, ast.With, ast.ExceptHandler, ast.Import, ast.ImportFrom)):
            targets: T.List[ast.AST] = []
            if isinstance(n, ast.Assign):
                targets = list(n.targets)
            elif isinstance(n, (ast.AnnAssign, ast.AugAssign, ast.For)):
                targets = [n.target]
            elif isinstance(n, ast.With):
                targets = [i.optional_vars for i in n.items if i.optional_vars is not None]
            for t in targets:
                for x in ast.walk(t):
                    if isinstance(x, ast.Name):
                        ordinary.add(x.id)
            if isinstance(n, ast.ExceptHandler) and n.name:
                ordinary.add(n.name)
            if isinstance(n, (ast.Import, ast.ImportFrom)):
                for a in n.names:
                    ordinary.add((a.asname or a.name).split(".")[0])
    locals_ = (stored & ordinary) | (stored - comp_vars)
    locals_ -= set(fn.all_params)
    universe = frozenset(locals_)

    def defs(node: T.Any) -> T.Set[str]:
        a = node.ast
        if a is None:
            return set()
        if node.kind == "iter":
            return {x.id for x in ast.walk(node.extra["target"]) if isinstance(x, ast.Name)} & universe
        if node.kind == "handler":
            return ({a.name} if getattr(a, "name", None) else set()) & universe
        if node.kind == "test":
            return {x.target.id for x in ast.walk(a) if isinstance(x, ast.NamedExpr) and isinstance(x.target, ast.Name)} & universe
        out = set(assigned_names(a))
        if isinstance(a, (ast.Import, ast.ImportFrom)):
            out |= {(al.asname or al.name).split(".")[0] for al in a.names}
        if isinstance(a, (ast.FunctionDef, ast.AsyncFunctionDef, ast.ClassDef)):
            out.add(a.name)
        if isinstance(a, ast.Delete):
            out = set()
        return out & universe
    IN: T.Dict[int, T.FrozenSet[str]] = {n.id: universe for n in cfg.nodes}
    IN[cfg.entry] = frozenset()
    reach = cfg.reachable()
    work = [cfg.entry]
    seen_once: T.Set[int] = set()
    while work:
        nid = work.pop()
        node = cfg.nodes[nid]
        out_ok = IN[nid] | frozenset(defs(node))
        for dst, label in cfg.succ[nid]:
            val = IN[nid] if label == ("exc",) else out_ok
            new = IN[dst] & val if dst in seen_once else val
            if dst not in seen_once or new != IN[dst]:
                seen_once.add(dst)
                IN[dst] = new
                work.append(dst)
    found: T.List[T.Tuple[str, int]] = []
    for n in cfg.nodes:
        if n.id not in reach or n.ast is None or n.kind in ("handler",):
            continue
        roots: T.List[ast.AST]
        if n.kind == "iter":
            roots = [n.ast] if not isinstance(n.ast, ast.For) else [n.ast.iter]
        elif n.kind == "stmt" and isinstance(n.ast, (ast.FunctionDef, ast.AsyncFunctionDef, ast.ClassDef)):
            continue
        elif isinstance(n.ast, ast.withitem):
            roots = [n.ast.context_expr]
        elif isinstance(n.ast, (ast.If, ast.While)):
            roots = [n.ast.test]
        elif isinstance(n.ast, (ast.For, ast.With, ast.Try)):
            continue
        else:
            roots = [n.ast]
        for r in roots:
            inner_bound: T.Set[str] = set()
            for x in ast.walk(r):
                if isinstance(x, (ast.ListComp, ast.SetComp, ast.DictComp, ast.GeneratorExp)):
                    for g in x.generators:
                        inner_bound |= {y.id for y in ast.walk(g.target) if isinstance(y, ast.Name)}
                if isinstance(x, ast.Lambda):
                    inner_bound |= {a_.arg for a_ in x.args.args}
            for x in ast.walk(r):
                if isinstance(x, ast.Name) and isinstance(x.ctx, ast.Load) and x.id in universe and x.id not in IN[n.id] and x.id not in inner_bound:
                    if isinstance(n.ast, ast.AugAssign) and False:
                        continue
                    found.append((x.id, n.id))
    return sorted(set(found))


def config_version_validated_rule(ctx: T.Any, rule: str) -> None:
    """The config loader refuses a current_version that its version_pattern does not read in full:
    `_validate_version_with_pattern` is called on every load, parses the version with the pattern's engine, and its
    PatternError handler ends in a raise (never falls through)."""
    from .pathcond import PathCond
    prog = ctx.prog
    vf = prog.function("config._validate_version_with_pattern")
    pc_fn = prog.function("config._parse_config")
    ctx.visit(vf.fq, pc_fn.fq)
    calls = find_calls(prog, pc_fn, vf.fq)
    ctx.require(len(calls) == 1, "_parse_config: expected one _validate_version_with_pattern call")
    g = ctx.cfgs.get(pc_fn.fq)
    nid = g.node_containing(calls[0])
    wo = g.reachable(blocked_nodes=[nid])
    rets = [n for n in g.nodes if n.kind == "stmt" and isinstance(n.ast, ast.Return) and n.id in g.reachable()]
    ctx.check(rule, all(n.id not in wo for n in rets), "_parse_config: every Config is returned after _validate_version_with_pattern ran",
              "config._parse_config: a configuration is accepted without validating current_version against version_pattern", "", loc=pc_fn.loc(calls[0]))
    vcfg = ctx.cfgs.get(vf.fq)
    hs = handlers_catching(vcfg, ["PatternError"])
    ctx.floor(rule, "PatternError handlers in _validate_version_with_pattern", len(hs), 1)
    for h in hs:
        oc = handler_outcome(vcfg, h)["outcomes"]
        ctx.check(rule, "raise" in oc and "fallthrough" not in oc, "_validate_version_with_pattern: a current_version the pattern does not read ends in ValueError",
                  "config._validate_version_with_pattern: an invalid current_version is accepted",
                  f"the PatternError handler ends in {sorted(oc)}: e.g. current_version = 1.2.3.4 with MAJOR.MINOR.PATCH is loaded, and an update rewrites only the part the pattern matches "
                  "(`1.2.4.4`)", loc=vf.loc(vcfg.nodes[h].ast), witness={"current_version": "1.2.3.4", "version_pattern": "MAJOR.MINOR.PATCH"})
    for eng in ("v2version", "v1version"):
        cs = find_calls(prog, vf, f"{eng}.parse_version_info")
        ctx.check(rule, len(cs) == 1 and [unparse(a) for a in cs[0].args] == vf.params[:2], f"_validate_version_with_pattern: {eng}.parse_version_info(current_version, version_pattern)",
                  "config._validate_version_with_pattern: current_version is not parsed with the configured pattern", f"{[unparse(c) for c in cs]}", loc=vf.loc())


def outcome_edges_of_call(cfg: CFG, fn: FunctionInfo, call: ast.Call, outcome: bool) -> T.Optional[T.List[T.Tuple[int, int, T.Any]]]:
    """CFG edges taken when the value of `call` is truthy (outcome=True) / falsy: the call is a branch test itself (possibly
    under `not`), or it is bound to a single-assignment flag local that is a branch test.  None if neither."""
    def edges(nid: int, positive: bool) -> T.List[T.Tuple[int, int, T.Any]]:
        return cfg.edges_of_test(nid, "T" if positive == outcome else "F")
    for n in cfg.nodes:
        if n.kind != "test" or n.ast is None:
            continue
        t, pos = n.ast, True
        while isinstance(t, ast.UnaryOp) and isinstance(t.op, ast.Not):
            t, pos = t.operand, not pos
        if t is call:
            return edges(n.id, pos)
    flags = [tg.id for st, tg, v in iter_assigns(fn.node) if v is call and isinstance(tg, ast.Name)]
    if len(flags) == 1 and len(local_defs(fn, flags[0])) == 1:
        out: T.List[T.Tuple[int, int, T.Any]] = []
        for n in cfg.nodes:
            if n.kind != "test" or n.ast is None:
                continue
            t, pos = n.ast, True
            while isinstance(t, ast.UnaryOp) and isinstance(t.op, ast.Not):
                t, pos = t.operand, not pos
            if isinstance(t, ast.Name) and t.id == flags[0]:
                out += edges(n.id, pos)
        return out or None
    return None


def guards_between(loop: ast.For, target: ast.AST) -> T.List[ast.AST]:
    """The tests of the `if` statements (and conditional expressions) inside `loop` that enclose `target`."""
    out: T.List[ast.AST] = []

    def rec(stmts: T.List[ast.stmt], chain: T.List[ast.AST]) -> bool:
        for st in stmts:
            if any(x is target for x in ast.walk(st)):
                if isinstance(st, ast.If):
                    if any(x is target for b in st.body for x in ast.walk(b)) or any(x is target for b in st.orelse for x in ast.walk(b)):
                        chain = chain + [st.test]
                        out[:] = chain
                        rec(st.body, chain) or rec(st.orelse, chain)
                        return True
                out[:] = chain
                for fld in ("body", "orelse", "finalbody"):
                    sub = getattr(st, fld, None)
                    if isinstance(sub, list) and sub and isinstance(sub[0], ast.stmt) and rec(sub, chain):
                        return True
                return True
        return False
    rec(loop.body, [])
    return out


def record_labels(prog: Program, fn: FunctionInfo, eng: str) -> T.List[T.Tuple[ast.Call, str]]:
    """How `fn` labels the rewritten records with a path: `<record>._replace(path=E)`, or the `path` argument of
    <eng>.rfd_from_content(...) when that function hands its `path` parameter to the record.  (call, text of E) each."""
    out: T.List[T.Tuple[ast.Call, str]] = []
    rfc = prog.function(f"{eng}.rfd_from_content") if prog.has_function(f"{eng}.rfd_from_content") else None
    passes_on = False
    if rfc is not None and "path" in rfc.all_params:
        ctor = [c for c in ast.walk(rfc.node) if isinstance(c, ast.Call) and unparse(c.func).endswith("RewrittenFileData")]
        if len(ctor) == 1:
            first = ctor[0].args[0] if ctor[0].args else kwargs_of(ctor[0]).get("path")
            stores = [n for n in ast.walk(rfc.node) if isinstance(n, ast.Name) and n.id == "path" and isinstance(n.ctx, ast.Store)]
            passes_on = first is not None and unparse(first) == "path" and not stores
    for c in ast.walk(fn.node):
        if not isinstance(c, ast.Call):
            continue
        if isinstance(c.func, ast.Attribute) and c.func.attr == "_replace" and "path" in kwargs_of(c):
            out.append((c, unparse(kwargs_of(c)["path"])))
        elif passes_on and unparse(c.func) in ("rfd_from_content", f"{eng}.rfd_from_content"):
            a = call_arg(c, rfc, "path")
            if a is not None:
                out.append((c, unparse(a)))
    return out


def printed_texts(fn: FunctionInfo, call: ast.Call) -> T.List[ast.AST]:
    """The text expressions an echo / log call may print: its argument, or - when the argument is a name - what that name
    stands for: a local bound once, the element of a list that is filled by a display and `.append(...)` and walked by the
    `for` loop whose target the name is, or the parts of `sep.join(<that list>)`."""
    if not call.args:
        return []
    arg = call.args[0]

    def list_elements(name: str) -> T.List[ast.AST]:
        out: T.List[ast.AST] = []
        for n in walk_no_nested(fn.node):
            tgt = n.targets[0] if isinstance(n, ast.Assign) and len(n.targets) == 1 else (n.target if isinstance(n, ast.AnnAssign) and n.value is not None else None)
            if isinstance(tgt, ast.Name) and tgt.id == name and isinstance(n.value, (ast.List, ast.Tuple)):
                out += list(n.value.elts)
            if isinstance(n, ast.Call) and isinstance(n.func, ast.Attribute) and n.func.attr in ("append", "insert") and isinstance(n.func.value, ast.Name) and n.func.value.id == name and n.args:
                out.append(n.args[-1])
            if isinstance(n, ast.AugAssign) and isinstance(n.target, ast.Name) and n.target.id == name and isinstance(n.value, (ast.List, ast.Tuple)):
                out += list(n.value.elts)
        return out
    if isinstance(arg, ast.Name):
        loops = [n for n in walk_no_nested(fn.node) if isinstance(n, ast.For) and isinstance(n.target, ast.Name) and n.target.id == arg.id and any(c is call for c in ast.walk(n))]
        if loops and isinstance(loops[0].iter, ast.Name):
            return list_elements(loops[0].iter.id)
        if loops and isinstance(loops[0].iter, (ast.List, ast.Tuple)):
            return list(loops[0].iter.elts)
        v = resolve_alias(fn, arg)
        if isinstance(v, ast.Call) and isinstance(v.func, ast.Attribute) and v.func.attr == "join" and len(v.args) == 1 and isinstance(v.args[0], ast.Name):
            return list_elements(v.args[0].id)
        return [v]
    if isinstance(arg, ast.Call) and isinstance(arg.func, ast.Attribute) and arg.func.attr == "join" and len(arg.args) == 1 and isinstance(arg.args[0], ast.Name):
        return list_elements(arg.args[0].id)
    return [arg]
