"""E0 - program model of bumpver: modules, imports, functions, classes,
constant folding and call resolution.  Pure `ast`; bumpver is never imported."""
from __future__ import annotations

import ast
import hashlib
import os
import sys
import typing as T


class AnalysisError(Exception):
    """The analysis cannot decide (vanished anchor, unrecognised shape).  exit 2."""


class EvalError(Exception):
    """Strict evaluation (env['__strict__']): the evaluated code itself raises or does not terminate."""


class Abstract:
    """Marker base class of rule-supplied abstract objects: the folder reads their attributes and calls their methods."""


class Raised(Exception, Abstract):
    """An exception of the evaluated program: thrown by a rule's stub (or made from a `raise` statement); `try` statements of
    the evaluated code catch it by class name."""

    def __init__(self, name: str, bases: T.Sequence[str] = (), message: str = ""):
        Exception.__init__(self, message or name)
        self.name, self.message = name, message
        import builtins as _b
        cls_ = getattr(_b, name, None)
        mro_ = [c_.__name__ for c_ in cls_.__mro__] if isinstance(cls_, type) and issubclass(cls_, BaseException) else [name, "Exception", "BaseException"]
        self.kinds = set(mro_) | set(bases) | {name}
        if "OSError" in self.kinds:
            self.kinds |= {"IOError", "EnvironmentError"}

    def is_a(self, type_name: str) -> bool:
        return type_name in self.kinds

    def __str__(self) -> str:
        return self.message or self.name


class _FuncReturn(Exception):
    def __init__(self, value: T.Any):
        self.value = value


class _LoopBreak(Exception):
    pass


class _LoopContinue(Exception):
    pass


class _InlineExit(Exception):
    """Leaves the `with __inline__:` block that the normaliser made of an expanded helper call (the helper's `return`)."""


class CannotFold(AnalysisError):
    pass


PKG = "bumpver"
BUILTINS = set(dir(__builtins__)) if not isinstance(__builtins__, dict) else set(__builtins__)


def unparse(node: ast.AST) -> str:
    return ast.unparse(node)


class FunctionInfo:
    def __init__(self, module: "Module", qualname: str, node: ast.AST, cls: T.Optional["ClassInfo"]):
        self.module = module
        self.qualname = qualname          # e.g. "VCSAPI.commit" or "update"
        self.node = node                  # ast.FunctionDef
        self.cls = cls
        self.name = node.name
        self.decorators = [unparse(d) for d in node.decorator_list]
        self.is_generator = _is_generator(node)
        a = node.args
        self.params: T.List[str] = [x.arg for x in a.posonlyargs + a.args]
        self.kwonly: T.List[str] = [x.arg for x in a.kwonlyargs]
        self.vararg = a.vararg.arg if a.vararg else None
        self.kwarg = a.kwarg.arg if a.kwarg else None
        self.annotations: T.Dict[str, ast.AST] = {}
        for x in a.posonlyargs + a.args + a.kwonlyargs:
            if x.annotation is not None:
                self.annotations[x.arg] = x.annotation
        self.returns = node.returns
        # defaults by name
        self.defaults: T.Dict[str, ast.AST] = {}
        pos = a.posonlyargs + a.args
        for p, d in zip(pos[len(pos) - len(a.defaults):], a.defaults):
            self.defaults[p.arg] = d
        for p, d in zip(a.kwonlyargs, a.kw_defaults):
            if d is not None:
                self.defaults[p.arg] = d

    @property
    def fq(self) -> str:
        return f"{self.module.name}.{self.qualname}"

    @property
    def all_params(self) -> T.List[str]:
        return self.params + self.kwonly

    def loc(self, node: T.Optional[ast.AST] = None) -> str:
        n = node if node is not None else self.node
        return f"{self.module.relpath}:{getattr(n, 'lineno', 0)}"

    def __repr__(self) -> str:
        return f"<fn {self.fq}>"


def _is_generator(fn: ast.AST) -> bool:
    for n in walk_no_nested(fn):
        if isinstance(n, (ast.Yield, ast.YieldFrom)):
            return True
    return False


def walk_no_nested(fn: ast.AST) -> T.Iterator[ast.AST]:
    """Walk the body of a function without descending into nested defs/lambdas/classes."""
    stack = list(ast.iter_child_nodes(fn))
    while stack:
        n = stack.pop()
        yield n
        if isinstance(n, (ast.FunctionDef, ast.AsyncFunctionDef, ast.ClassDef, ast.Lambda)):
            continue
        stack.extend(ast.iter_child_nodes(n))


class ClassInfo:
    def __init__(self, module: "Module", node: ast.ClassDef):
        self.module = module
        self.node = node
        self.name = node.name
        self.bases = [unparse(b) for b in node.bases]
        self.methods: T.Dict[str, FunctionInfo] = {}
        self.fields: T.List[str] = []           # annotated class-level names in order
        self.field_annotations: T.Dict[str, ast.AST] = {}
        self.class_consts: T.Dict[str, ast.AST] = {}
        for st in node.body:
            if isinstance(st, ast.AnnAssign) and isinstance(st.target, ast.Name):
                self.fields.append(st.target.id)
                self.field_annotations[st.target.id] = st.annotation
                if st.value is not None:
                    self.class_consts[st.target.id] = st.value
            elif isinstance(st, ast.Assign) and len(st.targets) == 1 and isinstance(st.targets[0], ast.Name):
                self.class_consts[st.targets[0].id] = st.value

    @property
    def fq(self) -> str:
        return f"{self.module.name}.{self.name}"

    @property
    def is_namedtuple(self) -> bool:
        return any(b.endswith("NamedTuple") for b in self.bases)


class Module:
    def __init__(self, name: str, path: str, relpath: str, data: bytes, tree: ast.Module, expanded_calls: int = 0):
        self.name = name
        self.path = path
        self.relpath = relpath
        self.sha256 = hashlib.sha256(data).hexdigest()
        self.src = data.decode("utf-8")
        self.tree = tree
        self.expanded_calls = expanded_calls
        self.imports: T.Dict[str, T.Tuple[str, ...]] = {}
        self.functions: T.Dict[str, FunctionInfo] = {}
        self.classes: T.Dict[str, ClassInfo] = {}
        self.consts: T.Dict[str, T.List[ast.AST]] = {}   # name -> list of value nodes (in order)
        self.const_stmts: T.Dict[str, T.List[ast.AST]] = {}
        self._index()

    def _index(self) -> None:
        for st in self.tree.body:
            self._index_stmt(st)

    def _index_stmt(self, st: ast.stmt) -> None:
        if isinstance(st, ast.Import):
            for al in st.names:
                local = al.asname or al.name.split(".")[0]
                self.imports[local] = ("extmod", al.name if al.asname else al.name.split(".")[0])
        elif isinstance(st, ast.ImportFrom):
            modname = st.module or ""
            internal = st.level > 0 or modname == PKG or modname.startswith(PKG + ".")
            for al in st.names:
                local = al.asname or al.name
                if internal:
                    base = modname
                    if base.startswith(PKG):
                        base = base[len(PKG):].lstrip(".")
                    if base == "":
                        self.imports[local] = ("mod", al.name)           # from . import vcs
                    else:
                        self.imports[local] = ("name", base, al.name)    # from .patterns import Pattern
                else:
                    self.imports[local] = ("extname", modname, al.name)
        elif isinstance(st, (ast.FunctionDef, ast.AsyncFunctionDef)):
            self.functions[st.name] = FunctionInfo(self, st.name, st, None)
        elif isinstance(st, ast.ClassDef):
            ci = ClassInfo(self, st)
            self.classes[st.name] = ci
            for sub in st.body:
                if isinstance(sub, (ast.FunctionDef, ast.AsyncFunctionDef)):
                    fi = FunctionInfo(self, f"{st.name}.{sub.name}", sub, ci)
                    ci.methods[sub.name] = fi
                    self.functions[fi.qualname] = fi
        elif isinstance(st, ast.Assign):
            for tgt in st.targets:
                if isinstance(tgt, ast.Name):
                    self.consts.setdefault(tgt.id, []).append(st.value)
                    self.const_stmts.setdefault(tgt.id, []).append(st)
        elif isinstance(st, ast.AnnAssign) and isinstance(st.target, ast.Name) and st.value is not None:
            self.consts.setdefault(st.target.id, []).append(st.value)
            self.const_stmts.setdefault(st.target.id, []).append(st)
        elif isinstance(st, ast.Try):
            for sub in st.body + sum((h.body for h in st.handlers), []) + st.orelse + st.finalbody:
                self._index_stmt(sub)
        elif isinstance(st, ast.If):
            for sub in st.body + st.orelse:
                self._index_stmt(sub)


class Target:
    """Resolved callee / name."""

    def __init__(self, kind: str, name: str, fn: T.Optional[FunctionInfo] = None,
                 cls: T.Optional[ClassInfo] = None, recv: T.Optional[ast.AST] = None):
        self.kind = kind      # 'func' | 'class' | 'ext' | 'builtin' | 'method' | 'unknown'
        self.name = name      # fq name or dotted external name or method attr
        self.fn = fn
        self.cls = cls
        self.recv = recv

    def __repr__(self) -> str:
        return f"<{self.kind}:{self.name}>"


class Program:
    def __init__(self, repo: str):
        self.repo = repo
        self.src_root = os.path.join(repo, "src", PKG)
        if not os.path.isdir(self.src_root):
            raise AnalysisError(f"source root not found: {self.src_root}")
        self.modules: T.Dict[str, Module] = {}
        raw: T.Dict[str, T.Tuple[str, bytes]] = {}
        trees: T.Dict[str, ast.Module] = {}
        for fn in sorted(os.listdir(self.src_root)):
            if fn.endswith(".py"):
                name = fn[:-3]
                path = os.path.join(self.src_root, fn)
                with open(path, "rb") as fobj:
                    data = fobj.read()
                try:
                    trees[name] = ast.parse(data.decode("utf-8"), filename=path)
                except SyntaxError as ex:
                    raise AnalysisError(f"cannot parse {path}: {ex}")
                raw[name] = (path, data)
        # E0b: undo extract-function refactorings relative to the pinned tree's function list (see sa/normalise.py)
        from .normalise import normalise_program
        expanded = normalise_program(trees)
        for name, (path, data) in raw.items():
            self.modules[name] = Module(name, path, f"src/{PKG}/{os.path.basename(path)}", data, trees[name], expanded.get(name, 0))
        self._fold_cache: T.Dict[T.Tuple[str, str], T.Any] = {}
        self.resolved_calls = 0
        self.unresolved_calls = 0
        self.consulted: T.Set[str] = set()

    # ------------------------------------------------------------------ lookup
    def module(self, name: str) -> Module:
        if name not in self.modules:
            raise AnalysisError(f"anchor module vanished: {name}")
        self.consulted.add(name)
        return self.modules[name]

    def function(self, fq: str) -> FunctionInfo:
        modname, _, qual = fq.partition(".")
        mod = self.module(modname)
        if qual not in mod.functions:
            raise AnalysisError(f"anchor function vanished: {fq}")
        return mod.functions[qual]

    def has_function(self, fq: str) -> bool:
        modname, _, qual = fq.partition(".")
        return modname in self.modules and qual in self.modules[modname].functions

    def klass(self, fq: str) -> ClassInfo:
        modname, _, name = fq.partition(".")
        mod = self.module(modname)
        if name not in mod.classes:
            raise AnalysisError(f"anchor class vanished: {fq}")
        return mod.classes[name]

    def all_functions(self) -> T.Iterator[FunctionInfo]:
        for mod in self.modules.values():
            yield from mod.functions.values()

    # ------------------------------------------------------------ const folding
    def const(self, modname: str, name: str) -> T.Any:
        key = (modname, name)
        if key in self._fold_cache:
            return self._fold_cache[key]
        mod = self.module(modname)
        if name not in mod.consts:
            raise AnalysisError(f"anchor constant vanished: {modname}.{name}")
        if len(mod.consts[name]) != 1:
            raise CannotFold(f"{modname}.{name} is assigned {len(mod.consts[name])} times at module level")
        val = self.fold(mod, mod.consts[name][0])
        self._fold_cache[key] = val
        return val

    def const_node(self, modname: str, name: str) -> ast.AST:
        mod = self.module(modname)
        if name not in mod.consts:
            raise AnalysisError(f"anchor constant vanished: {modname}.{name}")
        return mod.consts[name][-1]

    def fold(self, mod: Module, node: ast.AST, env: T.Optional[T.Dict[str, T.Any]] = None) -> T.Any:
        """Fold a constant expression.  Supports literals, containers, OrderedDict([...]),
        dict(...), +, %-free string ops (.lstrip/.strip/.lower/.upper/.format not folded),
        names of other folded module constants (also through imports)."""
        f = lambda n: self.fold(mod, n, env)
        if isinstance(node, ast.Constant):
            return node.value
        if isinstance(node, ast.JoinedStr):
            parts = []
            for v in node.values:
                if isinstance(v, ast.Constant):
                    parts.append(v.value)
                elif isinstance(v, ast.FormattedValue) and v.format_spec is None and v.conversion == -1:
                    parts.append(str(f(v.value)))
                else:
                    raise CannotFold(f"f-string part not foldable: {unparse(node)}")
            return "".join(parts)
        if isinstance(node, ast.Tuple):
            return tuple(f(e) for e in node.elts)
        if isinstance(node, ast.List):
            return [f(e) for e in node.elts]
        if isinstance(node, ast.Set):
            return set(f(e) for e in node.elts)
        if isinstance(node, ast.Dict):
            out = {}
            for k, v in zip(node.keys, node.values):
                if k is None:
                    out.update(f(v))
                else:
                    out[f(k)] = f(v)
            return out
        if isinstance(node, ast.BinOp) and isinstance(node.op, ast.Add):
            return f(node.left) + f(node.right)
        if isinstance(node, ast.BinOp) and isinstance(node.op, ast.BitOr):
            return f(node.left) | f(node.right)
        if isinstance(node, ast.BinOp) and isinstance(node.op, ast.BitAnd):
            l_a, r_a = f(node.left), f(node.right)
            if isinstance(l_a, (set, frozenset, int)) and isinstance(r_a, (set, frozenset, int)):
                return l_a & r_a
            raise CannotFold(f"& not foldable: {unparse(node)[:60]}")
        if isinstance(node, ast.BinOp) and isinstance(node.op, (ast.Sub, ast.Mult, ast.FloorDiv, ast.Mod)):
            import operator as _o
            l2, r2 = f(node.left), f(node.right)
            if isinstance(node.op, ast.Mod) and isinstance(l2, str):
                return l2 % r2
            if not all(isinstance(x_, int) and not isinstance(x_, bool) for x_ in (l2, r2)) and not (isinstance(node.op, ast.Mult) and isinstance(l2, (str, int)) and isinstance(r2, (str, int))):
                raise CannotFold(f"arithmetic on non-integers: {unparse(node)[:60]}")
            try:
                return {ast.Sub: _o.sub, ast.Mult: _o.mul, ast.FloorDiv: _o.floordiv, ast.Mod: _o.mod}[type(node.op)](l2, r2)
            except ZeroDivisionError:
                raise CannotFold("division by zero")
        if isinstance(node, ast.BinOp) and isinstance(node.op, ast.Div):
            l_ = f(node.left)
            if not hasattr(l_, "__sym_div__"):
                raise CannotFold(f"division not foldable: {unparse(node)[:60]}")
            return l_.__sym_div__(f(node.right))
        if isinstance(node, ast.UnaryOp) and isinstance(node.op, ast.USub):
            return -f(node.operand)
        if isinstance(node, ast.Name):
            if env and node.id in env:
                return env[node.id]
            if env and env.get("__strict__") and node.id in env.get("__locals__", ()):
                # a local of the evaluated function that no statement on this path has bound yet
                err_ = EvalError(f"local `{node.id}` is read before it is bound (UnboundLocalError)")
                err_.raised = "UnboundLocalError"          # type: ignore[attr-defined]
                raise err_
            if node.id in mod.consts:
                return self.const(mod.name, node.id)
            imp = mod.imports.get(node.id)
            if imp and imp[0] == "name":
                return self.const(imp[1], imp[2])
            if node.id in ("True", "False", "None"):
                return {"True": True, "False": False, "None": None}[node.id]
            raise CannotFold(f"name not foldable: {node.id} in {mod.name}")
        if isinstance(node, ast.Attribute):
            # NamedTuple._fields of a class of the program
            if node.attr == "_fields" and not (env and isinstance(node.value, ast.Name) and node.value.id in env):
                cls_ = None
                if isinstance(node.value, ast.Name) and node.value.id in mod.classes:
                    cls_ = mod.classes[node.value.id]
                elif isinstance(node.value, ast.Attribute) and isinstance(node.value.value, ast.Name) and not (env and node.value.value.id in env):
                    imp_ = mod.imports.get(node.value.value.id)
                    if imp_ and imp_[0] == "mod" and imp_[1] in self.modules and node.value.attr in self.modules[imp_[1]].classes:
                        cls_ = self.modules[imp_[1]].classes[node.value.attr]
                if cls_ is not None and cls_.is_namedtuple:
                    return tuple(cls_.fields)
            # module.CONST
            if isinstance(node.value, ast.Name) and not (env and node.value.id in env):
                imp = mod.imports.get(node.value.id)
                if imp and imp[0] == "mod":
                    return self.const(imp[1], node.attr)
                # Enum member value:  TagScope.DEFAULT  -> its string
                if node.value.id in mod.classes:
                    ci = mod.classes[node.value.id]
                    if node.attr in ci.class_consts:
                        return self.fold(mod, ci.class_consts[node.attr], env)
            if isinstance(node.value, ast.Attribute) and node.attr == "value":
                return f(node.value)
            # attributes of a symbolic pathlib value supplied through env
            import pathlib as _pl
            try:
                base_ = f(node.value)
            except CannotFold:
                base_ = None
            if isinstance(base_, _pl.PurePath) and node.attr in ("name", "suffix", "stem", "suffixes", "parent", "parts"):
                return getattr(base_, node.attr)
            import types as _ty
            if isinstance(base_, (_ty.SimpleNamespace, Abstract)) and hasattr(base_, node.attr):
                return getattr(base_, node.attr)          # a symbolic record supplied through env
            if isinstance(base_, tuple) and node.attr in getattr(base_, "_fields", ()):
                return getattr(base_, node.attr)          # a folded NamedTuple record
            raise CannotFold(f"attribute not foldable: {unparse(node)}")
        if isinstance(node, ast.Call):
            fn = node.func
            # methods of rule-supplied abstract objects
            if isinstance(fn, ast.Attribute) and not (env is not None and unparse(fn) in env.get("__stubs__", {})):
                try:
                    recv_ = f(fn.value)
                except CannotFold:
                    recv_ = None
                if isinstance(recv_, Abstract) and callable(getattr(recv_, fn.attr, None)):
                    args_ = [f(a) for a in node.args]
                    kw_a = {}
                    for k in node.keywords:
                        if k.arg is None:
                            splat_a = f(k.value)
                            if not isinstance(splat_a, dict):
                                raise CannotFold(f"**splat not foldable: {unparse(node)[:60]}")
                            kw_a.update(splat_a)
                        else:
                            kw_a[k.arg] = f(k.value)
                    try:
                        return getattr(recv_, fn.attr)(*args_, **kw_a)
                    except (TypeError, ValueError) as ex_:
                        # the abstract object stands for a real one: what it refuses, the program's call raises
                        if env is not None and env.get("__strict__"):
                            err_ = EvalError(f"`{unparse(node)[:60]}` raises {type(ex_).__name__} ({str(ex_)[:60]})")
                            err_.raised = type(ex_).__name__          # type: ignore[attr-defined]
                            raise err_
                        raise
                import re as _re3
                if isinstance(recv_, (_re3.Pattern, _re3.Match)) and fn.attr in ("search", "match", "fullmatch", "sub", "subn", "findall", "split", "group", "groups", "groupdict", "start", "end", "span"):
                    # a compiled expression of the program (a folded `re.compile(<constant>)`) applied to folded text: the standard library decides
                    return getattr(recv_, fn.attr)(*[f(a) for a in node.args], **{k.arg: f(k.value) for k in node.keywords if k.arg})
                if env is not None and env.get("__strict__") and recv_ is not None and isinstance(recv_, (dict, list, tuple, str, int, set, frozenset, Abstract)) \
                        and not isinstance(recv_, Raised) and not hasattr(recv_, fn.attr):
                    err_ = EvalError(f"`{unparse(node)[:60]}` raises AttributeError ({type(recv_).__name__} has no `{fn.attr}`)")
                    err_.raised = "AttributeError"          # type: ignore[attr-defined]
                    raise err_
            # str methods on folded receivers
            if isinstance(fn, ast.Attribute) and fn.attr in ("lstrip", "rstrip", "strip", "lower", "upper", "split", "keys", "values", "items", "replace", "startswith", "endswith", "join", "format", "zfill", "rjust", "ljust", "title", "capitalize",
                                                             "partition", "rpartition", "rsplit", "splitlines", "casefold", "isdigit", "find", "rfind", "index", "count"):
                recv = f(fn.value)
                args = [f(a) for a in node.args]
                if fn.attr in ("keys", "values", "items"):
                    return list(getattr(recv, fn.attr)())
                if isinstance(recv, str) and fn.attr == "join" and env is not None and env.get("__strict__"):
                    try:
                        return recv.join(*args)
                    except TypeError as ex_:
                        raise EvalError(f"`{unparse(node)[:60]}` raises TypeError ({ex_})")
                if isinstance(recv, str):
                    if fn.attr == "format":
                        kw_ = {}
                        for k in node.keywords:
                            if k.arg is None:
                                splat_ = f(k.value)
                                if not isinstance(splat_, dict):
                                    raise CannotFold(f"format(**..) not foldable: {unparse(node)[:60]}")
                                kw_.update(splat_)
                            else:
                                kw_[k.arg] = f(k.value)
                        try:
                            return recv.format(*args, **kw_)
                        except (KeyError, IndexError, ValueError) as ex_:
                            if env is not None and env.get("__strict__"):
                                err_ = EvalError(f"`{unparse(node)[:60]}` raises {type(ex_).__name__} ({str(ex_)[:40]})")
                                err_.raised = type(ex_).__name__          # type: ignore[attr-defined]
                                raise err_
                            raise CannotFold(f"format fails: {unparse(node)[:60]}")
                    return getattr(recv, fn.attr)(*args)
                raise CannotFold(f"method on non-str: {unparse(node)}")
            if isinstance(fn, ast.Attribute) and fn.attr == "get" and 1 <= len(node.args) <= 2 and not node.keywords:
                recv = f(fn.value)
                if isinstance(recv, dict):
                    return recv.get(*[f(a) for a in node.args])
                raise CannotFold(f"get on non-dict: {unparse(node)[:60]}")
            cname = unparse(fn)
            if env is not None and isinstance(fn, ast.Name) and callable(env.get(fn.id)) and env.get("__strict__") is not None:
                return env[fn.id](*[f(a) for a in node.args], **{k.arg: f(k.value) for k in node.keywords if k.arg})          # a rule-supplied callable bound to a local
            if env is not None and cname in env.get("__stubs__", {}):
                return env["__stubs__"][cname](f, node)          # an abstract callee supplied by the rule (gets the folder and the call)
            if cname == "next" and len(node.args) in (1, 2) and not node.keywords:
                src_ = node.args[0]
                if isinstance(src_, ast.GeneratorExp):
                    src_ = ast.copy_location(ast.ListComp(elt=src_.elt, generators=src_.generators), src_)
                seq_ = f(src_)
                if isinstance(seq_, (list, tuple)):
                    if seq_:
                        return seq_[0]
                    if len(node.args) == 2:
                        return f(node.args[1])
                    if env is not None and env.get("__strict__"):
                        err_ = EvalError(f"`{unparse(node)[:60]}` raises StopIteration")
                        err_.raised = "StopIteration"          # type: ignore[attr-defined]
                        raise err_
                raise CannotFold(f"next not foldable: {unparse(node)[:60]}")
            if cname == "len" and len(node.args) == 1:
                return len(f(node.args[0]))
            if cname in ("str", "int", "bool", "abs") and len(node.args) == 1 and not node.keywords:
                v_ = f(node.args[0])
                if cname == "bool" and (v_ is None or isinstance(v_, (tuple, list, dict, set, frozenset))):
                    return bool(v_)
                if not isinstance(v_, (str, int, bool)):
                    raise CannotFold(f"conversion not foldable: {unparse(node)[:60]}")
                try:
                    return {"str": str, "int": int, "bool": bool, "abs": abs}[cname](v_)
                except (ValueError, TypeError):
                    raise CannotFold(f"conversion fails: {unparse(node)[:60]}")
            if cname == "int" and (len(node.args) == 2 and not node.keywords or len(node.args) == 1 and [k.arg for k in node.keywords] == ["base"]):
                v_ = f(node.args[0])
                b_ = f(node.args[1]) if len(node.args) == 2 else f(node.keywords[0].value)
                if not isinstance(v_, str) or not isinstance(b_, int):
                    raise CannotFold(f"conversion not foldable: {unparse(node)[:60]}")
                try:
                    return int(v_, b_)
                except ValueError:
                    if env is not None and env.get("__strict__"):
                        err_ = EvalError(f"`{unparse(node)[:60]}` raises ValueError")
                        err_.raised = "ValueError"          # type: ignore[attr-defined]
                        raise err_
                    raise CannotFold(f"conversion fails: {unparse(node)[:60]}")
            if cname == "isinstance" and len(node.args) == 2 and not node.keywords:
                types_ = {"int": int, "str": str, "bool": bool, "tuple": tuple, "list": list, "dict": dict, "bytes": bytes, "float": float}
                t_ = node.args[1]
                names_ = [unparse(x) for x in t_.elts] if isinstance(t_, ast.Tuple) else [unparse(t_)]
                if all(n_ in types_ for n_ in names_):
                    return isinstance(f(node.args[0]), tuple(types_[n_] for n_ in names_))
                if env is not None and env.get("__strict__") and unparse(node.args[0]) in types_:
                    raise EvalError(f"`{unparse(node)[:60]}` raises TypeError")
                raise CannotFold(f"isinstance not foldable: {unparse(node)[:60]}")
            if cname in ("itertools.dropwhile", "itertools.takewhile", "filter", "map") and len(node.args) == 2 and not node.keywords:
                import itertools as _it
                fn_ = f(node.args[0])
                if not callable(fn_):
                    raise CannotFold(f"{cname} without a foldable function: {unparse(node)[:60]}")
                return list({"itertools.dropwhile": _it.dropwhile, "itertools.takewhile": _it.takewhile, "filter": filter, "map": map}[cname](fn_, f(node.args[1])))
            if cname in ("enumerate", "zip", "range", "reversed") and not any(k.arg is None for k in node.keywords):
                try:
                    return list({"enumerate": enumerate, "zip": zip, "range": range, "reversed": reversed}[cname](*[f(a) for a in node.args], **{k.arg: f(k.value) for k in node.keywords}))
                except TypeError:
                    raise CannotFold(f"{cname} not foldable: {unparse(node)[:60]}")
            if cname == "getattr" and len(node.args) in (2, 3) and not node.keywords:
                import types as _ty2
                obj_, nm_ = f(node.args[0]), f(node.args[1])
                if isinstance(obj_, (_ty2.SimpleNamespace, Abstract)) and isinstance(nm_, str):
                    if hasattr(obj_, nm_):
                        return getattr(obj_, nm_)
                    if len(node.args) == 3:
                        return f(node.args[2])
                raise CannotFold(f"getattr not foldable: {unparse(node)[:60]}")
            if cname in ("min", "max") and node.args and not node.keywords:
                try:
                    return {"min": min, "max": max}[cname](*[f(a) for a in node.args])
                except (TypeError, ValueError):
                    raise CannotFold(f"{cname} not foldable: {unparse(node)[:60]}")
            if cname in ("any", "all", "sum") and len(node.args) == 1 and not node.keywords:
                return {"any": any, "all": all, "sum": sum}[cname](f(node.args[0]))
            if cname in ("re.compile", "re.search", "re.match", "re.fullmatch", "re.findall", "re.split") and node.args and not (env is not None and cname in env.get("__stubs__", {})):
                import re as _re4
                a4_ = [f(x) for x in node.args]
                k4_ = {k.arg: f(k.value) for k in node.keywords if k.arg}
                if all(isinstance(x, (str, int)) for x in a4_) and isinstance(a4_[0], str):
                    try:
                        return getattr(_re4, cname[3:])(*a4_, **k4_)
                    except _re4.error:
                        raise CannotFold(f"regex does not compile: {unparse(node)[:60]}")
            if cname in ("re.sub", "re.subn") and len(node.args) in (3, 4) and all(k.arg in ("count", "flags") for k in node.keywords):
                import re as _re2
                a_ = [f(x) for x in node.args]
                if all(isinstance(x, (str, int)) for x in a_) and isinstance(a_[0], str) and isinstance(a_[1], str) and isinstance(a_[2], str):
                    try:
                        return getattr(_re2, cname[3:])(*a_, **{k.arg: f(k.value) for k in node.keywords})
                    except _re2.error:
                        raise CannotFold(f"regex does not compile: {unparse(node)[:60]}")
            if cname == "re.escape" and len(node.args) == 1:
                import re as _re
                return _re.escape(f(node.args[0]))
            if cname in ("collections.OrderedDict", "OrderedDict", "dict"):
                out = {}
                if node.args:
                    arg = f(node.args[0])
                    if isinstance(arg, dict):
                        out.update(arg)
                    else:
                        for k, v in arg:
                            out[k] = v
                for kw in node.keywords:
                    if kw.arg is None:
                        out.update(f(kw.value))
                    else:
                        out[kw.arg] = f(kw.value)
                return out
            if cname == "sorted" and node.keywords and len(node.args) == 1:
                kw_s: T.Dict[str, T.Any] = {}
                for k_ in node.keywords:
                    if k_.arg == "key" and isinstance(k_.value, ast.Name) and k_.value.id in ("len", "str", "int", "repr"):
                        kw_s["key"] = {"len": len, "str": str, "int": int, "repr": repr}[k_.value.id]
                    elif k_.arg in ("key", "reverse"):
                        kw_s[k_.arg] = f(k_.value)
                    else:
                        raise CannotFold(f"sorted keyword not foldable: {unparse(node)[:60]}")
                arg_s = f(node.args[0])
                if isinstance(arg_s, dict):
                    arg_s = list(arg_s.keys())
                try:
                    return sorted(arg_s, **kw_s)
                except TypeError:
                    raise CannotFold(f"sorted not foldable: {unparse(node)[:60]}")
            if cname in ("list", "tuple", "set", "frozenset", "sorted") and not node.keywords:
                if not node.args:
                    return {"list": [], "tuple": (), "set": set(), "frozenset": frozenset(), "sorted": []}[cname]
                arg = f(node.args[0])
                if isinstance(arg, dict):
                    arg = list(arg.keys())
                return {"list": list, "tuple": tuple, "set": set, "frozenset": frozenset, "sorted": sorted}[cname](arg)
            # a module-level table builder: straight-line constant propagation through
            #   `def h(a, b): [docstring]; (x = <expr> | x[k] = <expr> | x += <expr> | x.update/append/extend(<expr>)
            #                               | for t in <expr>: ... | if <expr>: ...)*; return <expr>`
            if isinstance(fn, ast.Name) and fn.id in mod.functions and not node.keywords:
                h = mod.functions[fn.id]
                body = [st for st in h.node.body if not (isinstance(st, ast.Expr) and isinstance(st.value, ast.Constant))]
                if body and isinstance(body[-1], ast.Return) and body[-1].value is not None and len(node.args) == len(h.params) and not (env is not None and env.get("__calls__")):
                    env2 = dict(zip(h.params, [f(a) for a in node.args]))
                    if env is not None and "__stubs__" in env:
                        env2["__stubs__"] = env["__stubs__"]
                    self._propagate(mod, body[:-1], env2, fn.id)
                    return self.fold(mod, body[-1].value, env2)
                if env is not None and env.get("__calls__") and len(node.args) <= len(h.params):
                    # evaluation mode: a sibling function (generator or with early returns) is evaluated as a whole
                    env3: T.Dict[str, T.Any] = dict(zip(h.params, [f(a) for a in node.args]))
                    for k_ in ("__stubs__", "__strict__", "__calls__"):
                        if k_ in env:
                            env3[k_] = env[k_]
                    ret_, ys_ = self.run_body(h, env3)
                    return ys_ if _is_generator(h.node) else ret_
            # a NamedTuple class of the same module, all fields given (no defaults involved): a record value
            if isinstance(fn, ast.Name) and fn.id in mod.classes and mod.classes[fn.id].is_namedtuple and not any(k.arg is None for k in node.keywords):
                cls_nt = mod.classes[fn.id]
                vals_nt = dict(zip(cls_nt.fields, [f(a) for a in node.args]))
                vals_nt.update({k.arg: f(k.value) for k in node.keywords})
                if list(vals_nt) == list(cls_nt.fields) or set(vals_nt) == set(cls_nt.fields):
                    import collections as _co
                    return _co.namedtuple(cls_nt.name, cls_nt.fields)(**vals_nt)
            raise CannotFold(f"call not foldable: {unparse(node)}")
        if isinstance(node, ast.DictComp) and len(node.generators) == 1:
            gen = node.generators[0]
            it = f(gen.iter)
            if isinstance(it, dict):
                it = list(it.keys())
            outd = {}
            for item in it:
                e2 = dict(env or {})
                _bind(gen.target, item, e2)
                if all(self.fold(mod, c, e2) for c in gen.ifs):
                    outd[self.fold(mod, node.key, e2)] = self.fold(mod, node.value, e2)
            return outd
        if isinstance(node, (ast.ListComp, ast.SetComp, ast.GeneratorExp)) and len(node.generators) == 1:
            gen = node.generators[0]
            it = f(gen.iter)
            if isinstance(it, dict):
                it = list(it.keys())
            out = []
            for item in it:
                e2 = dict(env or {})
                _bind(gen.target, item, e2)
                if all(self.fold(mod, c, e2) for c in gen.ifs):
                    out.append(self.fold(mod, node.elt, e2))
            return set(out) if isinstance(node, ast.SetComp) else out
        if isinstance(node, ast.Subscript):
            base = f(node.value)
            if isinstance(node.slice, ast.Slice):
                sl = node.slice
                idx = slice(f(sl.lower) if sl.lower is not None else None, f(sl.upper) if sl.upper is not None else None, f(sl.step) if sl.step is not None else None)
            else:
                idx = f(node.slice)
            try:
                return base[idx]
            except (KeyError, IndexError, TypeError) as ex_:
                if env is not None and env.get("__strict__"):
                    raise EvalError(f"`{unparse(node)[:60]}` raises {type(ex_).__name__}")
                raise CannotFold(f"subscript fails: {unparse(node)[:60]}")
        if isinstance(node, ast.BoolOp):
            res = f(node.values[0])                     # Python's own short-circuit: later operands may only be defined when reached
            for v in node.values[1:]:
                if isinstance(node.op, ast.And):
                    if not res:
                        return res
                elif res:
                    return res
                res = f(v)
            return res
        if isinstance(node, ast.UnaryOp) and isinstance(node.op, ast.Not):
            return not f(node.operand)
        if isinstance(node, ast.IfExp):
            return f(node.body) if f(node.test) else f(node.orelse)
        if isinstance(node, ast.Lambda) and not node.args.vararg and not node.args.kwarg and not node.args.kwonlyargs and not node.args.defaults:
            names_l = [a_.arg for a_ in node.args.args]
            return lambda *vals, _n=names_l, _b=node.body, _e=dict(env or {}): self.fold(mod, _b, dict(_e, **dict(zip(_n, vals))))
        if isinstance(node, ast.Compare) and len(node.ops) == 1:
            l, r = f(node.left), f(node.comparators[0])
            op = node.ops[0]
            if isinstance(op, ast.In):
                return l in r
            if isinstance(op, ast.NotIn):
                return l not in r
            if isinstance(op, ast.Eq):
                return l == r
            if isinstance(op, ast.NotEq):
                return l != r
            if isinstance(op, (ast.Lt, ast.LtE, ast.Gt, ast.GtE)):
                import operator as _o2
                try:
                    return {ast.Lt: _o2.lt, ast.LtE: _o2.le, ast.Gt: _o2.gt, ast.GtE: _o2.ge}[type(op)](l, r)
                except TypeError:
                    raise CannotFold(f"comparison not foldable: {unparse(node)[:60]}")
            if isinstance(op, (ast.Is, ast.IsNot)) and r is None:
                return (l is None) == isinstance(op, ast.Is)
        raise CannotFold(f"expression not foldable: {unparse(node)[:80]}")

    def run_body(self, fn: "FunctionInfo", env: T.Dict[str, T.Any]) -> T.Tuple[T.Any, T.List[T.Any]]:
        """Evaluate the body of `fn` with the folder for the given (abstract) argument values: (return value, yielded values).
        Raises CannotFold for anything outside the folder's statement and expression kinds."""
        body = [st for st in fn.node.body if not (isinstance(st, ast.Expr) and isinstance(st.value, ast.Constant))]
        env["__yields__"] = []
        env["__return__"] = True
        locals_ = getattr(fn, "_eval_locals", None)
        if locals_ is None:
            inner_ = {id(x) for sub in ast.walk(fn.node) if sub is not fn.node and isinstance(sub, (ast.FunctionDef, ast.Lambda, ast.ListComp, ast.SetComp, ast.DictComp, ast.GeneratorExp)) for x in ast.walk(sub)}
            locals_ = frozenset({x.id for x in ast.walk(fn.node) if isinstance(x, ast.Name) and isinstance(x.ctx, ast.Store) and id(x) not in inner_}
                                - {g_ for st in ast.walk(fn.node) if isinstance(st, (ast.Global, ast.Nonlocal)) for g_ in st.names})
            try:
                fn._eval_locals = locals_          # type: ignore[attr-defined]
            except AttributeError:
                pass
        env["__locals__"] = locals_
        try:
            self._propagate(fn.module, body, env, fn.fq)
        except _FuncReturn as r:
            return r.value, env["__yields__"]
        except (_LoopBreak, _LoopContinue):
            raise CannotFold(f"break/continue outside a loop: {fn.fq}")
        return None, env["__yields__"]

    def _propagate(self, mod: Module, stmts: T.List[ast.stmt], env: T.Dict[str, T.Any], who: str, depth: int = 0) -> None:
        """Constant propagation through the statements of a table-building helper (see fold)."""
        import copy as _copy
        if depth > 8:
            raise CannotFold(f"helper not foldable: {who} (nesting)")
        for st in stmts:
            if isinstance(st, ast.AnnAssign) and st.value is None:
                continue
            if isinstance(st, (ast.Assign, ast.AnnAssign)):
                tgt = st.targets[0] if isinstance(st, ast.Assign) and len(st.targets) == 1 else (st.target if isinstance(st, ast.AnnAssign) else None)
                val = _copy.deepcopy(self.fold(mod, st.value, env))
                if isinstance(tgt, ast.Name):
                    env[tgt.id] = val
                elif isinstance(tgt, (ast.Tuple, ast.List)) and all(isinstance(e_, ast.Name) for e_ in tgt.elts):
                    _bind(tgt, val, env)
                elif isinstance(tgt, ast.Subscript) and isinstance(tgt.value, ast.Name) and tgt.value.id in env and isinstance(env[tgt.value.id], (dict, list)):
                    env[tgt.value.id][self.fold(mod, tgt.slice, env)] = val
                else:
                    raise CannotFold(f"helper not foldable: {who}")
            elif isinstance(st, ast.AugAssign) and isinstance(st.op, ast.Add) and isinstance(st.target, ast.Name) and st.target.id in env:
                env[st.target.id] = env[st.target.id] + self.fold(mod, st.value, env)
            elif isinstance(st, ast.AugAssign) and isinstance(st.op, (ast.Sub, ast.Mult, ast.FloorDiv, ast.Mod)) and isinstance(st.target, ast.Name) and st.target.id in env:
                env[st.target.id] = self.fold(mod, ast.BinOp(left=ast.Name(id=st.target.id, ctx=ast.Load()), op=st.op, right=st.value), env)
            elif isinstance(st, ast.Expr) and isinstance(st.value, ast.Call) and isinstance(st.value.func, ast.Attribute) \
                    and isinstance(st.value.func.value, ast.Name) and st.value.func.value.id in env \
                    and st.value.func.attr in ("update", "append", "extend", "add", "setdefault", "pop", "remove", "insert", "clear", "discard", "reverse") and not st.value.keywords:
                recv = env[st.value.func.value.id]
                args = [self.fold(mod, a, env) for a in st.value.args]
                if not isinstance(recv, (dict, list, set)) or not hasattr(recv, st.value.func.attr):
                    raise CannotFold(f"helper not foldable: {who}")
                try:
                    getattr(recv, st.value.func.attr)(*args)
                except (IndexError, KeyError, ValueError) as ex_:
                    if env.get("__strict__"):
                        raise EvalError(f"`{unparse(st)[:60]}` raises {type(ex_).__name__}")
                    raise CannotFold(f"helper not foldable: {who} (`{unparse(st)[:40]}` fails)")
            elif isinstance(st, ast.Expr) and isinstance(st.value, ast.Call) and isinstance(st.value.func, ast.Attribute) and st.value.func.attr == "sort" \
                    and isinstance(st.value.func.value, ast.Name) and isinstance(env.get(st.value.func.value.id), list) and not st.value.args:
                kws_: T.Dict[str, T.Any] = {}
                for k_ in st.value.keywords:
                    if k_.arg == "key" and isinstance(k_.value, ast.Name) and k_.value.id in ("len", "str", "int", "repr"):
                        kws_["key"] = {"len": len, "str": str, "int": int, "repr": repr}[k_.value.id]
                    elif k_.arg in ("key", "reverse"):
                        kws_[k_.arg] = self.fold(mod, k_.value, env)
                    else:
                        raise CannotFold(f"helper not foldable: {who} (sort keyword)")
                try:
                    env[st.value.func.value.id].sort(**kws_)
                except TypeError:
                    raise CannotFold(f"helper not foldable: {who} (sort)")
            elif isinstance(st, ast.For) and not st.orelse:
                it = self.fold(mod, st.iter, env)
                if isinstance(it, dict):
                    it = list(it.keys())
                for item in list(it):
                    _bind(st.target, item, env)
                    try:
                        self._propagate(mod, st.body, env, who, depth + 1)
                    except _LoopBreak:
                        break
                    except _LoopContinue:
                        continue
            elif isinstance(st, ast.If):
                self._propagate(mod, st.body if self.fold(mod, st.test, env) else st.orelse, env, who, depth + 1)
            elif isinstance(st, ast.Assert):
                if env.get("__strict__") and not self.fold(mod, st.test, env):
                    raise EvalError(f"`assert {unparse(st.test)[:50]}` fails")
                continue
            elif isinstance(st, ast.Pass):
                continue
            elif isinstance(st, ast.Expr) and isinstance(st.value, ast.Call) and unparse(st.value.func).startswith(("logger.", "logging.")):
                continue          # logging has no effect on the values
            elif isinstance(st, ast.Expr) and isinstance(st.value, ast.Constant):
                continue
            elif isinstance(st, ast.Expr) and isinstance(st.value, ast.Yield) and "__yields__" in env:
                env["__yields__"].append(self.fold(mod, st.value.value, env) if st.value.value is not None else None)
            elif isinstance(st, ast.Expr) and isinstance(st.value, ast.YieldFrom) and "__yields__" in env:
                env["__yields__"].extend(list(self.fold(mod, st.value.value, env)))
            elif isinstance(st, ast.While) and not st.orelse:
                for _k in range(64):
                    if not self.fold(mod, st.test, env):
                        break
                    try:
                        self._propagate(mod, st.body, env, who, depth + 1)
                    except _LoopBreak:
                        break
                    except _LoopContinue:
                        continue
                else:
                    if env.get("__strict__"):
                        raise EvalError(f"`while {unparse(st.test)[:50]}` does not terminate (64 iterations)")
                    raise CannotFold(f"loop bound exceeded: {who}")
            elif isinstance(st, ast.Return) and "__return__" in env:
                raise _FuncReturn(self.fold(mod, st.value, env) if st.value is not None else None)
            elif isinstance(st, ast.Expr) and isinstance(st.value, ast.Call) and env.get("__strict__") is not None:
                self.fold(mod, st.value, env)          # evaluation mode: a call for its effect on the abstract values (stubbed or foldable)
            elif isinstance(st, ast.Raise) and env.get("__strict__"):
                exc_ = st.exc.func if isinstance(st.exc, ast.Call) else st.exc
                err_ = EvalError(f"raises {unparse(exc_) if exc_ is not None else 'the active exception'}")
                err_.raised = unparse(exc_) if exc_ is not None else None          # type: ignore[attr-defined]
                raise err_
            elif isinstance(st, ast.With) and len(st.items) == 1 and isinstance(st.items[0].context_expr, ast.Name) and st.items[0].context_expr.id == "__inline__":
                try:
                    self._propagate(mod, st.body, env, who, depth + 1)
                except _InlineExit as ex_:
                    if ex_.args and hasattr(st, "_inline_block") and ex_.args[0] != getattr(st, "_inline_block"):
                        raise
            elif isinstance(st, ast.With) and env.get("__strict__") is not None and all(isinstance(i.optional_vars, (ast.Name, type(None))) for i in st.items):
                for i_ in st.items:          # evaluation mode: the context object is what the (stubbed) call returns; no exit handling
                    cv_ = self.fold(mod, i_.context_expr, env)
                    if i_.optional_vars is not None:
                        env[i_.optional_vars.id] = cv_
                self._propagate(mod, st.body, env, who, depth + 1)
            elif isinstance(st, ast.Break):
                if hasattr(st, "_inline_exit"):
                    raise _InlineExit(getattr(st, "_inline_exit"))
                raise _LoopBreak()
            elif isinstance(st, ast.Continue):
                raise _LoopContinue()
            elif isinstance(st, ast.Try) and env.get("__strict__") is not None:
                # evaluation mode: an exception is either a rule-supplied `Raised` (thrown by a stub) or an EvalError that names
                # what the evaluated code raises; anything else (CannotFold, an unnamed EvalError) is not a decided outcome
                try:
                    try:
                        self._propagate(mod, st.body, env, who, depth + 1)
                    except Raised as ex_:
                        self._handle(mod, st, ex_, ex_, env, who, depth)
                    except EvalError as ex_:
                        nm_ = getattr(ex_, "raised", None)
                        if nm_ is None:
                            raise
                        self._handle(mod, st, Raised(nm_.split(".")[-1]), ex_, env, who, depth)
                    else:
                        self._propagate(mod, st.orelse, env, who, depth + 1)
                finally:
                    if st.finalbody:
                        self._propagate(mod, st.finalbody, env, who, depth + 1)
            else:
                raise CannotFold(f"helper not foldable: {who} (statement `{unparse(st)[:50]}`)")

    def _handle(self, mod: Module, st: ast.Try, exc: "Raised", original: Exception, env: T.Dict[str, T.Any], who: str, depth: int) -> None:
        """Run the first handler of `st` that catches `exc` (by class name, through the builtin hierarchy and the bases the rule gave)."""
        for h in st.handlers:
            types_ = [] if h.type is None else ([unparse(e_) for e_ in h.type.elts] if isinstance(h.type, ast.Tuple) else [unparse(h.type)])
            if h.type is None or any(exc.is_a(t_.split(".")[-1]) for t_ in types_):
                if h.name:
                    env[h.name] = exc
                try:
                    self._propagate(mod, h.body, env, who, depth + 1)
                except EvalError as ex2_:
                    if getattr(ex2_, "raised", "x") is None:          # a bare `raise`: the active exception goes on
                        raise original
                    raise
                return
        raise original

    # ------------------------------------------------------------ type resolution
    def annotation_class(self, mod: Module, ann: T.Optional[ast.AST]) -> T.Optional[ClassInfo]:
        if ann is None:
            return None
        if isinstance(ann, ast.Constant) and isinstance(ann.value, str):
            try:
                ann = ast.parse(ann.value, mode="eval").body
            except SyntaxError:
                return None
        if isinstance(ann, ast.Subscript):
            base = unparse(ann.value)
            if base.endswith("Optional"):
                return self.annotation_class(mod, ann.slice)
            return None
        if isinstance(ann, ast.Name):
            if ann.id in mod.classes:
                return mod.classes[ann.id]
            imp = mod.imports.get(ann.id)
            if imp and imp[0] == "name" and imp[1] in self.modules:
                return self.modules[imp[1]].classes.get(imp[2])
            # alias: MaybeConfig = typ.Optional[Config]
            if ann.id in mod.consts:
                return self.annotation_class(mod, mod.consts[ann.id][-1])
            return None
        if isinstance(ann, ast.Attribute) and isinstance(ann.value, ast.Name):
            imp = mod.imports.get(ann.value.id)
            if imp and imp[0] == "mod" and imp[1] in self.modules:
                m2 = self.modules[imp[1]]
                if ann.attr in m2.classes:
                    return m2.classes[ann.attr]
                if ann.attr in m2.consts:
                    return self.annotation_class(m2, m2.consts[ann.attr][-1])
        return None

    def local_types(self, fn: FunctionInfo) -> T.Dict[str, ClassInfo]:
        """Flow-insensitive class typing of parameters and locals."""
        mod = fn.module
        types: T.Dict[str, ClassInfo] = {}
        if fn.cls is not None and fn.params and fn.params[0] == "self":
            types["self"] = fn.cls
        for p, ann in fn.annotations.items():
            ci = self.annotation_class(mod, ann)
            if ci:
                types[p] = ci
        changed = True
        rounds = 0
        while changed and rounds < 4:
            changed = False
            rounds += 1
            for n in walk_no_nested(fn.node):
                tgt = val = None
                if isinstance(n, ast.AnnAssign) and isinstance(n.target, ast.Name):
                    ci = self.annotation_class(mod, n.annotation)
                    if ci and types.get(n.target.id) is not ci:
                        types[n.target.id] = ci
                        changed = True
                    continue
                if isinstance(n, ast.Assign) and len(n.targets) == 1:
                    tgt, val = n.targets[0], n.value
                if tgt is None:
                    continue
                if isinstance(tgt, ast.Name):
                    ci = self.expr_class(fn, val, types)
                    if ci and tgt.id not in types:
                        types[tgt.id] = ci
                        changed = True
                elif isinstance(tgt, ast.Tuple) and isinstance(val, ast.Call):
                    # `_, cfg = config.init(...)` with a Tuple[...] return annotation
                    t = self.resolve_call(fn, val, types)
                    if t.fn is not None and isinstance(t.fn.returns, ast.Subscript) and isinstance(t.fn.returns.slice, ast.Tuple):
                        for el, ann in zip(tgt.elts, t.fn.returns.slice.elts):
                            if isinstance(el, ast.Name) and el.id not in types:
                                ci = self.annotation_class(t.fn.module, ann)
                                if ci:
                                    types[el.id] = ci
                                    changed = True
        return types

    def expr_class(self, fn: FunctionInfo, expr: ast.AST, types: T.Dict[str, ClassInfo]) -> T.Optional[ClassInfo]:
        if isinstance(expr, ast.Name):
            return types.get(expr.id)
        if isinstance(expr, ast.Call):
            t = self.resolve_call(fn, expr, types, count=False)
            if t.kind == "class":
                return t.cls
            if t.kind == "func" and t.fn is not None:
                return self.annotation_class(t.fn.module, t.fn.returns)
            if t.kind == "method" and t.name == "_replace" and t.recv is not None:
                return self.expr_class(fn, t.recv, types)
        if isinstance(expr, ast.IfExp):
            return self.expr_class(fn, expr.body, types) or self.expr_class(fn, expr.orelse, types)
        return None

    # ------------------------------------------------------------ call resolution
    def resolve_name(self, mod: Module, expr: ast.AST, fn: T.Optional[FunctionInfo] = None,
                     types: T.Optional[T.Dict[str, ClassInfo]] = None) -> Target:
        """Resolve an expression in callee position (or a reference to a function/module constant)."""
        if isinstance(expr, ast.Name):
            nm = expr.id
            if types and nm in types:
                ci = types[nm]
                if "__call__" in ci.methods:
                    return Target("func", ci.methods["__call__"].fq, fn=ci.methods["__call__"])
            if nm in mod.functions:
                return Target("func", mod.functions[nm].fq, fn=mod.functions[nm])
            if nm in mod.classes:
                return Target("class", mod.classes[nm].fq, cls=mod.classes[nm])
            imp = mod.imports.get(nm)
            if imp:
                if imp[0] == "name" and imp[1] in self.modules:
                    m2 = self.modules[imp[1]]
                    if imp[2] in m2.functions:
                        return Target("func", m2.functions[imp[2]].fq, fn=m2.functions[imp[2]])
                    if imp[2] in m2.classes:
                        return Target("class", m2.classes[imp[2]].fq, cls=m2.classes[imp[2]])
                    return Target("unknown", f"{imp[1]}.{imp[2]}")
                if imp[0] == "extname":
                    return Target("ext", f"{imp[1]}.{imp[2]}")
                if imp[0] == "extmod":
                    return Target("ext", imp[1])
                if imp[0] == "mod":
                    return Target("ext", f"{PKG}.{imp[1]}")
            if nm in BUILTINS:
                return Target("builtin", nm)
            return Target("unknown", nm)
        if isinstance(expr, ast.Attribute):
            base = expr.value
            # module-qualified
            if isinstance(base, ast.Name):
                imp = mod.imports.get(base.id)
                if imp and not (types and base.id in types):
                    if imp[0] == "mod" and imp[1] in self.modules:
                        m2 = self.modules[imp[1]]
                        if expr.attr in m2.functions:
                            return Target("func", m2.functions[expr.attr].fq, fn=m2.functions[expr.attr])
                        if expr.attr in m2.classes:
                            return Target("class", m2.classes[expr.attr].fq, cls=m2.classes[expr.attr])
                        # re-exported external (bumpver.pathlib.Path)
                        i2 = m2.imports.get(expr.attr)
                        if i2 and i2[0] == "extname":
                            return Target("ext", f"{i2[1]}.{i2[2]}")
                        return Target("unknown", f"{imp[1]}.{expr.attr}")
                    if imp[0] == "extmod":
                        return Target("ext", f"{imp[1]}.{expr.attr}")
                    if imp[0] == "extname":
                        return Target("ext", f"{imp[1]}.{imp[2]}.{expr.attr}")
                    if imp[0] == "name" and imp[1] in self.modules:
                        m2 = self.modules[imp[1]]
                        if imp[2] in m2.classes and expr.attr in m2.classes[imp[2]].methods:
                            f2 = m2.classes[imp[2]].methods[expr.attr]
                            return Target("func", f2.fq, fn=f2)
                if types and base.id in types:
                    ci = types[base.id]
                    if expr.attr in ci.methods:
                        return Target("func", ci.methods[expr.attr].fq, fn=ci.methods[expr.attr], recv=base)
                    return Target("method", expr.attr, cls=ci, recv=base)
                if base.id in mod.classes and expr.attr in mod.classes[base.id].methods:
                    f2 = mod.classes[base.id].methods[expr.attr]
                    return Target("func", f2.fq, fn=f2)
            # dotted external chain, e.g. sys.stdout.write / os.path.exists / colorama.Style.X
            dotted = _dotted(expr)
            if dotted:
                head = dotted[0]
                imp = mod.imports.get(head)
                if imp and imp[0] == "extmod" and not (types and head in types):
                    return Target("ext", ".".join([imp[1]] + dotted[1:]))
            # typed receiver expression
            if fn is not None and types is not None:
                ci = self.expr_class(fn, base, types)
                if ci is not None:
                    if expr.attr in ci.methods:
                        return Target("func", ci.methods[expr.attr].fq, fn=ci.methods[expr.attr], recv=base)
                    return Target("method", expr.attr, cls=ci, recv=base)
            return Target("method", expr.attr, recv=base)
        return Target("unknown", unparse(expr)[:60])

    def resolve_call(self, fn: FunctionInfo, call: ast.Call, types: T.Optional[T.Dict[str, ClassInfo]] = None,
                     count: bool = True) -> Target:
        if types is None:
            types = self.local_types(fn)
        t = self.resolve_name(fn.module, call.func, fn, types)
        if t.kind == "class" and t.cls is not None and "__init__" in t.cls.methods:
            t.fn = t.cls.methods["__init__"]
        if count:
            if t.kind in ("func", "class", "ext", "builtin"):
                self.resolved_calls += 1
            elif t.kind == "method" and t.cls is not None:
                self.resolved_calls += 1
            else:
                self.unresolved_calls += 1
        return t

    def calls_in(self, fn: FunctionInfo, root: T.Optional[ast.AST] = None) -> T.List[T.Tuple[ast.Call, Target]]:
        types = self.local_types(fn)
        out = []
        it = walk_no_nested(fn.node) if root is None else _walk_expr_or_stmt(root)
        for n in it:
            if isinstance(n, ast.Call):
                out.append((n, self.resolve_call(fn, n, types)))
        out.sort(key=lambda p: (p[0].lineno, p[0].col_offset))
        return out


def _walk_expr_or_stmt(root: ast.AST) -> T.Iterator[ast.AST]:
    stack = [root]
    while stack:
        n = stack.pop()
        yield n
        for c in ast.iter_child_nodes(n):
            if isinstance(c, (ast.FunctionDef, ast.AsyncFunctionDef, ast.ClassDef, ast.Lambda)):
                continue
            stack.append(c)


def _dotted(expr: ast.AST) -> T.Optional[T.List[str]]:
    parts = []
    while isinstance(expr, ast.Attribute):
        parts.append(expr.attr)
        expr = expr.value
    if isinstance(expr, ast.Name):
        parts.append(expr.id)
        return list(reversed(parts))
    return None


def _bind(target: ast.AST, value: T.Any, env: T.Dict[str, T.Any]) -> None:
    if isinstance(target, ast.Name):
        env[target.id] = value
    elif isinstance(target, (ast.Tuple, ast.List)):
        vals = list(value)
        if len(vals) != len(target.elts):
            raise CannotFold("unpack arity")
        for t, v in zip(target.elts, vals):
            _bind(t, v, env)
    else:
        raise CannotFold("bind target")


# ---------------------------------------------------------------------- helpers
def call_arg(call: ast.Call, fn: T.Optional[FunctionInfo], name: str, pos: T.Optional[int] = None,
             skip_self: bool = True) -> T.Optional[ast.AST]:
    """Argument expression bound to parameter `name` of callee `fn` at `call` (or None)."""
    for kw in call.keywords:
        if kw.arg == name:
            return kw.value
    if fn is not None:
        params = list(fn.params)
        if skip_self and fn.cls is not None and params and params[0] == "self":
            params = params[1:]
        if name in params:
            idx = params.index(name)
            if idx < len(call.args) and not any(isinstance(a, ast.Starred) for a in call.args[:idx + 1]):
                return call.args[idx]
        return None
    if pos is not None and pos < len(call.args):
        return call.args[pos]
    return None


def const_str(node: T.Optional[ast.AST]) -> T.Optional[str]:
    if isinstance(node, ast.Constant) and isinstance(node.value, str):
        return node.value
    return None


def names_in(node: ast.AST) -> T.Set[str]:
    return {n.id for n in ast.walk(node) if isinstance(n, ast.Name)}
