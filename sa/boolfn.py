"""Boolean functions over named atoms as truth-table bitsets (exact, no solver)."""
from __future__ import annotations

import typing as T


class BF:
    __slots__ = ("atoms", "bits", "_n")

    def __init__(self, atoms: T.Sequence[str], bits: int):
        self.atoms = tuple(atoms)
        self._n = len(self.atoms)
        self.bits = bits & ((1 << (1 << self._n)) - 1)

    # ---- constructors
    @staticmethod
    def true(atoms: T.Sequence[str] = ()) -> "BF":
        return BF(atoms, (1 << (1 << len(atoms))) - 1)

    @staticmethod
    def false(atoms: T.Sequence[str] = ()) -> "BF":
        return BF(atoms, 0)

    @staticmethod
    def var(name: str) -> "BF":
        return BF((name,), 0b10)

    @staticmethod
    def _mask(n: int, j: int) -> int:
        """bitset of assignments (over n atoms) where atom j is true."""
        block = 1 << j
        unit = ((1 << block) - 1) << block          # 'block' zeros then 'block' ones
        period = block * 2
        total = 1 << n
        m = 0
        reps = total // period
        # build by doubling
        m = unit
        width = period
        while width < total:
            m |= m << width
            width *= 2
        return m

    def mask(self, name: str) -> int:
        return BF._mask(self._n, self.atoms.index(name))

    # ---- alignment
    def expand(self, atoms: T.Sequence[str]) -> "BF":
        atoms = tuple(atoms)
        if atoms == self.atoms:
            return self
        missing = [a for a in self.atoms if a not in atoms]
        if missing:
            raise ValueError(f"expand drops atoms {missing}")
        # Shannon expansion of the source over the target's variable masks
        n2 = len(atoms)
        full2 = (1 << (1 << n2)) - 1
        src = self.bits
        if src == 0:
            return BF(atoms, 0)
        if src == (1 << (1 << self._n)) - 1:
            return BF.true(atoms)
        masks = [BF._mask(n2, atoms.index(a)) for a in self.atoms]
        memo: T.Dict[T.Tuple[int, int], int] = {}

        def rec(k: int, bits: int) -> int:
            # bits is a function over the first k source atoms
            if k == 0:
                return full2 if bits & 1 else 0
            key = (k, bits)
            if key in memo:
                return memo[key]
            half = 1 << (k - 1)
            lo = bits & ((1 << half) - 1)
            hi = bits >> half
            if lo == hi:
                r = rec(k - 1, lo)
            else:
                m = masks[k - 1]
                r = (m & rec(k - 1, hi)) | (~m & full2 & rec(k - 1, lo))
            memo[key] = r
            return r

        return BF(atoms, rec(self._n, src))

    @staticmethod
    def _align(a: "BF", b: "BF") -> T.Tuple["BF", "BF"]:
        if a.atoms == b.atoms:
            return a, b
        u = tuple(sorted(set(a.atoms) | set(b.atoms)))
        return a.expand(u), b.expand(u)

    # ---- operators
    def __and__(self, o: "BF") -> "BF":
        a, b = BF._align(self, o)
        return BF(a.atoms, a.bits & b.bits)

    def __or__(self, o: "BF") -> "BF":
        a, b = BF._align(self, o)
        return BF(a.atoms, a.bits | b.bits)

    def __invert__(self) -> "BF":
        return BF(self.atoms, ~self.bits)

    def implies(self, o: "BF") -> bool:
        a, b = BF._align(self, o)
        return (a.bits & ~b.bits) & ((1 << (1 << a._n)) - 1) == 0

    def equiv(self, o: "BF") -> bool:
        a, b = BF._align(self, o)
        return a.bits == b.bits

    def is_false(self) -> bool:
        return self.bits == 0

    def is_true(self) -> bool:
        return self.bits == (1 << (1 << self._n)) - 1

    def exists(self, name: str) -> "BF":
        if name not in self.atoms:
            return self
        j = self.atoms.index(name)
        m = BF._mask(self._n, j)
        block = 1 << j
        hi = self.bits & m
        lo = self.bits & ~m
        both = (hi >> block) | lo
        both &= ~m
        return BF(self.atoms, both | (both << block))

    def forall(self, name: str) -> "BF":
        return ~((~self).exists(name))

    def restrict(self, name: str, value: bool) -> "BF":
        if name not in self.atoms:
            return self
        j = self.atoms.index(name)
        m = BF._mask(self._n, j)
        block = 1 << j
        if value:
            part = (self.bits & m) >> block
        else:
            part = self.bits & ~m
        part &= ~m
        return BF(self.atoms, part | (part << block))

    def assign(self, name: str, value: bool) -> "BF":
        """Strongest post-condition of `name := value`."""
        if name not in self.atoms:
            return self & (BF.var(name) if value else ~BF.var(name))
        f = self.exists(name)
        v = BF.var(name).expand(self.atoms) if len(self.atoms) > 1 or self.atoms != (name,) else BF.var(name)
        v = v.expand(f.atoms) if v.atoms != f.atoms else v
        return f & (v if value else ~v)

    def drop_unused(self) -> "BF":
        f = self
        keep = []
        for a in self.atoms:
            if f.restrict(a, True).bits != f.restrict(a, False).bits:
                keep.append(a)
        if len(keep) == len(self.atoms):
            return self
        return f.project(keep)

    def project(self, keep: T.Sequence[str]) -> "BF":
        """Existentially quantify every atom not in keep; result over sorted(keep ∩ atoms)."""
        f = self
        for a in self.atoms:
            if a not in keep:
                f = f.exists(a)
        kept = [a for a in self.atoms if a in keep]
        # compress: take assignments with dropped atoms = 0
        idx = [self.atoms.index(a) for a in kept]
        bits = 0
        for i in range(1 << len(kept)):
            k = 0
            for j, p in enumerate(idx):
                if (i >> j) & 1:
                    k |= 1 << p
            if (f.bits >> k) & 1:
                bits |= 1 << i
        return BF(kept, bits)

    def compose(self, mapping: T.Dict[str, "BF"]) -> "BF":
        """Substitute a boolean function for each atom named in mapping (Shannon expansion, atom by atom)."""
        out = self
        for i, (name, f) in enumerate(mapping.items()):
            if name not in out.atoms:
                continue
            hi = out.restrict(name, True).project([a for a in out.atoms if a != name])
            lo = out.restrict(name, False).project([a for a in out.atoms if a != name])
            out = (f & hi) | (~f & lo)
        return out

    def rename(self, mapping: T.Dict[str, str]) -> "BF":
        new = [mapping.get(a, a) for a in self.atoms]
        if len(set(new)) != len(new):
            # two atoms collapse into one: restrict to assignments where they agree
            f = self
            groups: T.Dict[str, T.List[str]] = {}
            for old, nw in zip(self.atoms, new):
                groups.setdefault(nw, []).append(old)
            for nw, olds in groups.items():
                for other in olds[1:]:
                    eq = ~(BF.var(olds[0]) & ~BF.var(other)) & ~(~BF.var(olds[0]) & BF.var(other))
                    f = (f & eq).exists(other)
            keep = [olds[0] for olds in groups.values()]
            g = f.project(keep)
            return BF([mapping.get(a, a) for a in g.atoms], g.bits)._sorted()
        return BF(new, self.bits)._sorted()

    def _sorted(self) -> "BF":
        s = tuple(sorted(self.atoms))
        return self.expand(s) if s != self.atoms else self

    # ---- display
    def models(self, limit: int = 8) -> T.List[T.Dict[str, bool]]:
        out = []
        for i in range(1 << self._n):
            if (self.bits >> i) & 1:
                out.append({a: bool((i >> j) & 1) for j, a in enumerate(self.atoms)})
                if len(out) >= limit:
                    break
        return out

    def diff_witness(self, o: "BF") -> T.Optional[T.Dict[str, T.Any]]:
        a, b = BF._align(self, o)
        x = a.bits ^ b.bits
        if x == 0:
            return None
        i = (x & -x).bit_length() - 1
        asg = {at: bool((i >> j) & 1) for j, at in enumerate(a.atoms)}
        return {"assignment": asg, "left": bool((a.bits >> i) & 1), "right": bool((b.bits >> i) & 1)}

    def to_dnf(self, limit: int = 12) -> str:
        f = self.drop_unused()
        if f.is_true():
            return "TRUE"
        if f.is_false():
            return "FALSE"
        terms = []
        for m in f.models(limit):
            terms.append(" & ".join((a if v else f"!{a}") for a, v in m.items()))
        more = "" if len(terms) < limit else " | ..."
        return " | ".join(f"({t})" for t in terms) + more

    def __repr__(self) -> str:
        return f"BF[{self.to_dnf()}]"


def conj(fs: T.Iterable[BF]) -> BF:
    out = BF.true()
    for f in fs:
        out = out & f
    return out


def disj(fs: T.Iterable[BF]) -> BF:
    out = BF.false()
    for f in fs:
        out = out | f
    return out
