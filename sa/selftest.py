"""Thorough tier: the checker's own self-test.

A catalogue of small source transformations (selftest/catalogue.py) is applied, one at a
time, to a scratch copy of the *current* src/bumpver (outside /repo and /verif, removed
afterwards).  'fires' entries break one rule instance: the check must report a new finding
whose key mentions the expected text.  'silent' entries keep behaviour: the check must
report nothing new and must not give up (no ANALYSIS-ERROR).  Mutants are only parsed and
analysed, never executed."""
from __future__ import annotations

import ast
import importlib
import json
import multiprocessing as mp
import os
import shutil
import sys
import tempfile
import typing as T

from .model import AnalysisError

VERIF = os.path.dirname(os.path.dirname(os.path.abspath(__file__)))


def _apply(src_root: str, entry: T.Dict[str, T.Any], dst: str) -> T.Optional[str]:
    """Copy the package and apply the edits.  Returns a skip reason or None."""
    shutil.copytree(os.path.join(src_root, "src", "bumpver"), os.path.join(dst, "src", "bumpver"))
    if entry.get("patch"):
        import subprocess
        p = subprocess.run(["git", "apply", "--include=src/bumpver/*", entry["patch"]], cwd=dst, stdout=subprocess.PIPE, stderr=subprocess.STDOUT)
        if p.returncode != 0:
            return "patch does not apply to the current source: " + p.stdout.decode("utf-8", "replace").strip()[:120]
        for root, _d, files in os.walk(os.path.join(dst, "src", "bumpver")):
            for f in files:
                if f.endswith(".py"):
                    try:
                        ast.parse(open(os.path.join(root, f), encoding="utf-8").read())
                    except SyntaxError as ex:
                        return f"patched {f} does not parse: {ex}"
        return None
    for fname, old, new in entry["edits"]:
        path = os.path.join(dst, "src", "bumpver", fname)
        with open(path, encoding="utf-8") as fobj:
            s = fobj.read()
        if s.count(old) != 1:
            return f"anchor text occurs {s.count(old)} times in {fname}"
        s2 = s.replace(old, new)
        try:
            ast.parse(s2)
        except SyntaxError as ex:
            return f"mutant does not parse: {ex}"
        with open(path, "w", encoding="utf-8") as fobj:
            fobj.write(s2)
    return None


def _run_one(args: T.Tuple[str, str, T.Dict[str, T.Any]]) -> T.Dict[str, T.Any]:
    prop, repo, entry = args
    sys.path.insert(0, VERIF) if VERIF not in sys.path else None
    from .report import Ctx, load_known
    tmp = tempfile.mkdtemp(prefix="vst_")
    try:
        skip = _apply(repo, entry, tmp)
        if skip:
            return {"name": entry["name"], "kind": entry["kind"], "status": "skipped", "detail": skip}
        mod = importlib.import_module(f"checks.{prop.lower()}")
        known = {k["key"] for k in load_known() if k.get("property") == prop and k.get("status") == "known"}
        ctx = Ctx(prop, tmp, "quick", 0)
        ctx.deferred_refusals = []
        try:
            mod.run(ctx)
            if ctx.deferred_refusals:
                raise AnalysisError(ctx.deferred_refusals[0])
        except AnalysisError as ex:
            # same policy as the driver: findings decided before a later rule gave up stand
            if entry["kind"] == "fires" and any(f.key not in known for f in ctx.findings):
                pass
            elif entry["kind"] == "fires" and entry.get("allow_error"):
                return {"name": entry["name"], "kind": entry["kind"], "status": "ok", "detail": f"analysis refused: {ex}"}
            else:
                return {"name": entry["name"], "kind": entry["kind"], "status": "error", "detail": str(ex)[:200]}
        except Exception as ex:          # a crash of the checker is a self-test failure, not a verdict
            import traceback
            return {"name": entry["name"], "kind": entry["kind"], "status": "error", "detail": "checker crashed: " + traceback.format_exc()[-300:]}
        new = [f for f in ctx.findings if f.key not in known]
        if entry["kind"] == "fires":
            exp = entry.get("expect", "")
            hit = [f.key for f in new if exp in f.key or exp in f.message]
            if hit:
                return {"name": entry["name"], "kind": "fires", "status": "ok", "detail": hit[0][:160]}
            return {"name": entry["name"], "kind": "fires", "status": "missed", "detail": f"{len(new)} new finding(s), none mentioning {exp!r}: {[f.key[:80] for f in new[:3]]}"}
        if new:
            return {"name": entry["name"], "kind": "silent", "status": "false-alarm", "detail": new[0].key[:160]}
        return {"name": entry["name"], "kind": "silent", "status": "ok", "detail": ""}
    finally:
        shutil.rmtree(tmp, ignore_errors=True)


def run_for(prop: str, repo: str, jobs: int = 16) -> T.Dict[str, T.Any]:
    sys.path.insert(0, VERIF) if VERIF not in sys.path else None
    cat = importlib.import_module("selftest.catalogue")
    entries = [e for e in cat.CATALOGUE if e["prop"] == prop]
    # behaviour-preserving twins written for other properties must leave this check silent as well
    entries += [dict(e, name=f"[{e['prop']}] {e['name']}") for e in cat.CATALOGUE if e["prop"] != prop and e["kind"] == "silent"]
    # independent seeded changes (sub-agents): the property's own check must fire
    import glob
    for meta in sorted(glob.glob(os.path.join(VERIF, "seeded", f"{prop}-*", "meta.json"))):
        try:
            m = json.load(open(meta))
        except Exception:
            continue
        if m.get("own_check_fires"):
            entries.append({"prop": prop, "name": "seeded " + os.path.basename(os.path.dirname(meta)), "kind": "fires", "edits": [], "expect": "",
                            "patch": os.path.join(os.path.dirname(meta), "patch.diff")})
    # behaviour-preserving refactorings (sub-agents): this check must stay silent and must not give up
    for pth in sorted(glob.glob(os.path.join(VERIF, "benign", "*", "patch.diff"))):
        entries.append({"prop": prop, "name": "benign " + os.path.basename(os.path.dirname(pth)), "kind": "silent", "edits": [], "expect": "", "patch": pth})
    if not entries:
        return {"fired": 0, "fires_expected": 0, "silent": 0, "silent_expected": 0, "failures": [], "skipped": [], "results": []}
    with mp.get_context("fork").Pool(min(jobs, len(entries))) as pool:
        results = pool.map(_run_one, [(prop, repo, e) for e in entries])
    fires = [r for r in results if r["kind"] == "fires" and r["status"] != "skipped"]
    silent = [r for r in results if r["kind"] == "silent" and r["status"] != "skipped"]
    failures = [f"{r['kind']} '{r['name']}': {r['status']} - {r['detail']}" for r in results if r["status"] in ("missed", "false-alarm", "error")]
    return {
        "fired": sum(1 for r in fires if r["status"] == "ok"),
        "fires_expected": len(fires),
        "silent": sum(1 for r in silent if r["status"] == "ok"),
        "silent_expected": len(silent),
        "failures": failures,
        "skipped": [f"{r['name']}: {r['detail']}" for r in results if r["status"] == "skipped"],
        "results": results,
    }


def main(argv: T.List[str]) -> int:
    props = argv or sorted({e["prop"] for e in importlib.import_module("selftest.catalogue").CATALOGUE})
    bad = 0
    for p in props:
        r = run_for(p, os.environ.get("VERIF_REPO", "/repo"))
        print(f"{p}: {r['fired']}/{r['fires_expected']} fired, {r['silent']}/{r['silent_expected']} silent, {len(r['skipped'])} skipped")
        for f in r["failures"]:
            print("   FAIL", f)
            bad += 1
        for s in r["skipped"]:
            print("   skip", s)
    return 1 if bad else 0


if __name__ == "__main__":
    sys.path.insert(0, VERIF)
    sys.exit(main(sys.argv[1:]))
