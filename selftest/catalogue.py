"""Self-test catalogue: one-instance breakages ('fires') and behaviour-preserving twins ('silent').

Every entry is a textual transformation of the current source, anchored on a snippet that
must occur exactly once (otherwise the entry is skipped and reported as such).  That the
'fires' entries still pass the pinned test suite was established while building the
catalogue (tools/catalogue_suite.py); it is not part of any registered command."""
from __future__ import annotations

import typing as T

CATALOGUE: T.List[T.Dict[str, T.Any]] = []


def M(prop: str, name: str, kind: str, fname: str, old: str, new: str, expect: str = "", **kw: T.Any) -> None:
    CATALOGUE.append({"prop": prop, "name": name, "kind": kind, "edits": [(fname, old, new)], "expect": expect, **kw})


def M2(prop: str, name: str, kind: str, edits: T.List[T.Tuple[str, str, str]], expect: str = "", **kw: T.Any) -> None:
    CATALOGUE.append({"prop": prop, "name": name, "kind": kind, "edits": edits, "expect": expect, **kw})


F, S = "fires", "silent"

# =============================================================================== C01
M("C01", "gate <= turned <", F, "cli.py", "if version.parse_version(new_version) <= version.parse_version(old_version):",
  "if version.parse_version(new_version) < version.parse_version(old_version):", "admits an equal version")
M("C01", "gate operands swapped", F, "cli.py", "if version.parse_version(new_version) <= version.parse_version(old_version):",
  "if version.parse_version(old_version) <= version.parse_version(new_version):", "R3")
M("C01", "gate compares raw strings", F, "cli.py", "if version.parse_version(new_version) <= version.parse_version(old_version):",
  "if new_version <= old_version:", "raw strings")
M("C01", "gate call removed from test", F, "cli.py", """    if not _is_valid_version(raw_pattern, old_version, new_version):
        if set_version:
            logger.error(f"Invalid argument --set-version='{set_version}'")

        sys.exit(1)
""", "", "gate is not called")
M("C01", "exit after failed gate dropped in update", F, "cli.py", """            logger.error(f"Invalid argument --set-version='{set_version}'")
        sys.exit(1)

    logger.info(f"Old Version: {old_version}")""", """            logger.error(f"Invalid argument --set-version='{set_version}'")

    logger.info(f"Old Version: {old_version}")""", "without passing the gate")
M("C01", "unique branch returns True", F, "cli.py", """            logger.error("Invariant violated: New version must be unique accross all branches")
            return False""", """            logger.error("Invariant violated: New version must be unique accross all branches")
            return True""", "R3")
M("C01", "v2 length test deleted", F, "v2version.py", "    elif len(match.group()) < len(version_str):\n        err_msg = (\n            f\"Incomplete match '{match.group()}' for version string '{version_str}' \"\n            f\"with pattern '{raw_pattern}'/'{pattern.regexp.pattern}'\"\n        )\n        raise version.PatternError(err_msg)\n    else:\n        field_values = match.groupdict()",
  "    else:\n        field_values = match.groupdict()", "prefix match")
M("C01", "v1 length test deleted (pre-fix shape)", F, "v1version.py", "    elif len(match.group()) < len(version_str):\n        err_msg = (\n            f\"Incomplete match '{match.group()}' for version string '{version_str}' \"\n            f\"with pattern '{raw_pattern}'/'{pattern.regexp.pattern}'\"\n        )\n        raise version.PatternError(err_msg)\n    else:\n        return _parse_version_info(match.groupdict())",
  "    else:\n        return _parse_version_info(match.groupdict())", "prefix match")
M("C01", "old_version read before the tag lookup", F, "cli.py", """    if not ignore_vcs_tag:
        cfg = _update_cfg_from_vcs(cfg, fetch)

    old_version = cfg.current_version
""", """    old_version = cfg.current_version
    if not ignore_vcs_tag:
        cfg = _update_cfg_from_vcs(cfg, fetch)

""", "tag lookup")
M("C01", "PatternError handler returns True", F, "cli.py", """        logger.error(f"Invalid version '{new_version}' for pattern '{raw_pattern}'")
        return False""", """        logger.error(f"Invalid version '{new_version}' for pattern '{raw_pattern}'")
        return True""", "R3")
M("C01", "None check dropped in test", F, "cli.py", """    if new_version is None:
        _log_no_change('test', raw_pattern)
        sys.exit(1)
""", "", "None")
M("C01", "twin: mirrored comparison", S, "cli.py", "if version.parse_version(new_version) <= version.parse_version(old_version):",
  "if version.parse_version(old_version) >= version.parse_version(new_version):")
M("C01", "twin: not (new > old)", S, "cli.py", "if version.parse_version(new_version) <= version.parse_version(old_version):",
  "if not (version.parse_version(new_version) > version.parse_version(old_version)):")
M("C01", "twin: gate result bound to a local", S, "cli.py", """    if not _is_valid_version(raw_pattern, old_version, new_version):
        if set_version:
            logger.error(f"Invalid argument --set-version='{set_version}'")

        sys.exit(1)
""", """    is_ok = _is_valid_version(raw_pattern, old_version, new_version)
    if not is_ok:
        if set_version:
            logger.error(f"Invalid argument --set-version='{set_version}'")

        sys.exit(1)
""")
M("C01", "twin: v2 full match via != ", S, "v2version.py", "elif len(match.group()) < len(version_str):", "elif len(match.group()) != len(version_str):")
M("C01", "twin: v2 full match via match.end()", S, "v2version.py", "elif len(match.group()) < len(version_str):", "elif match.end() < len(version_str):")

# =============================================================================== C02
M("C02", "0M regex ordering flipped", F, "v2patterns.py", "('MM'  , r\"1[0-2]|[1-9]\"),", "('MM'  , r\"[1-9]|1[0-2]\"),", "MM")
M("C02", "_fmt_0d width 3", F, "v2patterns.py", "def _fmt_0d(dom: FieldValue) -> str:\n    return f\"{int(dom):02}\"", "def _fmt_0d(dom: FieldValue) -> str:\n    return f\"{int(dom):03}\"", "0D")
M("C02", "JJJ upper bound 365", F, "v2patterns.py", "('JJJ' , r\"36[0-6]|3[0-5][0-9]|[1-2][0-9][0-9]|[1-9][0-9]|[1-9]\"),", "('JJJ' , r\"36[0-5]|3[0-5][0-9]|[1-2][0-9][0-9]|[1-9][0-9]|[1-9]\"),", "JJJ")
M("C02", "DD misses 30/31", F, "v2patterns.py", "('DD'  , r\"3[0-1]|[1-2][0-9]|[1-9]\"),", "('DD'  , r\"[1-2][0-9]|[1-9]\"),", "DD")
M("C02", "VV stops at 52", F, "v2patterns.py", "('VV', r\"5[0-3]|[1-4][0-9]|[1-9]\"),", "('VV', r\"5[0-2]|[1-4][0-9]|[1-9]\"),", "VV")
M("C02", "Q accepts only 1-3", F, "v2patterns.py", "('Q'   , r\"[1-4]\"),", "('Q'   , r\"[1-3]\"),", "'Q'")
M("C02", "part missing from PART_FORMATS", F, "v2patterns.py", "    'INC1'   : _fmt_num,\n", "", "PART_FORMATS")
M("C02", "zero value of INC0 changed", F, "version.py", "    'INC0' : \"0\",\n}", "    'INC0' : \"1\",\n}", "INC0")
M("C02", "parse default of minor changed", F, "v2version.py", "minor = int(fvals.get('minor') or 0)", "minor = int(fvals.get('minor') or 1)", "MINOR")
M("C02", "tag map entry broken", F, "version.py", "    'rc'  : 'rc',\n    'dev' : 'dev',", "    'rc'  : 'c',\n    'dev' : 'dev',", "'c'")
M("C02", "TAG regex gains unknown tag", F, "v2patterns.py", "r\"preview|final|dev|alpha|beta|post|rc\"", "r\"preview|final|dev|alpha|beta|gamma|post|rc\"", "TAG")
M("C02", "week-0 truthiness returns (pre-fix shape)", F, "v2version.py", "    if all(val is None for val in parsed_vals):", "    if not any(parsed_vals) and not any((week_w, week_u)):", "boolean context")
M("C02", "field constructor crossed", F, "v2version.py", "        week_w=cinfo.week_w,\n        week_u=cinfo.week_u,", "        week_w=cinfo.week_u,\n        week_u=cinfo.week_w,", "R4")
# (these two were listed as silent twins until the sweeps showed otherwise: a BLD that accepts `01005` lets the tag `1.01005` in as a
#  version tag (Q0439, C09), and \d also matches non-ASCII digits (C04-r5v3) - both widen what is taken for a version)
M("C02", "BLD regex admits leading zeros", F, "v2patterns.py", "('BLD'    , r\"[1-9][0-9]*\"),", "('BLD'    , r\"[0-9]+\"),", "documented shape")
M("C02", "[0-9] spelled \\d (matches non-ASCII digits)", F, "v2patterns.py", "('NUM'    , r\"[0-9]+\"),", "('NUM'    , r\"\\d+\"),", "documented shape")
M("C02", "twin: disjoint alternatives reordered", S, "v2patterns.py", "('0M'  , r\"1[0-2]|0[1-9]\"),", "('0M'  , r\"0[1-9]|1[0-2]\"),")
M("C02", "twin: formatter via zfill", S, "v2patterns.py", "def _fmt_0m(month: FieldValue) -> str:\n    return f\"{int(month):02}\"", "def _fmt_0m(month: FieldValue) -> str:\n    return str(int(month)).zfill(2)")

# =============================================================================== C03
M("C03", "v2 back to old-line base (pre-fix shape)", F, "v2rewrite.py", "        cur_line = new_lines[lineno]\n        new_lines[lineno] = cur_line[:span_l] + replacement + cur_line[span_r:]",
  "        cur_line = old_lines[lineno]\n        new_lines[lineno] = cur_line[:span_l] + replacement + cur_line[span_r:]", "lost update")
M("C03", "v1 back to old-line base (pre-fix shape)", F, "v1rewrite.py", "        cur_line = new_lines[lineno]\n        new_lines[lineno] = cur_line[:span_l] + replacement + cur_line[span_r:]",
  "        cur_line = old_lines[lineno]\n        new_lines[lineno] = cur_line[:span_l] + replacement + cur_line[span_r:]", "lost update")
M("C03", "v2 right-to-left order dropped", F, "v2rewrite.py", "in sorted(replacements, reverse=True):", "in sorted(replacements):", "match order")
M("C03", "v2 returns although patterns missing", F, "v2rewrite.py", "    if set(patterns) == found_patterns:\n        return new_lines", "    if found_patterns:\n        return new_lines", "R2")
M("C03", "v1 raise turned into return", F, "v1rewrite.py", "        raise rewrite.NoPatternMatch(\"Invalid pattern(s)\")\n    else:\n        return new_lines", "        return new_lines\n    else:\n        return new_lines", "R2")
M("C03", "iter_matches stops after first match per pattern", F, "parse.py", "            if not _has_overlap(needle_span, matched_spans):\n                yield match\n            matched_spans.append(needle_span)",
  "            if not _has_overlap(needle_span, matched_spans):\n                yield match\n            matched_spans.append(needle_span)\n            break", "overlaps nothing is dropped")
M("C03", "overlap ignores the line number", F, "parse.py", "            span.lineno == needle.lineno\n            # needle starts before (or at) span end\n            and needle.start <= span.end",
  "            needle.start <= span.end", "_has_overlap")
M("C03", "replacement rendered from the version pattern only", F, "v2rewrite.py", "replacement = v2version.format_version(new_vinfo, normalized_pattern)", "replacement = v2version.format_version(new_vinfo, match.pattern.version_pattern)", "own pattern")
M("C03", "{version} not expanded", F, "v2patterns.py", "        normalized_pattern = normalized_pattern.replace(\"{version}\", version_pattern)", "        normalized_pattern = normalized_pattern.replace(\"{version}\", raw_pattern)", "R4")
M("C03", "self pattern only added for toml", F, "config.py", "    if ctx.config_rel_path not in raw_cfg['file_patterns']:", "    if ctx.config_rel_path not in raw_cfg['file_patterns'] and ctx.config_format == 'toml':", "R5")
M("C03", "lines searched from index 1", F, "parse.py", "    for lineno, line in enumerate(lines):", "    for lineno, line in enumerate(lines[1:]):", "R3")
M("C03", "twin: accumulate via differently named local", S, "v2rewrite.py", "        cur_line = new_lines[lineno]\n        new_lines[lineno] = cur_line[:span_l] + replacement + cur_line[span_r:]",
  "        acc = new_lines[lineno]\n        new_lines[lineno] = acc[:span_l] + replacement + acc[span_r:]")
M("C03", "twin: reversed(sorted(...))", S, "v2rewrite.py", "in sorted(replacements, reverse=True):", "in reversed(sorted(replacements)):")

M("C03", "memo key covers the first argument only", F, "utils.py", "        key = str(args)", "        key = str(args[0])", "cache key")
M("C03", "memo caches the result for a truncated argument list", F, "utils.py", "            cache[key] = func(*args)", "            cache[key] = func(*args[:1])", "cached value")
M("C03", "memo key as repr of the argument tuple", S, "utils.py", "        key = str(args)", "        key = repr(tuple(args))")
# =============================================================================== C04
for _f, _mode in (("v2rewrite.py", "rt"), ("v1rewrite.py", "rt")):
    pass
M("C04", "v2 read without newline=''", F, "v2rewrite.py", "    for file_path, patterns in rewrite.iter_path_patterns_items(file_patterns):\n        with file_path.open(mode=\"rt\", newline='', encoding=\"utf-8\") as fobj:\n            content = fobj.read()\n\n        rfd = rfd_from_content(patterns, new_vinfo, content)\n        yield",
  "    for file_path, patterns in rewrite.iter_path_patterns_items(file_patterns):\n        with file_path.open(mode=\"rt\", encoding=\"utf-8\") as fobj:\n            content = fobj.read()\n\n        rfd = rfd_from_content(patterns, new_vinfo, content)\n        yield", "newline")
M("C04", "v2 write without encoding", F, "v2rewrite.py", "with io.open(file_data.path, mode=\"wt\", newline='', encoding=\"utf-8\") as fobj:", "with io.open(file_data.path, mode=\"wt\", newline='') as fobj:", "utf-8")
M("C04", "v1 write without newline=''", F, "v1rewrite.py", "with io.open(file_data.path, mode=\"wt\", newline='', encoding=\"utf-8\") as fobj:", "with io.open(file_data.path, mode=\"wt\", encoding=\"utf-8\") as fobj:", "newline")
M("C04", "v1 content split with splitlines", F, "v1rewrite.py", "    old_lines = content.split(line_sep)", "    old_lines = content.splitlines()", "split")
M("C04", "v2 joined with constant newline", F, "v2rewrite.py", "        new_content = file_data.line_sep.join(file_data.new_lines)", "        new_content = \"\\n\".join(file_data.new_lines)", "joined")
M("C04", "detect_line_sep may return empty", F, "rewrite.py", "    else:\n        return \"\\n\"", "    elif \"\\n\" in content:\n        return \"\\n\"\n    else:\n        return \"\"", "empty")
M("C04", "record stores another separator", F, "v2rewrite.py", "    return rewrite.RewrittenFileData(path, line_sep, old_lines, new_lines)", "    return rewrite.RewrittenFileData(path, \"\\n\", old_lines, new_lines)", "separator")
M("C04", "stray write in config.parse", F, "config.py", "    if ctx.config_filepath.exists():\n        try:\n            raw_cfg = _parse_raw_config(ctx)", "    if ctx.config_filepath.exists():\n        try:\n            ctx.config_filepath.touch()\n            raw_cfg = _parse_raw_config(ctx)", "unexpected file-writing site")
M("C04", "splice uses whole-line tail", F, "v2rewrite.py", "new_lines[lineno] = cur_line[:span_l] + replacement + cur_line[span_r:]", "new_lines[lineno] = cur_line[:span_l] + replacement + cur_line[span_l:]", "span")
M("C04", "match records next line's text", F, "parse.py", "yield PatternMatch(lineno, line, pattern, match.span(), match.group(0))", "yield PatternMatch(lineno + 1, line, pattern, match.span(), match.group(0))", "R3")
M("C04", "twin: keywords reordered", S, "v2rewrite.py", "with io.open(file_data.path, mode=\"wt\", newline='', encoding=\"utf-8\") as fobj:", "with io.open(file_data.path, encoding=\"utf-8\", newline='', mode=\"wt\") as fobj:")
M("C04", "twin: separator local renamed", S, "v1rewrite.py", "    line_sep  = rewrite.detect_line_sep(content)\n    old_lines = content.split(line_sep)\n    new_lines = rewrite_lines(patterns, new_vinfo, old_lines)\n    return rewrite.RewrittenFileData(path, line_sep, old_lines, new_lines)",
  "    sep       = rewrite.detect_line_sep(content)\n    old_lines = content.split(sep)\n    new_lines = rewrite_lines(patterns, new_vinfo, old_lines)\n    return rewrite.RewrittenFileData(path, sep, old_lines, new_lines)")

# =============================================================================== C05
M("C05", "--minor wired to patch in _incr_numeric", F, "v2version.py", "    if minor:\n        cur_vinfo = cur_vinfo._replace(minor=cur_vinfo.minor + 1)", "    if minor:\n        cur_vinfo = cur_vinfo._replace(patch=cur_vinfo.patch + 1)", "minor")
M("C05", "patch +2", F, "v2version.py", "cur_vinfo = cur_vinfo._replace(patch=cur_vinfo.patch + 1)", "cur_vinfo = cur_vinfo._replace(patch=cur_vinfo.patch + 2)", "patch")
M("C05", "inc1 initial value 0", F, "version.py", "    'inc1' : \"1\",\n}", "    'inc1' : \"0\",\n}", "V2_FIELD_INITIAL_VALUES")
M("C05", "pin flags swapped at dispatch", F, "cli.py", "            pin_increments=pin_increments,\n            pin_date=pin_date,\n            maybe_date=maybe_date,\n        )\n\n\ndef _update(", "            pin_increments=pin_date,\n            pin_date=pin_increments,\n            maybe_date=maybe_date,\n        )\n\n\ndef _update(", "pin_")
M("C05", "tag_num dropped from update's dispatch", F, "cli.py", "            tag=tag,\n            tag_num=tag_num,\n            pin_increments=pin_increments,\n            pin_date=pin_date,\n            maybe_date=maybe_date,\n        )\n    else:\n        new_version = set_version\n\n    if new_version is None:\n        _log_no_change('update'",
  "            tag=tag,\n            pin_increments=pin_increments,\n            pin_date=pin_date,\n            maybe_date=maybe_date,\n        )\n    else:\n        new_version = set_version\n\n    if new_version is None:\n        _log_no_change('update'", "tag_num")
M("C05", "auto increments ignore the pin", F, "v2version.py", "    if not pin_increments:\n        cur_vinfo = cur_vinfo._replace(inc0=cur_vinfo.inc0 + 1)", "    if True:\n        cur_vinfo = cur_vinfo._replace(inc0=cur_vinfo.inc0 + 1)", "inc0")
M("C05", "num reset although tag unchanged", F, "v2version.py", "        if tag != cur_vinfo.tag:\n            cur_vinfo = cur_vinfo._replace(num=0)", "        cur_vinfo = cur_vinfo._replace(num=0)", "bumped record")
M("C05", "pinned week by truthiness (pre-fix shape)", F, "v2version.py", "        defaults.week_w if vinfo.week_w is None else vinfo.week_w,", "        vinfo.week_w or defaults.week_w,", "truthiness")
M("C05", "future guard arguments swapped", F, "v2version.py", "    if _is_cal_gt(old_vinfo, cur_cinfo):\n        logger.warning(f\"Old version appears to be from the future '{old_version}'\")\n        cur_vinfo = old_vinfo\n    else:\n        cur_vinfo = old_vinfo._replace(**cur_cinfo._asdict())\n\n    has_tag_part",
  "    if _is_cal_gt(cur_cinfo, old_vinfo):\n        logger.warning(f\"Old version appears to be from the future '{old_version}'\")\n        cur_vinfo = old_vinfo\n    else:\n        cur_vinfo = old_vinfo._replace(**cur_cinfo._asdict())\n\n    has_tag_part", "future guard")
M("C05", "date source ignores --date", F, "v2version.py", "    date = version.TODAY if maybe_date is None else maybe_date\n\n    try:\n        old_vinfo = parse_version_info(old_version, raw_pattern)", "    date = version.TODAY\n\n    try:\n        old_vinfo = parse_version_info(old_version, raw_pattern)", "date")
M("C05", "reset applies without a change to the left", F, "v2version.py", "        if has_reset and initial_val is not None:", "        if initial_val is not None:", "reset condition")
M("C05", "invalid tag accepted", F, "cli.py", "VALID_RELEASE_TAG_VALUES = (\"alpha\", \"beta\", \"dev\", \"rc\", \"post\", \"final\")", "VALID_RELEASE_TAG_VALUES = (\"alpha\", \"beta\", \"dev\", \"rc\", \"post\", \"final\", \"gamma\")", "gamma")
M("C05", "twin: keyword order changed at dispatch", S, "cli.py", "            major=major,\n            minor=minor,\n            patch=patch,\n            tag=tag,\n            tag_num=tag_num,\n            pin_date=pin_date,\n            maybe_date=maybe_date,\n        )\n    else:\n        return v2version.incr(",
  "            minor=minor,\n            major=major,\n            patch=patch,\n            tag_num=tag_num,\n            tag=tag,\n            pin_date=pin_date,\n            maybe_date=maybe_date,\n        )\n    else:\n        return v2version.incr(")
M("C05", "twin: 1 + field", S, "v2version.py", "cur_vinfo = cur_vinfo._replace(major=cur_vinfo.major + 1)", "cur_vinfo = cur_vinfo._replace(major=1 + cur_vinfo.major)")

# =============================================================================== C06
M("C06", "v2 list() removed (pre-fix shape)", F, "v2rewrite.py", "    rewritten_files = list(iter_rewritten(file_patterns, new_vinfo))", "    rewritten_files = iter_rewritten(file_patterns, new_vinfo)", "before all files are validated")
M("C06", "v1 list() removed (pre-fix shape)", F, "v1rewrite.py", "    rewritten_files = list(iter_rewritten(file_patterns, new_vinfo))", "    rewritten_files = iter_rewritten(file_patterns, new_vinfo)", "before all files are validated")
M("C06", "_update handler swallows", F, "cli.py", "    except rewrite.NoPatternMatch as ex:\n        logger.error(str(ex))\n        sys.exit(1)\n\n    if vcs_api:\n        vcs.commit(", "    except rewrite.NoPatternMatch as ex:\n        logger.error(str(ex))\n\n    if vcs_api:\n        vcs.commit(", "swallows")
M("C06", "_update handler exits 0", F, "cli.py", "    except rewrite.NoPatternMatch as ex:\n        logger.error(str(ex))\n        sys.exit(1)\n\n    if vcs_api:", "    except rewrite.NoPatternMatch as ex:\n        logger.error(str(ex))\n        sys.exit(0)\n\n    if vcs_api:", "status 0")
M("C06", "write moved into the generator", F, "v2rewrite.py", "        rfd = rfd_from_content(patterns, new_vinfo, content)\n        yield rfd._replace(path=str(file_path))\n",
  "        rfd = rfd_from_content(patterns, new_vinfo, content)\n        with io.open(str(file_path), mode=\"wt\", newline='', encoding=\"utf-8\") as fobj:\n            fobj.write(rfd.line_sep.join(rfd.new_lines))\n        yield rfd._replace(path=str(file_path))\n", "R1")
M("C06", "commit before rewrite", F, "cli.py", "    if vcs_api:\n        vcs.assert_not_dirty(vcs_api, filepaths, allow_dirty)\n\n    try:", "    if vcs_api:\n        vcs.assert_not_dirty(vcs_api, filepaths, allow_dirty)\n        vcs.commit(cfg, vcs_api, filepaths, new_version, commit_message, tag_message)\n\n    try:", "precedes the rewrite")
M("C06", "_print_diff handler continues", F, "cli.py", "    except rewrite.NoPatternMatch as ex:\n        logger.error(str(ex))\n        sys.exit(1)\n\n\ndef _parse_version_tags", "    except rewrite.NoPatternMatch as ex:\n        logger.error(str(ex))\n\n\ndef _parse_version_tags", "swallows")
M("C06", "twin: tuple() instead of list()", S, "v2rewrite.py", "    rewritten_files = list(iter_rewritten(file_patterns, new_vinfo))", "    rewritten_files = tuple(iter_rewritten(file_patterns, new_vinfo))")
M("C06", "twin: comprehension materialisation", S, "v1rewrite.py", "    rewritten_files = list(iter_rewritten(file_patterns, new_vinfo))", "    rewritten_files = [rfd for rfd in iter_rewritten(file_patterns, new_vinfo)]")
M("C06", "twin: handler re-raises as SystemExit", S, "cli.py", "    except rewrite.NoPatternMatch as ex:\n        logger.error(str(ex))\n        sys.exit(1)\n\n    if vcs_api:", "    except rewrite.NoPatternMatch as ex:\n        logger.error(str(ex))\n        raise SystemExit(1)\n\n    if vcs_api:")

# =============================================================================== C07
M("C07", "twin: '-' entry deleted ('-' is not special outside a class)", S, "patterns.py", "    (\"-\"     , \"\\u005c-\"),\n", "")
for _ch, _esc in ((".", "\\u005c."), ("+", "\\u005c+"), ("*", "\\u005c*"), ("?", "\\u005c?"), ("(", "\\u005c("), (")", "\\u005c)"), ("|", "\\u005c|")):
    M("C07", f"escape entry for {_ch!r} deleted", F, "patterns.py", f"    (\"{_ch}\"     , \"{_esc}\"),\n", "", repr(_ch))
M("C07", "escape without backslash", F, "patterns.py", "    (\"+\"     , \"\\u005c+\"),", "    (\"+\"     , \"+\"),", "'+'")
M("C07", "v2 exemption widened to '.'", F, "v2patterns.py", "        is_semantic_char = char in \"[]\\\\\"", "        is_semantic_char = char in \"[]\\\\.\"", "'.'")
M("C07", "v2 compiled with IGNORECASE", F, "v2patterns.py", "    pattern_str = _replace_pattern_parts(escaped_pattern)\n    return re.compile(pattern_str)\n\n\n@utils.memo\ndef compile_pattern(version_pattern: str, raw_pattern: typ.Optional[str] = None) -> Pattern:\n    _raw_pattern       = version_pattern if raw_pattern is None else raw_pattern\n    normalized_pattern = normalize_pattern(",
  "    pattern_str = _replace_pattern_parts(escaped_pattern)\n    return re.compile(pattern_str, re.IGNORECASE)\n\n\n@utils.memo\ndef compile_pattern(version_pattern: str, raw_pattern: typ.Optional[str] = None) -> Pattern:\n    _raw_pattern       = version_pattern if raw_pattern is None else raw_pattern\n    normalized_pattern = normalize_pattern(", "flags")
M("C07", "backslash entry moved last (v1 double escaping)", F, "patterns.py", "RE_PATTERN_ESCAPES = [\n    (\"\\u005c\", \"\\u005c\\u005c\"),\n", "RE_PATTERN_ESCAPES = [\n", "R1", allow_error=True)
M("C07", "bracket look-behind dropped", F, "v2patterns.py", "re.subn(r\"([^\\\\]|^)\\[\", r\"\\1(?:\", pattern)", "re.subn(r\"(.|^)\\[\", r\"\\1(?:\", pattern)", "brackets of a search pattern")
M("C07", "render keeps escaped bracket", F, "v2version.py", "    result = result.replace(r\"\\[\", r\"[\")\n", "", "R5")
M("C07", "twin: table reordered (backslash still first)", S, "patterns.py", "    (\"-\"     , \"\\u005c-\"),\n    (\".\"     , \"\\u005c.\"),", "    (\".\"     , \"\\u005c.\"),\n    (\"-\"     , \"\\u005c-\"),")

# =============================================================================== C08
M("C08", "git commit -a", F, "vcs.py", "'commit'        : \"git commit --message '{message}'\",", "'commit'        : \"git commit -a --message '{message}'\",", "catch-all")
M("C08", "git add .", F, "vcs.py", "'add_path'      : \"git add --update '{path}'\",", "'add_path'      : \"git add --update . '{path}'\",", "add_path")
M("C08", "staged set is all dirty files", F, "vcs.py", "        for filepath in filepaths:\n            vcs_api.add(filepath)", "        for filepath in vcs_api.status(filepaths):\n            vcs_api.add(filepath)", "configured paths")
M("C08", "tag named by the old version", F, "vcs.py", "vcs_api.tag(tag_name=new_version, tag_message=tag_message)", "vcs_api.tag(tag_name=cfg.current_version, tag_message=tag_message)", "new version")
M("C08", "commit inside the add loop", F, "vcs.py", "        for filepath in filepaths:\n            vcs_api.add(filepath)\n\n        vcs_api.commit(commit_message)", "        for filepath in filepaths:\n            vcs_api.add(filepath)\n            vcs_api.commit(commit_message)", "loop")
M("C08", "show skips the tag lookup", F, "cli.py", "    if not ignore_vcs_tag:\n        cfg = _update_cfg_from_vcs(cfg, fetch)\n\n    if env:", "    if ignore_vcs_tag:\n        cfg = _update_cfg_from_vcs(cfg, fetch)\n\n    if env:", "R4")
M("C08", "filepaths from a different set", F, "cli.py", "    filepaths = set(cfg.file_patterns.keys())", "    filepaths = set(list(cfg.file_patterns.keys())[:1])", "not wired")
M("C08", "twin: loop variable renamed", S, "vcs.py", "        for filepath in filepaths:\n            vcs_api.add(filepath)", "        for path in filepaths:\n            vcs_api.add(path)")
M("C08", "twin: sorted staging order", S, "vcs.py", "        for filepath in filepaths:\n            vcs_api.add(filepath)", "        for filepath in sorted(filepaths):\n            vcs_api.add(filepath)")

# =============================================================================== C09
M("C09", "scope branches swapped", F, "vcs.py", "        if branch_scope:\n            return vcs_api.ls_tags_branch()\n        else:\n            return vcs_api.ls_tags()", "        if branch_scope:\n            return vcs_api.ls_tags()\n        else:\n            return vcs_api.ls_tags_branch()", "scope")
M("C09", "reverse=True dropped", F, "cli.py", "version_tags.sort(key=version.parse_version, reverse=True)", "version_tags.sort(key=version.parse_version)", "maximum")
M("C09", "sort key removed", F, "cli.py", "version_tags.sort(key=version.parse_version, reverse=True)", "version_tags.sort(reverse=True)", "maximum")
M("C09", "filter removed", F, "cli.py", "    return [tag for tag in all_tags if version_parser.is_valid(tag, version_pattern)]", "    return [tag for tag in all_tags if version_parser.is_valid(tag, version_pattern) or True]", "R3")
M("C09", "default-scope compare flipped", F, "cli.py", "        if version.parse_version(latest_version_tag) <= version.parse_version(cfg.current_version):\n            # current_version already newer/up-to-date\n            return cfg",
  "        if version.parse_version(latest_version_tag) >= version.parse_version(cfg.current_version):\n            # current_version already newer/up-to-date\n            return cfg", "does not follow its rule")
M("C09", "global scope also compares with config", F, "cli.py", "    if cfg.tag_scope == config.TagScope.DEFAULT:\n        logger.info(f\"Working dir version        : {cfg.current_version}\")", "    if cfg.tag_scope != config.TagScope.BRANCH:\n        logger.info(f\"Working dir version        : {cfg.current_version}\")", "R1", allow_error=True)
M("C09", "date try/except removed (pre-fix shape)", F, "v2version.py", "        try:\n            date = dt.date(year_y, month, dom)\n        except ValueError as ex:\n            # e.g. day is out of range for month (February 30th)\n            err_msg = f\"Invalid date {year_y}-{month}-{dom}: {ex}\"\n            raise version.PatternError(err_msg)",
  "        date = dt.date(year_y, month, dom)", "ValueError escapes")
M("C09", "uniqueness only for --set-version", F, "cli.py", "    uniqueness_check = cfg.tag_scope == config.TagScope.BRANCH or set_version is not None", "    uniqueness_check = set_version is not None", "uniqueness")
M("C09", "uniqueness against branch tags only", F, "cli.py", "        all_tags     = vcs.get_tags(fetch=False, scope=config.TagScope.GLOBAL)", "        all_tags     = vcs.get_tags(fetch=False, scope=config.TagScope.BRANCH)", "all branches")
M("C09", "git ls_tags restricted to merged", F, "vcs.py", "'ls_tags'       : \"git tag --list\",", "'ls_tags'       : \"git tag --list --merged\",", "ls_tags")
M("C09", "engine flag ignored in tag filter", F, "cli.py", "    version_parser = v2version if is_new_pattern else v1version", "    version_parser = v2version", "engine")
M("C09", "twin: max(key=...)", S, "cli.py", "        version_tags.sort(key=version.parse_version, reverse=True)\n        _debug_tags = \", \".join(version_tags[:3])\n        logger.debug(f\"found tags: {_debug_tags} ... ({len(version_tags)} in total)\")\n        return version_tags[0]",
  "        return max(version_tags, key=version.parse_version)")
M("C09", "twin: ascending sort and [-1]", S, "cli.py", "        version_tags.sort(key=version.parse_version, reverse=True)\n        _debug_tags = \", \".join(version_tags[:3])\n        logger.debug(f\"found tags: {_debug_tags} ... ({len(version_tags)} in total)\")\n        return version_tags[0]",
  "        version_tags.sort(key=version.parse_version)\n        return version_tags[-1]")
M("C09", "twin: is_valid catches ValueError itself", S, "v2version.py", "        try:\n            date = dt.date(year_y, month, dom)\n        except ValueError as ex:\n            # e.g. day is out of range for month (February 30th)\n            err_msg = f\"Invalid date {year_y}-{month}-{dom}: {ex}\"\n            raise version.PatternError(err_msg)",
  "        try:\n            date = dt.date(year_y, month, dom)\n        except ValueError:\n            raise version.PatternError(\"invalid date\")")

# =============================================================================== C10
M("C10", "post-hook after tag", F, "vcs.py", "        if cfg.post_commit_hook:\n            logger.info(f\"Run post-commit hook: {cfg.post_commit_hook}\")\n            hooks.run(cfg.post_commit_hook, cfg.current_version, new_version)\n\n    if cfg.commit and cfg.tag:\n        vcs_api.tag(tag_name=new_version, tag_message=tag_message)\n",
  "    if cfg.commit and cfg.tag:\n        vcs_api.tag(tag_name=new_version, tag_message=tag_message)\n    if cfg.commit and cfg.post_commit_hook:\n        hooks.run(cfg.post_commit_hook, cfg.current_version, new_version)\n", "post-hook")
M("C10", "check_output -> run without check", F, "vcs.py", "sp.check_output(cmd_parts, env=env, stderr=sp.PIPE)", "sp.run(cmd_parts, env=env, stderr=sp.PIPE, stdout=sp.PIPE).stdout", "does not raise")
M("C10", "dry return removed", F, "cli.py", "    if dry:\n        return\n\n    _try_update", "    _try_update", "--dry")
M("C10", "push without commit guard and tag alternative", F, "vcs.py", "    if cfg.commit and cfg.push:", "    if cfg.push or cfg.tag:", "push")
M("C10", "hook status test weakened", F, "hooks.py", "    if proc.returncode != 0:", "    if proc.returncode > 1:", "R2", allow_error=True)
M("C10", "fetch=True constant", F, "cli.py", "    all_tags     = vcs.get_tags(fetch=fetch, scope=cfg.tag_scope)", "    all_tags     = vcs.get_tags(fetch=True, scope=cfg.tag_scope)", "--no-fetch")
M("C10", "hook env names swapped", F, "hooks.py", "BUMPVER_OLD_VERSION=old_version, BUMPVER_NEW_VERSION=new_version", "BUMPVER_OLD_VERSION=new_version, BUMPVER_NEW_VERSION=old_version", "environment")
M("C10", "options parsed after the tag lookup", F, "cli.py", "    try:\n        cfg = _parse_vcs_options(cfg, commit, tag_commit, push, tag_scope, pre_commit_hook, post_commit_hook)\n    except ValueError as ex:\n        logger.warning(f\"Invalid argument: {ex}\")\n        sys.exit(1)\n\n    if not ignore_vcs_tag:\n        cfg = _update_cfg_from_vcs(cfg, fetch)\n",
  "    if not ignore_vcs_tag:\n        cfg = _update_cfg_from_vcs(cfg, fetch)\n\n    try:\n        cfg = _parse_vcs_options(cfg, commit, tag_commit, push, tag_scope, pre_commit_hook, post_commit_hook)\n    except ValueError as ex:\n        logger.warning(f\"Invalid argument: {ex}\")\n        sys.exit(1)\n", "before contradictory options")
M("C10", "pre-hook after staging", F, "vcs.py", "        if cfg.pre_commit_hook:\n            logger.info(f\"Run pre-commit hook: {cfg.pre_commit_hook}\")\n            hooks.run(cfg.pre_commit_hook, cfg.current_version, new_version)\n\n        for filepath in filepaths:\n            vcs_api.add(filepath)\n",
  "        for filepath in filepaths:\n            vcs_api.add(filepath)\n\n        if cfg.pre_commit_hook:\n            logger.info(f\"Run pre-commit hook: {cfg.pre_commit_hook}\")\n            hooks.run(cfg.pre_commit_hook, cfg.current_version, new_version)\n", "pre-hook")
M("C10", "push when tag inverted", F, "vcs.py", "        if cfg.tag:\n            vcs_api.push_tag(tag_name=new_version)\n        else:\n            vcs_api.push()", "        if not cfg.tag:\n            vcs_api.push_tag(tag_name=new_version)\n        else:\n            vcs_api.push()", "push")
M("C10", "twin: first --no-commit/--push test removed (the effective-commit test still rejects it)", S, "cli.py", "    if commit is False and push:\n        raise ValueError(\"--no-commit and --push cannot be used at the same time\")\n", "")
M("C10", "--push without commit no longer rejected", F, "cli.py", "    if not cfg.commit and push:\n        raise ValueError(\"--push requires either --commit or commit=True in your config\")\n", "", "contradiction")
M("C10", "failed add swallowed", F, "vcs.py", "            if \"already tracked!\" in str(ex):\n                # mercurial\n                return\n            else:\n                raise", "            return", "swallowed")
M("C10", "_try_update handler exits 0", F, "cli.py", "            sys.stderr.write(ex.stderr.decode('utf-8'))\n        sys.exit(1)", "            sys.stderr.write(ex.stderr.decode('utf-8'))\n        sys.exit(0)", "R3")
M("C10", "dirty check skipped with allow_dirty", F, "cli.py", "    if vcs_api:\n        vcs.assert_not_dirty(vcs_api, filepaths, allow_dirty)", "    if vcs_api and not allow_dirty:\n        vcs.assert_not_dirty(vcs_api, filepaths, allow_dirty)", "dirty-check")
M2("C10", "commit guard for tag removed at both sites", F, [("vcs.py", "    if cfg.commit and cfg.tag:", "    if cfg.tag:"), ("cli.py", "    if vcs_api:\n        vcs.commit(", "    if vcs_api or cfg.tag:\n        vcs.commit(")], "tag")
M("C10", "twin: redundant inner commit guard removed", S, "vcs.py", "    if cfg.commit and cfg.tag:\n        vcs_api.tag(", "    if cfg.tag:\n        vcs_api.tag(")
M("C10", "twin: nested ifs merged", S, "vcs.py", "    if cfg.commit and cfg.push:\n        if cfg.tag:\n            vcs_api.push_tag(tag_name=new_version)\n        else:\n            vcs_api.push()",
  "    if cfg.commit and cfg.push and cfg.tag:\n        vcs_api.push_tag(tag_name=new_version)\n    if cfg.commit and cfg.push and not cfg.tag:\n        vcs_api.push()")
M("C10", "twin: run(check=True)", S, "vcs.py", "sp.check_output(cmd_parts, env=env, stderr=sp.PIPE)", "sp.run(cmd_parts, env=env, stderr=sp.PIPE, stdout=sp.PIPE, check=True).stdout")

# =============================================================================== C11
M("C11", "pattern-file abort depends on allow_dirty", F, "vcs.py", "    dirty_pattern_files = set(dirty_files) & filepaths\n    if dirty_pattern_files:", "    dirty_pattern_files = set(dirty_files) & filepaths\n    if dirty_pattern_files and not allow_dirty:", "abort rules")
M("C11", "dirty abort inverted", F, "vcs.py", "    if not allow_dirty and dirty_files:\n        sys.exit(1)", "    if allow_dirty and dirty_files:\n        sys.exit(1)", "abort rules")
M("C11", "split on first space (pre-fix shape)", F, "vcs.py", "status_items = [(line[:2], line[2:]) for line in status_output.splitlines()]", "status_items = [line.split(\" \", 1) for line in status_output.splitlines()]", "delimiter")
M("C11", "untracked marker '?'", F, "vcs.py", "if filepath.strip() in required_files or status != \"??\"", "if filepath.strip() in required_files or status != \"?\"", "filter")
M("C11", "untracked pattern files dropped", F, "vcs.py", "if filepath.strip() in required_files or status != \"??\"", "if status != \"??\"", "filter")
M("C11", "dirty check after rewrite", F, "cli.py", "    if vcs_api:\n        vcs.assert_not_dirty(vcs_api, filepaths, allow_dirty)\n\n    try:\n        if cfg.is_new_pattern:\n            new_v2_vinfo = v2version.parse_version_info(new_version, cfg.version_pattern)\n            v2rewrite.rewrite_files(cfg.file_patterns, new_v2_vinfo)\n        else:\n            new_v1_vinfo = v1version.parse_version_info(new_version, cfg.version_pattern)\n            v1rewrite.rewrite_files(cfg.file_patterns, new_v1_vinfo)\n    except rewrite.NoPatternMatch as ex:\n        logger.error(str(ex))\n        sys.exit(1)\n",
  "    try:\n        if cfg.is_new_pattern:\n            new_v2_vinfo = v2version.parse_version_info(new_version, cfg.version_pattern)\n            v2rewrite.rewrite_files(cfg.file_patterns, new_v2_vinfo)\n        else:\n            new_v1_vinfo = v1version.parse_version_info(new_version, cfg.version_pattern)\n            v1rewrite.rewrite_files(cfg.file_patterns, new_v1_vinfo)\n    except rewrite.NoPatternMatch as ex:\n        logger.error(str(ex))\n        sys.exit(1)\n\n    if vcs_api:\n        vcs.assert_not_dirty(vcs_api, filepaths, allow_dirty)\n", "R1")
M("C11", "allow_dirty not passed on", F, "cli.py", "        _update(cfg, new_version, commit_message, tag_message, allow_dirty)", "        _update(cfg, new_version, commit_message, tag_message)", "allow_dirty")
M("C11", "path column off by one for git only", F, "vcs.py", "status_items = [(line[:2], line[2:]) for line in status_output.splitlines()]", "status_items = [(line[:1], line[1:]) for line in status_output.splitlines()]", "R3")
M("C11", "abort exits 0", F, "vcs.py", "            logger.warning(\"    \" + dirty_file)\n        sys.exit(1)", "            logger.warning(\"    \" + dirty_file)\n        sys.exit(0)", "status 0")
M("C11", "twin: len() emptiness test", S, "vcs.py", "    if not allow_dirty and dirty_files:\n        sys.exit(1)", "    if not allow_dirty and len(dirty_files) > 0:\n        sys.exit(1)")
M("C11", "twin: stripped slices", S, "vcs.py", "status_items = [(line[:2], line[2:]) for line in status_output.splitlines()]", "status_items = [(line[:2].strip(), line[2:].strip()) for line in status_output.splitlines()]")

# =============================================================================== C12
M("C12", "format then split (pre-fix shape)", F, "vcs.py", "        cmd_parts = [part.format(**kwargs) for part in shlex.split(cmd_tmpl)]\n        cmd_str   = \" \".join(cmd_parts)", "        cmd_str   = cmd_tmpl.format(**kwargs)\n        cmd_parts = shlex.split(cmd_str)", "re-tokenised")
M("C12", "message inside another token", F, "vcs.py", "'commit'        : \"git commit --message '{message}'\",", "'commit'        : \"git commit --message='{message}'\",", "placeholder {message}")
M("C12", "shell=True", F, "vcs.py", "sp.check_output(cmd_parts, env=env, stderr=sp.PIPE)", "sp.check_output(\" \".join(cmd_parts), env=env, stderr=sp.PIPE, shell=True)", "shell")
M("C12", "tag name lower-cased on the way", F, "vcs.py", "            self('tag', tag=tag_name, message=tag_message)", "            self('tag', tag=tag_name.lower(), message=tag_message)", "modified before")
M("C12", "commit gets the tag message", F, "vcs.py", "        vcs_api.commit(commit_message)", "        vcs_api.commit(tag_message)", "commit_message")
M("C12", "OLD_VERSION placeholder carries the new version", F, "cli.py", "        'OLD_VERSION'       : old_version,", "        'OLD_VERSION'       : new_version,", "OLD_VERSION")
M("C12", "documented placeholder dropped", F, "cli.py", "        'new_version_pep440': version.to_pep440(new_version),\n", "", "placeholder")
M("C12", "OLD/NEW shorthand regex loosened", F, "cli.py", "return re.sub(r\"\\b(OLD|NEW)\\b\", r\"{\\1_VERSION}\", message)", "return re.sub(r\"(OLD|NEW)\", r\"{\\1_VERSION}\", message)", "shorthand")
M("C12", "hg message encoded as latin-1", F, "vcs.py", "message_data = message.encode(\"utf-8\")", "message_data = message.encode(\"latin-1\", \"replace\")", "UTF-8")
M("C12", "try_tag_message built from the commit template", F, "cli.py", "    try_tag_message    = tag_msg_template.format(**tag_and_commit_message_kwargs)", "    try_tag_message    = commit_msg_template.format(**tag_and_commit_message_kwargs)", "tag_message")
M("C12", "twin: shlex.quote before format", S, "vcs.py", "        cmd_parts = [part.format(**kwargs) for part in shlex.split(cmd_tmpl)]", "        cmd_parts = [part.format(**kwargs) for part in shlex.split(str(cmd_tmpl))]")

# =============================================================================== C13
M("C13", "diff path opened without newline=''", F, "v2rewrite.py", "    for file_path, patterns in sorted(rewrite.iter_path_patterns_items(file_patterns)):\n        with file_path.open(mode=\"rt\", newline='', encoding=\"utf-8\") as fobj:", "    for file_path, patterns in sorted(rewrite.iter_path_patterns_items(file_patterns)):\n        with file_path.open(mode=\"rt\", encoding=\"utf-8\") as fobj:", "open files differently")
M("C13", "diff renders the old version info", F, "v2rewrite.py", "            rfd = rfd_from_content(patterns, new_vinfo, content)\n        except rewrite.NoPatternMatch as ex:", "            rfd = rfd_from_content(patterns, old_vinfo, content)\n        except rewrite.NoPatternMatch as ex:", "differently")
M("C13", "dry path writes", F, "cli.py", "        diff = get_diff(cfg, new_version)\n        _print_diff_str(diff)", "        diff = get_diff(cfg, new_version)\n        with open(\"bumpver.diff\", \"w\") as fobj:\n            fobj.write(diff)\n        _print_diff_str(diff)", "--dry")
M("C13", "dry return after the update", F, "cli.py", "    if dry:\n        return\n\n    _try_update(cfg, new_version, try_commit_message, try_tag_message, allow_dirty)", "    _try_update(cfg, new_version, try_commit_message, try_tag_message, allow_dirty)\n    if dry:\n        return", "--dry")
M("C13", "diff printed only with -vv", F, "cli.py", "    if dry or verbose >= 2:\n        _print_diff(cfg, new_version)", "    if verbose >= 2:\n        _print_diff(cfg, new_version)", "print the diff")
M("C13", "diff engine selection inverted", F, "cli.py", "    if cfg.is_new_pattern:\n        return _v2_get_diff(cfg, new_version)\n    else:\n        return _v1_get_diff(cfg, new_version)", "    if not cfg.is_new_pattern:\n        return _v2_get_diff(cfg, new_version)\n    else:\n        return _v1_get_diff(cfg, new_version)", "engine selection")
M("C13", "write path validates more than the diff path", F, "v2rewrite.py", "    rewritten_files = list(iter_rewritten(file_patterns, new_vinfo))\n", "    rewritten_files = list(iter_rewritten(file_patterns, new_vinfo))\n    if not rewritten_files:\n        raise rewrite.NoPatternMatch(\"nothing to rewrite\")\n", "dry run cannot see")
M("C13", "diff shows new->new", F, "rewrite.py", "        a=rfd.old_lines,\n        b=rfd.new_lines,", "        a=rfd.new_lines,\n        b=rfd.new_lines,", "old_lines")
M("C13", "twin: sorted() removed from the diff loop", S, "v1rewrite.py", "    for file_path, patterns in sorted(rewrite.iter_path_patterns_items(file_patterns)):", "    for file_path, patterns in rewrite.iter_path_patterns_items(file_patterns):")

# =============================================================================== C14
for _p, _lst, _new in (("0Y", "[\"YYYY\", \"YY\", \"0Y\"]", "[\"YYYY\", \"YY\"]"), ("0U", "[\"WW\"  , \"0W\", \"UU\", \"0U\"]", "[\"WW\"  , \"0W\", \"UU\"]"),
                       ("GG", "[\"GGGG\", \"GG\", \"0G\"]", "[\"GGGG\", \"0G\"]"), ("0V", "[\"VV\"  , \"0V\"]", "[\"VV\"]")):
    M("C14", f"part {_p} removed from its guard list", F, "v2version.py", _lst, _new, "part list")
M("C14", "guard call removed from incr", F, "v2version.py", "    if not is_valid_week_pattern(raw_pattern):\n        return None\n\n    date = version.TODAY", "    date = version.TODAY", "guard")
M("C14", "guard removed from the config validator", F, "config.py", "        if not v2version.is_valid_week_pattern(version_pattern):\n            errmsg = f\"Invalid week number pattern: {version_pattern}\"\n            raise ValueError(errmsg)\n", "", "guard")
M("C14", "validator only warns", F, "config.py", "            errmsg = f\"Invalid week number pattern: {version_pattern}\"\n            raise ValueError(errmsg)", "            errmsg = f\"Invalid week number pattern: {version_pattern}\"\n            logger.warning(errmsg)", "accepted")
M("C14", "%V bound to week_w in cal_info", F, "v2version.py", "        'week_w' : int(date.strftime(\"%W\"), base=10),\n        'week_u' : int(date.strftime(\"%U\"), base=10),\n        'week_v' : int(date.strftime(\"%V\"), base=10),\n    }", "        'week_w' : int(date.strftime(\"%V\"), base=10),\n        'week_u' : int(date.strftime(\"%U\"), base=10),\n        'week_v' : int(date.strftime(\"%V\"), base=10),\n    }", "week_w")
M("C14", "parser derives year_g from %Y", F, "v2version.py", "        year_g = int(date.strftime(\"%G\"), base=10)\n        month  = int(date.strftime(\"%m\"), base=10)", "        year_g = int(date.strftime(\"%Y\"), base=10)\n        month  = int(date.strftime(\"%m\"), base=10)", "year_g")
M("C14", "V2CalendarInfo fields reordered", F, "version.py", "class V2CalendarInfo(typ.NamedTuple):\n    \"\"\"Container for calendar components of version strings.\"\"\"\n\n    year_y : MaybeInt\n    year_g : MaybeInt\n    quarter: MaybeInt\n    month  : MaybeInt\n    dom    : MaybeInt",
  "class V2CalendarInfo(typ.NamedTuple):\n    \"\"\"Container for calendar components of version strings.\"\"\"\n\n    year_y : MaybeInt\n    year_g : MaybeInt\n    quarter: MaybeInt\n    dom    : MaybeInt\n    month  : MaybeInt", "order", allow_error=True)
M("C14", "_is_cal_gt uses >=", F, "v2version.py", "    return lvals > rvals\n\n\ndef cal_info", "    return lvals >= rvals\n\n\ndef cal_info", "comparison")
M("C14", "guard returns True for G with W", F, "v2version.py", "    elif has_gg_part and has_ww_part:\n        alt1 = raw_pattern.replace(\"W\", \"V\").replace(\"U\", \"V\")\n        alt2 = raw_pattern.replace(\"G\", \"Y\")\n        logger.error(f\"Invalid pattern: '{raw_pattern}'. Maybe try {alt1} or {alt2}\")\n        return False",
  "    elif has_gg_part and has_ww_part:\n        alt1 = raw_pattern.replace(\"W\", \"V\").replace(\"U\", \"V\")\n        alt2 = raw_pattern.replace(\"G\", \"Y\")\n        logger.error(f\"Invalid pattern: '{raw_pattern}'. Maybe try {alt1} or {alt2}\")\n        return True", "pairings")
M("C14", "twin: list as tuple literal", S, "v2version.py", "for part in [\"VV\"  , \"0V\"])", "for part in (\"VV\"  , \"0V\"))")

# =============================================================================== C15
for _k, _old, _new in (("alpha", "'alpha'  : 'a',", "'alpha'  : 'alpha',"), ("preview", "'preview': 'rc',", "'preview': 'pre',"), ("c", "'c'      : 'rc',", "'c'      : 'c',"),
                       ("rev", "'rev'    : 'post',", "'rev'    : 'rev',"), ("beta", "'beta'   : 'b',", "'beta'   : 'beta',")):
    M("C15", f"tag map entry {_k} de-normalised", F, "version.py", _old, _new, _k)
M("C15", "substitution to another field", F, "v2patterns.py", "    '0D'   : \"DD\",", "    '0D'   : \"MM\",", "0D")
M("C15", "substitution 0M removed", F, "v2patterns.py", "    '0M'   : \"MM\",\n", "", "0M")
M("C15", "0Y substitution removed (pre-fix shape)", F, "v2patterns.py", "    '0Y'   : \"YY\",\n", "", "0Y")
M("C15", "substitution target still padded", F, "v2patterns.py", "    '00J'  : \"JJJ\",", "    '00J'  : \"00J\",", "leading zero")
M("C15", "PYTAG loses rc", F, "v2patterns.py", "('PYTAG'  , r\"dev|post|rc|a|b\"),", "('PYTAG'  , r\"dev|post|a|b\"),", "PYTAG")
M("C15", "v prefix kept", F, "v2patterns.py", "    if pep440_pattern.startswith(\"v\"):\n        pep440_pattern = pep440_pattern[1:]\n", "", "prefix")
M("C15", "to_pep440 returns the raw string for legacy", F, "version.py", "    return str(parse_version(version))", "    return str(version)", "to_pep440")
M("C15", "twin: dict reordered", S, "v2patterns.py", "    '0W'   : \"WW\",\n    '0U'   : \"UU\",", "    '0U'   : \"UU\",\n    '0W'   : \"WW\",")

# =============================================================================== C16
M("C16", "__le__ uses <", F, "setuptools_v65_version.py", "        return self._key <= other._key", "        return self._key < other._key", "__le__")
M("C16", "__gt__ uses >=", F, "setuptools_v65_version.py", "        return self._key > other._key", "        return self._key >= other._key", "__gt__")
M("C16", "legacy epoch 0", F, "setuptools_v65_version.py", "    epoch = -1\n\n    # This scheme", "    epoch = 0\n\n    # This scheme", "key of a legacy version")
M("C16", "Infinity.__lt__ True", F, "setuptools_v65_version.py", "class InfinityType:\n    def __repr__(self) -> str:\n        return \"Infinity\"\n\n    def __hash__(self) -> int:\n        return hash(repr(self))\n\n    def __lt__(self, other: object) -> bool:\n        return False",
  "class InfinityType:\n    def __repr__(self) -> str:\n        return \"Infinity\"\n\n    def __hash__(self) -> int:\n        return hash(repr(self))\n\n    def __lt__(self, other: object) -> bool:\n        return True", "InfinityType.__lt__")
M("C16", "post absent sorts after", F, "setuptools_v65_version.py", "    if post is None:\n        _post: PrePostDevType = NegativeInfinity", "    if post is None:\n        _post: PrePostDevType = Infinity", "_cmpkey")
M("C16", "dev-only rule ignores post", F, "setuptools_v65_version.py", "    if pre is None and post is None and dev is not None:", "    if pre is None and dev is not None:", "_cmpkey")
M("C16", "key tuple order changed", F, "setuptools_v65_version.py", "    return epoch, _release, _pre, _post, _dev, _local", "    return epoch, _release, _post, _pre, _dev, _local", "_cmpkey")
M("C16", "parse falls back on any ValueError", F, "setuptools_v65_version.py", "    try:\n        return Version(version)\n    except InvalidVersion:\n        return LegacyVersion(version)", "    try:\n        return Version(version)\n    except Exception:\n        return LegacyVersion(version)", "fallback")
M("C16", "regex loses the end anchor", F, "setuptools_v65_version.py", "re.compile(r\"^\\s*\" + VERSION_PATTERN + r\"\\s*$\", re.VERBOSE | re.IGNORECASE)", "re.compile(r\"^\\s*\" + VERSION_PATTERN + r\"\\s*\", re.VERBOSE | re.IGNORECASE)", "anchored")
M("C16", "tags sorted as strings", F, "cli.py", "version_tags.sort(key=version.parse_version, reverse=True)", "version_tags.sort(key=str, reverse=True)", "sorted without")
M("C16", "post spelling `r` dropped from VERSION_PATTERN", F, "setuptools_v65_version.py", "(?P<post_l>post|rev|r)", "(?P<post_l>post|rev)", "VERSION_PATTERN")
M("C16", "twin: dev group spelled d(?:ev)", S, "setuptools_v65_version.py", "(?P<dev_l>dev)", "(?P<dev_l>d(?:ev))")
M("C16", "trailing zeros kept", F, "setuptools_v65_version.py", "    _release = tuple(reversed(list(itertools.dropwhile(lambda x: x == 0, reversed(release)))))", "    _release = tuple(release)", "_cmpkey")

# =============================================================================== C17
M("C17", "next_id only without --tag", F, "v2version.py", "    cur_vinfo = cur_vinfo._replace(bid=lexid.next_id(cur_vinfo.bid))\n    return _reset_rollover_fields", "    if not tag:\n        cur_vinfo = cur_vinfo._replace(bid=lexid.next_id(cur_vinfo.bid))\n    return _reset_rollover_fields", "not advanced")
M("C17", "bid added to the reset table", F, "version.py", "    'inc1' : \"1\",\n}", "    'inc1' : \"1\",\n    'bid'  : \"1000\",\n}", "resets BUILD")
M("C17", "bid read through int()", F, "v2version.py", "    bid   = fvals['bid'] if 'bid' in fvals else \"1000\"", "    bid   = str(int(fvals['bid'])) if 'bid' in fvals else \"1000\"", "converted on read")
M("C17", "padding after the successor", F, "v2version.py", "    # prevent truncation of leading zeros\n    if int(cur_vinfo.bid) < 1000:\n        cur_vinfo = cur_vinfo._replace(bid=str(int(cur_vinfo.bid) + 1000))\n\n    cur_vinfo = cur_vinfo._replace(bid=lexid.next_id(cur_vinfo.bid))",
  "    cur_vinfo = cur_vinfo._replace(bid=lexid.next_id(cur_vinfo.bid))\n    # prevent truncation of leading zeros\n    if int(cur_vinfo.bid) < 1000:\n        cur_vinfo = cur_vinfo._replace(bid=str(int(cur_vinfo.bid) + 1000))\n", "padding")
M("C17", "padding offset differs from threshold", F, "v2version.py", "cur_vinfo = cur_vinfo._replace(bid=str(int(cur_vinfo.bid) + 1000))", "cur_vinfo = cur_vinfo._replace(bid=str(int(cur_vinfo.bid) + 100))", "padding step")
M("C17", "BUILD formatter canonicalises", F, "v2patterns.py", "    'BUILD'  : _fmt_num,", "    'BUILD'  : _fmt_bld,", "BUILD")
M("C17", "own successor arithmetic", F, "v2version.py", "    cur_vinfo = cur_vinfo._replace(bid=lexid.next_id(cur_vinfo.bid))\n    return _reset_rollover_fields", "    cur_vinfo = cur_vinfo._replace(bid=str(int(cur_vinfo.bid) + 1))\n    return _reset_rollover_fields", "lexid.next_id")
M("C17", "v1 successor only when calendar unchanged", F, "v1version.py", "    cur_vinfo = cur_vinfo._replace(bid=lexid.next_id(cur_vinfo.bid))\n\n    if major:", "    if not major:\n        cur_vinfo = cur_vinfo._replace(bid=lexid.next_id(cur_vinfo.bid))\n\n    if major:", "flag")

# =============================================================================== C18
M("C18", "toml reader skips the defaults", F, "config.py", "    for option, default_val in BOOL_OPTIONS.items():\n        raw_cfg[option] = raw_cfg.get(option, default_val)\n\n    _set_raw_config_defaults(raw_cfg)\n", "    for option, default_val in BOOL_OPTIONS.items():\n        raw_cfg[option] = raw_cfg.get(option, default_val)\n", "_set_raw_config_defaults")
M("C18", "ini booleans: 'on' dropped", F, "config.py", "val = val.lower() in (\"yes\", \"true\", \"1\", \"on\")", "val = val.lower() in (\"yes\", \"true\", \"1\")", "spellings")
M("C18", "ini booleans: case-sensitive", F, "config.py", "val = val.lower() in (\"yes\", \"true\", \"1\", \"on\")", "val = val in (\"yes\", \"true\", \"1\", \"on\")", "spelling")
M("C18", "self-pattern parser forgets [tool.bumpver]", F, "config.py", "        elif line.strip() == \"[tool.bumpver]\":\n            is_config_section = True\n", "", "header literals")
M("C18", "tag without commit accepted", F, "config.py", "    if tag and not commit:\n        raise ValueError(\"commit=True required if tag=True\")\n", "", "without commit")
M("C18", "toml loop uses its own table", F, "config.py", "    for option, default_val in BOOL_OPTIONS.items():\n        raw_cfg[option] = raw_cfg.get(option, default_val)", "    for option, default_val in {'commit': False, 'tag': False, 'push': False}.items():\n        raw_cfg[option] = raw_cfg.get(option, default_val)", "shared BOOL_OPTIONS")
M("C18", "current_version not quote-stripped", F, "config.py", "    current_version = raw_cfg['current_version'] = current_version.strip(\"'\\\" \")", "    current_version = raw_cfg['current_version'] = current_version.strip()", "quote-stripped")
M("C18", "ini reader reads only [bumpver]", F, "config.py", "    if cfg_parser.has_section(\"pycalver\"):\n        raw_cfg = dict(cfg_parser.items(\"pycalver\"))\n    elif cfg_parser.has_section(\"bumpver\"):", "    if cfg_parser.has_section(\"bumpver\"):", "accepted sections", allow_error=True)
M("C18", "Config.push filled from tag", F, "config.py", "        tag=tag,\n        push=push,\n        is_new_pattern=is_new_pattern,", "        tag=tag,\n        push=tag,\n        is_new_pattern=is_new_pattern,", "Config.push")

# =============================================================================== C19
M("C19", "write mode wt", F, "config.py", "with ctx.config_filepath.open(mode=\"at\", encoding=\"utf-8\") as fobj:", "with ctx.config_filepath.open(mode=\"wt\", encoding=\"utf-8\") as fobj:", "append mode")
M("C19", "dry exit after the write", F, "cli.py", "        sys.exit(0)\n\n    config.write_content(ctx)", "        config.write_content(ctx)\n        sys.exit(0)\n\n    config.write_content(ctx)", "R1")
M("C19", "existing config not refused", F, "cli.py", "        logger.error(f\"Configuration already initialized in {ctx.config_rel_path}\")\n        sys.exit(1)", "        logger.error(f\"Configuration already initialized in {ctx.config_rel_path}\")", "R1")
M("C19", "pyproject template section renamed", F, "config.py", "DEFAULT_PYPROJECT_TOML_BASE_TMPL = \"\"\"\n[tool.bumpver]", "DEFAULT_PYPROJECT_TOML_BASE_TMPL = \"\"\"\n[tools.bumpver]", "DEFAULT_PYPROJECT_TOML_BASE_TMPL")
M("C19", "toml template with INI boolean", F, "config.py", "pre_commit_hook = \"\"\npost_commit_hook = \"\"\ncommit = true\ntag = true\npush = true\n\n[bumpver.file_patterns]", "pre_commit_hook = \"\"\npost_commit_hook = \"\"\ncommit = True\ntag = true\npush = true\n\n[bumpver.file_patterns]", "DEFAULT_BUMPVER_TOML_BASE_TMPL")
M("C19", "candidate missing", F, "config.py", "        path / \"bumpver.toml\",\n        path / \".bumpver.toml\",\n        path / \"pyproject.toml\",", "        path / \"bumpver.toml\",\n        path / \"pyproject.toml\",", "SUPPORTED_CONFIGS")
M("C19", "initial version without build number", F, "config.py", "    return utils.now().strftime(\"%Y.1001-alpha\")", "    return utils.now().strftime(\"%Y-alpha\")", "initial version")
M("C19", "preference requires only the section", F, "config.py", "            has_bumpver_section = (b\"bumpver]\" in data or b\"pycalver]\" in data) and b\"current_version\" in data", "            has_bumpver_section = b\"bumpver]\" in data or b\"pycalver]\" in data", "_pick_config_filepath")
M("C19", "self snippet loses current_version", F, "config.py", "DEFAULT_TOML_BUMPVER_STR = \"\"\"\n\"bumpver.toml\" = [\n    'current_version = \"{version}\"',\n]", "DEFAULT_TOML_BUMPVER_STR = \"\"\"\n\"bumpver.toml\" = [\n    'version = \"{version}\"',\n]", "current_version pattern")
M("C19", "fallback setup.cfg", F, "config.py", "    # fallback to creating a new bumpver.toml\n    return path / \"bumpver.toml\"", "    # fallback to creating a new bumpver.toml\n    return path / \"setup.cfg\"", "_pick_config_filepath")

# =============================================================================== C20
M("C20", "legacy month regex 1-12 only unpadded", F, "v1patterns.py", "    'month'      : r\"(?:0[0-9]|1[0-2])\",", "    'month'      : r\"(?:1[0-2]|[1-9])\",", "month")
M("C20", "pycalver format month unpadded", F, "v1patterns.py", "    'pycalver'       : \"v{year}{month:02}.{bid}{release}\",", "    'pycalver'       : \"v{year}{month}.{bid}{release}\",", "pycalver")
M("C20", "doy regex stops at 365", F, "v1patterns.py", "    'doy'        : r\"(?:[0-2]\\d\\d|3[0-5][0-9]|36[0-6])\",", "    'doy'        : r\"(?:[0-2]\\d\\d|3[0-5][0-9]|36[0-5])\",", "doy")
M("C20", "v1 length test removed (pre-fix shape)", F, "v1version.py", "    elif len(match.group()) < len(version_str):\n        err_msg = (\n            f\"Incomplete match '{match.group()}' for version string '{version_str}' \"\n            f\"with pattern '{raw_pattern}'/'{pattern.regexp.pattern}'\"\n        )\n        raise version.PatternError(err_msg)\n    else:\n        return _parse_version_info(match.groupdict())",
  "    else:\n        return _parse_version_info(match.groupdict())", "prefix match")
M("C20", "gate predicate narrowed to {pycalver}", F, "cli.py", "    is_new_pattern = \"{\" not in raw_pattern and \"}\" not in raw_pattern\n\n    try:", "    is_new_pattern = \"{pycalver}\" not in raw_pattern\n\n    try:", "legacy")
M("C20", "config predicate requires both braces missing", F, "config.py", "    is_new_pattern = \"{\" not in version_pattern and \"}\" not in version_pattern", "    is_new_pattern = \"{year}\" not in version_pattern and \"{pycalver}\" not in version_pattern", "legacy")
M("C20", "dispatch only knows PART_PATTERNS without formats", F, "cli.py", "    v1_parts    = list(v1patterns.PART_PATTERNS) + list(v1patterns.FULL_PART_FORMATS)", "    v1_parts    = [\"pycalver\", \"semver\"]", "legacy")
M("C20", "v1 --tag-num silently ignored", F, "v1version.py", "    if tag_num:\n        raise NotImplementedError(\"--tag-num not supported for old style patterns\")\n", "", "tag-num")
M("C20", "v1 minor keeps patch", F, "v1version.py", "cur_vinfo = cur_vinfo._replace(minor=cur_vinfo.minor + 1, patch=0)", "cur_vinfo = cur_vinfo._replace(minor=cur_vinfo.minor + 1)", "--minor")
M("C20", "pep440_tag rendered without number", F, "v1version.py", "kwargs['pep440_tag'] = version.PEP440_TAG_BY_TAG[release_tag] + \"0\"", "kwargs['pep440_tag'] = \".\" + version.PEP440_TAG_BY_TAG[release_tag]", "pep440")
M("C20", "twin: predicates factored", S, "cli.py", "    is_new_pattern = \"{\" not in raw_pattern and \"}\" not in raw_pattern\n\n    try:", "    is_new_pattern = not (\"{\" in raw_pattern or \"}\" in raw_pattern)\n\n    try:")

# =============================================================================== twins for the rules added after round 2
M("C09", "twin: get_tags handler binds the exception", S, "vcs.py", '''    except OSError:
        logger.debug("No vcs found")
        return []''', '''    except OSError as ex:
        logger.debug(f"No vcs found: {ex}")
        return []''')
M("C01", "twin: get_tags logs and re-raises a failed listing", S, "vcs.py", '''    except OSError:
        logger.debug("No vcs found")
        return []''', '''    except sp.CalledProcessError:
        logger.error("listing tags failed")
        raise
    except OSError:
        logger.debug("No vcs found")
        return []''')
M("C07", "twin: toml reader copies the file_patterns table", S, "config.py", '''    _set_raw_config_defaults(raw_cfg)

    return raw_cfg


def _iter_glob_expanded_file_patterns(''', '''    _set_raw_config_defaults(raw_cfg)
    raw_cfg['file_patterns'] = {path: list(raw_patterns) for path, raw_patterns in raw_cfg['file_patterns'].items()}

    return raw_cfg


def _iter_glob_expanded_file_patterns(''')
M("C11", "twin: membership spelled with any(==)", S, "vcs.py", '''            if filepath.strip() in required_files or status != "??"''',
  '''            if any(filepath.strip() == req for req in required_files) or status != "??"''')
M("C11", "twin: marker tested with lexists", S, "vcs.py", '''        if not os.path.exists(f".{self.name}"):''', '''        if not os.path.lexists(f".{self.name}"):''')
M("C12", "twin: template selection with swapped branches", S, "cli.py", '''    if commit_message is None:
        commit_msg_template = cfg.commit_message
    else:
        commit_msg_template = _sub_msg_template(commit_message)
''', '''    if commit_message is not None:
        commit_msg_template = _sub_msg_template(commit_message)
    else:
        commit_msg_template = cfg.commit_message
''')
M("C12", "twin: tag template as mirrored conditional expression", S, "cli.py",
  '''    tag_msg_template = cfg.tag_message if tag_message is None else _sub_msg_template(tag_message)''',
  '''    tag_msg_template = _sub_msg_template(tag_message) if tag_message is not None else cfg.tag_message''')
M("C13", "twin: trailing newline trimmed in the return", S, "v2rewrite.py", '''    full_diff = full_diff.rstrip("\\n")
    return full_diff''', '''    return full_diff.rstrip("\\n")''')
M("C13", "twin: a log line for dry runs before the diff", S, "cli.py", '''    if dry or verbose >= 2:
        _print_diff(cfg, new_version)
''', '''    if dry:
        logger.info("dry run, no files are changed")

    if dry or verbose >= 2:
        _print_diff(cfg, new_version)
''')
M("C16", "twin: local segment conditional mirrored", S, "setuptools_v65_version.py", '''            part.lower() if not part.isdigit() else int(part)''',
  '''            int(part) if part.isdigit() else part.lower()''')
M("C17", "twin: reset loop as conditional expression", S, "v2version.py", '''        if value.isdigit():
            cur_kwargs[field] = int(value)
        else:
            cur_kwargs[field] = value
''', '''        cur_kwargs[field] = int(value) if value.isdigit() else value
''')
M("C18", "twin: INI pattern lines as one comprehension", S, "config.py", '''        maybe_patterns = (line.strip() for line in patterns_str.splitlines())
        patterns       = [p for p in maybe_patterns if p]
''', '''        patterns = [line.strip() for line in patterns_str.splitlines() if line.strip()]
''')
M("C19", "twin: newline prefix as conditional expression", S, "config.py", '''    if ctx.config_filepath.exists():
        cfg_content = "\\n" + cfg_content
''', '''    prefix      = "\\n" if ctx.config_filepath.exists() else ""
    cfg_content = prefix + cfg_content
''')
M("C20", "twin: yy via modulo and zfill", S, "v1version.py", '''        kwargs['yy'  ] = str(year)[-2:]''', '''        kwargs['yy'  ] = str(year % 100).zfill(2)''')
M("C03", "twin: self pattern stored without a local", S, "config.py", '''        raw_version_pattern = _parse_current_version_default_pattern(raw_cfg, raw_cfg_text)
        raw_cfg['file_patterns'][ctx.config_rel_path] = [raw_version_pattern]''',
  '''        raw_cfg['file_patterns'][ctx.config_rel_path] = [_parse_current_version_default_pattern(raw_cfg, raw_cfg_text)]''')
M("C10", "twin: vcs handle looked up under an equivalent nested test", S, "cli.py", '''    if cfg.commit:
        try:
            vcs_api = vcs.get_vcs_api()
        except OSError:
            logger.warning("Version Control System not found, skipping commit.")
''', '''    if not cfg.commit:
        pass
    else:
        try:
            vcs_api = vcs.get_vcs_api()
        except OSError:
            logger.warning("Version Control System not found, skipping commit.")
''')
