"""C16 - version comparison is a total order that agrees with PEP 440 (structural order laws)."""
from __future__ import annotations

import ast
import re
import typing as T

from sa import shapes
from sa.boolfn import BF
from sa.model import AnalysisError, const_str, unparse, walk_no_nested
from sa.pathcond import PathCond

TECHNIQUE = "method-table check of the comparison dunders and sentinels, path-condition extraction of _cmpkey's sentinel table, constant/anchor checks of the vendored regex, who-compares-what scan of cli"
EXPLANATION = (
    "Agreement with PEP 440 on all pairs of strings needs a reference implementation and generated strings and is NOT decided. "
    "Decided are the structural order laws of the vendored packaging code: (R1) all six comparisons of _BaseVersion delegate to "
    "one key with the matching operator, hash uses the key, both subclasses set the key in __init__; (R2) legacy keys start "
    "with the constant -1 and PEP 440 epochs are int of [0-9]+ or 0, so mixed comparisons are decided at element 0; (R3) the "
    "two infinity sentinels define each comparison as the constant that makes them greater / less than everything and equal "
    "only to themselves; (R4) _cmpkey applies PEP 440's segment rules, extracted as exact (condition -> sentinel) pairs, and "
    "returns (epoch, release, pre, post, dev, local) with trailing release zeros dropped; (R5) parse falls back to "
    "LegacyVersion only on InvalidVersion and the PEP 440 regex is anchored and case-insensitive; (R6) every ordering "
    "comparison and sort key on version strings in cli goes through version.parse_version."
)
LEVEL_NOTE = "PARTIAL: decides the order-law structure (total preorder by tuple comparison of mutually comparable keys), not agreement with a PEP 440 reference on all strings."

M = "setuptools_v65_version"
OPS = {"__lt__": ast.Lt, "__le__": ast.LtE, "__eq__": ast.Eq, "__ge__": ast.GtE, "__gt__": ast.Gt, "__ne__": ast.NotEq}


# PEP 440, appendix B (packaging.version.VERSION_PATTERN), written without groups names and comments
PEP440_REFERENCE = (r"v?(?:(?:[0-9]+!)?[0-9]+(?:\.[0-9]+)*(?:[-_\.]?(?:a|b|c|rc|alpha|beta|pre|preview)[-_\.]?(?:[0-9]+)?)?"
                    r"(?:(?:-[0-9]+)|(?:[-_\.]?(?:post|rev|r)[-_\.]?(?:[0-9]+)?))?(?:[-_\.]?dev[-_\.]?(?:[0-9]+)?)?)(?:\+[a-z0-9]+(?:[-_\.][a-z0-9]+)*)?")


def _deref(fn, e: ast.AST) -> ast.AST:
    """A bare local name stands for its single definition (pieces computed into locals before the constructor call)."""
    if isinstance(e, ast.Name):
        d = shapes.single_def(fn, e.id)
        if d is not None:
            return d
    return e


def _single_return(fn) -> T.Optional[ast.AST]:
    rets = [n for n in walk_no_nested(fn.node) if isinstance(n, ast.Return)]
    return rets[0].value if len(rets) == 1 else None


def parse_fallback_eval(ctx) -> T.Optional[T.List[str]]:
    """parse(v) evaluated with abstract constructors: Version(v) when that succeeds, LegacyVersion(v) when it raises
    InvalidVersion, and any other error goes on to the caller.  Returns the mismatches, None when not evaluated."""
    from sa.model import CannotFold, EvalError, Raised
    prog = ctx.prog
    pf = prog.function(f"{M}.parse")
    wrong: T.List[str] = []
    try:
        for outcome in ("ok", "InvalidVersion", "ValueError", "TypeError"):
            def version_ctor(f: T.Any, node: ast.Call, outcome: str = outcome) -> T.Any:
                arg = f(node.args[0] if node.args else node.keywords[0].value)
                if outcome == "ok":
                    return ("Version", arg)
                raise Raised(outcome, ("ValueError",) if outcome == "InvalidVersion" else ())

            def legacy_ctor(f: T.Any, node: ast.Call) -> T.Any:
                return ("LegacyVersion", f(node.args[0] if node.args else node.keywords[0].value))
            env = {pf.params[0]: "<text>", "__strict__": True, "__stubs__": {"Version": version_ctor, "LegacyVersion": legacy_ctor}}
            try:
                got, _ys = prog.run_body(pf, env)
            except Raised as ex:
                got = f"raises {ex.name}"
            except EvalError as ex:
                got = f"raises: {ex}"
            want = {"ok": ("Version", "<text>"), "InvalidVersion": ("LegacyVersion", "<text>")}.get(outcome, f"raises {outcome}")
            if got != want:
                wrong.append(f"Version(v) {'succeeds' if outcome == 'ok' else 'raises ' + outcome}: parse(v) -> {got}, expected {want}")
    except (CannotFold, TypeError, AttributeError, KeyError, ValueError, IndexError) as ex:
        ctx.observe(f"{M}.parse not evaluated ({type(ex).__name__}: {str(ex)[:80]})")
        return None
    return wrong


def run(ctx) -> None:
    prog, cfgs = ctx.prog, ctx.cfgs
    ctx.rule("R1", "six comparison dunders delegate to self._key OP other._key; hash(self._key); subclasses set _key")
    ctx.rule("R2", "legacy epoch is the constant -1; PEP 440 epoch >= 0")
    ctx.rule("R3", "Infinity / NegativeInfinity: 5 comparisons each are the right constants")
    ctx.rule("R4", "_cmpkey sentinel table and tuple order")
    ctx.rule("R5", "parse falls back only on InvalidVersion; regex anchored, VERBOSE|IGNORECASE")
    ctx.rule("R6", "every ordering comparison / sort key in cli resolves to version.parse_version")
    ctx.rule("R8", "key components are mutually comparable: local labels are int (digits) or lower-cased str; legacy parts are str, numbers zero-padded to >= 8 digits")
    ctx.rule("R9", "legacy key = the pkg_resources scheme: evaluated over bounded token sequences against the reference algorithm (terminates, never raises, numbers compare numerically, pre-release words before the bare version)")
    ctx.rule("R7", "canonical printing: optional segments tested with `is not None` (0 is a valid number); spellings lower-cased before normalisation")

    # evaluation-based decisions first; the structural rules below are the fallback for what could not be evaluated
    decided: T.Dict[str, bool] = {}
    decided.update(canonical_str_rule(ctx, "R7"))
    decided.update(legacy_key_rule(ctx, "R9"))
    decided.update(pep440_key_rule(ctx, "R4"))
    letter_version_eval(ctx, "R4")

    base = prog.klass(f"{M}._BaseVersion")
    n = 0
    for name, op in OPS.items():
        ctx.require(name in base.methods, f"_BaseVersion.{name} vanished")
        fn = base.methods[name]
        ctx.visit(fn.fq)
        v = _single_return(fn)
        other = fn.params[1]
        ok = isinstance(v, ast.Compare) and len(v.ops) == 1 and isinstance(v.ops[0], op) and unparse(v.left) == "self._key" and unparse(v.comparators[0]) == f"{other}._key"
        n += 1
        ctx.check("R1", ok, f"_BaseVersion.{name}: self._key {op.__name__} other._key", f"{M}._BaseVersion.{name} does not compare the keys with its own operator",
                  unparse(v) if v is not None else "no single return", loc=fn.loc())
    ctx.floor("R1", "comparison dunders", n, 6)
    h = base.methods.get("__hash__")
    ctx.check("R1", h is not None and unparse(_single_return(h)) == "hash(self._key)", "_BaseVersion.__hash__ = hash(self._key)", f"{M}._BaseVersion.__hash__ is not the key's hash", "", loc=h.loc() if h else "")
    for cls, keyfn in (("Version", "_cmpkey"), ("LegacyVersion", "_legacy_cmpkey")):
        ci = prog.klass(f"{M}.{cls}")
        ctx.check("R1", "_BaseVersion" in ci.bases and not (set(OPS) & set(ci.methods)), f"{cls} inherits the comparisons from _BaseVersion", f"{M}.{cls} overrides a comparison", f"{sorted(set(OPS) & set(ci.methods))}", loc=ci.module.relpath)
        init = ci.methods.get("__init__")
        ctx.require(init is not None, f"{cls}.__init__ vanished")
        sets = [s for s in walk_no_nested(init.node) if isinstance(s, ast.Assign) and unparse(s.targets[0]) == "self._key"]
        ok = len(sets) == 1 and isinstance(sets[0].value, ast.Call) and unparse(sets[0].value.func) == keyfn
        ctx.check("R1", ok, f"{cls}.__init__ sets self._key = {keyfn}(...)", f"{M}.{cls}.__init__ does not set the comparison key from {keyfn}", "", loc=init.loc())

    # ---------------------------------------------------------------- R2
    lk = prog.function(f"{M}._legacy_cmpkey")
    ctx.visit(lk.fq)
    rv = _single_return(lk)
    first = rv.elts[0] if isinstance(rv, ast.Tuple) and rv.elts else None
    first = shapes.resolve_alias(lk, first) if first is not None else None
    val = None
    if isinstance(first, ast.UnaryOp) and isinstance(first.op, ast.USub) and isinstance(first.operand, ast.Constant):
        val = -first.operand.value
    elif isinstance(first, ast.Constant):
        val = first.value
    if not decided.get("_legacy_cmpkey"):
        ctx.check("R2", val == -1, "_legacy_cmpkey returns (-1, parts): legacy sorts below every PEP 440 version", f"{M}._legacy_cmpkey: legacy epoch is not the constant -1",
                  f"first element {unparse(first) if first is not None else None}", loc=lk.loc())
        ctx.check("R2", isinstance(rv, ast.Tuple) and len(rv.elts) == 2 and unparse(rv.elts[1]) == "tuple(parts)", "_legacy_cmpkey: second element is the tuple of parts", f"{M}._legacy_cmpkey: key shape changed", "", loc=lk.loc())
    vinit = prog.klass(f"{M}.Version").methods["__init__"]
    ctx.visit(vinit.fq)
    ep = [_deref(vinit, kw.value) for c in ast.walk(vinit.node) if isinstance(c, ast.Call) and unparse(c.func) == "_Version" for kw in c.keywords if kw.arg == "epoch"]
    ok = len(ep) == 1 and isinstance(ep[0], ast.IfExp) and unparse(shapes.inline(vinit, ep[0].body, prog)).startswith("int(") and unparse(shapes.inline(vinit, ep[0].body, prog)).endswith(".group('epoch'))") \
        and isinstance(ep[0].orelse, ast.Constant) and ep[0].orelse.value == 0
    ctx.check("R2", ok, "Version epoch = int(match.group('epoch')) or 0", f"{M}.Version: epoch derivation changed", unparse(ep[0]) if ep else "", loc=vinit.loc())
    vp = prog.const(M, "VERSION_PATTERN")
    ctx.check("R2", "(?P<epoch>[0-9]+)!" in vp, "VERSION_PATTERN: epoch group is [0-9]+ (non-negative)", f"{M}.VERSION_PATTERN: epoch group changed", "", loc=f"src/bumpver/{M}.py")

    # ---------------------------------------------------------------- R3
    table = {"InfinityType": {"__lt__": False, "__le__": False, "__gt__": True, "__ge__": True},
             "NegativeInfinityType": {"__lt__": True, "__le__": True, "__gt__": False, "__ge__": False}}
    k = 0
    for cls, meths in table.items():
        ci = prog.klass(f"{M}.{cls}")
        for name, want in meths.items():
            fn = ci.methods.get(name)
            ctx.require(fn is not None, f"{cls}.{name} vanished")
            v = _single_return(fn)
            k += 1
            ctx.check("R3", isinstance(v, ast.Constant) and v.value is want, f"{cls}.{name} returns {want}", f"{M}.{cls}.{name} returns the wrong constant", unparse(v) if v is not None else "", loc=fn.loc())
        eq = ci.methods.get("__eq__")
        v = _single_return(eq) if eq else None
        k += 1
        ctx.check("R3", v is not None and unparse(v) == f"isinstance({eq.params[1]}, self.__class__)", f"{cls}.__eq__: equal only to its own kind", f"{M}.{cls}.__eq__ changed", unparse(v) if v is not None else "", loc=eq.loc() if eq else "")
    ctx.floor("R3", "sentinel comparison methods", k, 10)
    for nm, cls in (("Infinity", "InfinityType"), ("NegativeInfinity", "NegativeInfinityType")):
        node = prog.const_node(M, nm)
        ctx.check("R3", unparse(node) == f"{cls}()", f"{nm} = {cls}()", f"{M}.{nm} is not an instance of {cls}", unparse(node), loc=f"src/bumpver/{M}.py")

    # ---------------------------------------------------------------- R4
    ck = prog.function(f"{M}._cmpkey")
    ctx.visit(ck.fq)
    cfg = cfgs.get(ck.fq)
    from sa.pathcond import assign_facts, ifexp_atoms
    if not decided.get("_cmpkey"):
        need = ["pre is None", "post is None", "dev is None", "local is None"]
        pc = PathCond(cfg, extra_atoms=list(dict.fromkeys(need + ifexp_atoms(ck.node))))
        PRE, POST, DEV, LOC = (BF.var(a) for a in need)
        assigns: T.Dict[T.Tuple[str, str], BF] = {}
        for tgt, val, cond, _st in assign_facts(cfg, pc, ("_pre", "_post", "_dev", "_local")):
            key = (tgt, unparse(val) if not isinstance(val, ast.Call) else "<computed>")
            assigns[key] = assigns.get(key, BF.false()) | cond
        spec = {
            ("_pre", "NegativeInfinity"): PRE & POST & ~DEV,
            ("_pre", "Infinity"): PRE & ~(PRE & POST & ~DEV),
            ("_pre", "pre"): ~PRE,
            ("_post", "NegativeInfinity"): POST,
            ("_post", "post"): ~POST,
            ("_dev", "Infinity"): DEV,
            ("_dev", "dev"): ~DEV,
            ("_local", "NegativeInfinity"): LOC,
            ("_local", "<computed>"): ~LOC,
        }
        ctx.floor("R4", "sentinel assignments in _cmpkey", len(assigns), 6)
        for key, want in spec.items():
            got = assigns.get(key)
            ok = got is not None and got.project(need).equiv(want)
            if got is None:
                got = BF.false()
            ctx.check("R4", ok, f"_cmpkey: {key[0]} := {key[1]} iff {want.to_dnf()}", f"{M}._cmpkey: segment rule for {key[0]} := {key[1]} changed",
                      f"assigned when {got.project(need).to_dnf()}; PEP 440 rule: {want.to_dnf()}", loc=ck.loc(),
                      witness=got.project(need).diff_witness(want))
        for key in assigns:
            if key not in spec:
                ctx.bad("R4", f"{M}._cmpkey: unexpected assignment {key[0]} := {key[1]}", "", loc=ck.loc())
        rv = _single_return(ck)
        ctx.check("R4", rv is not None and unparse(rv) == "(epoch, _release, _pre, _post, _dev, _local)", "_cmpkey returns (epoch, _release, _pre, _post, _dev, _local)",
                  f"{M}._cmpkey: key tuple order changed", unparse(rv) if rv is not None else "", loc=ck.loc())
        rel = shapes.single_def(ck, "_release")
        ok = rel is not None and "itertools.dropwhile(lambda x: x == 0, reversed(release))" in unparse(rel) and unparse(rel).startswith("tuple(reversed(")
        ctx.check("R4", ok, "_cmpkey: trailing zeros of the release are dropped", f"{M}._cmpkey: release normalisation changed", unparse(rel) if rel is not None else "", loc=ck.loc())
    call = [c for c in ast.walk(vinit.node) if isinstance(c, ast.Call) and unparse(c.func) == "_cmpkey"]
    # each positional argument of _cmpkey is the segment its parameter names: self._version.<segment>, or the local that the
    # _Version constructor receives for <segment>
    seg_of = {kw_.value.id: kw_.arg for c_ in ast.walk(vinit.node) if isinstance(c_, ast.Call) and unparse(c_.func) == "_Version" for kw_ in c_.keywords if isinstance(kw_.value, ast.Name) and kw_.arg}
    ckf = prog.function(f"{M}._cmpkey")

    def seg_name(a: ast.AST) -> T.Optional[str]:
        if isinstance(a, ast.Attribute) and unparse(a.value) == "self._version":
            return a.attr
        if isinstance(a, ast.Name):
            return seg_of.get(a.id)
        return None
    ctx.check("R4", len(call) == 1 and not call[0].keywords and [seg_name(a) for a in call[0].args] == ckf.params[:6], "Version.__init__ passes (epoch, release, pre, post, dev, local) to _cmpkey",
              f"{M}.Version.__init__: _cmpkey arguments out of order", unparse(call[0]) if call else "", loc=vinit.loc())

    # ---------------------------------------------------------------- R5
    pf = prog.function(f"{M}.parse")
    ctx.visit(pf.fq)
    tr = [t for t in walk_no_nested(pf.node) if isinstance(t, ast.Try)]
    ok = len(tr) == 1 and len(tr[0].handlers) == 1 and unparse(tr[0].handlers[0].type) == "InvalidVersion" \
        and unparse(tr[0].body[0]) == f"return Version({pf.params[0]})" and unparse(tr[0].handlers[0].body[0]) == f"return LegacyVersion({pf.params[0]})"
    ev = parse_fallback_eval(ctx)
    if ev is not None:
        ok = not ev
    ctx.check("R5", ok, "parse: Version(v), falling back to LegacyVersion(v) only on InvalidVersion", f"{M}.parse: fallback rule changed", "", loc=pf.loc())
    pcfg5 = cfgs.get(pf.fq)
    hbody5 = {nid for h_ in shapes.handlers_catching(pcfg5, ["InvalidVersion"]) for st_ in ast.walk(pcfg5.nodes[h_].ast) for nid in pcfg5.stmt_nodes.get(id(st_), [])}
    stray = [n for n in pcfg5.nodes if n.kind == "stmt" and isinstance(n.ast, ast.Return) and n.ast.value is not None and "LegacyVersion" in unparse(n.ast.value)
             and n.id in pcfg5.reachable() and n.id not in hbody5]
    ctx.check("R5", not stray, "parse: a LegacyVersion is returned only from the InvalidVersion handler (Version's own regex decides what is PEP 440)",
              f"{M}.parse: a string can be sent to the legacy ordering without asking Version",
              f"`{unparse(stray[0].ast) if stray else ''}` outside the handler: a pre-test that is narrower than VERSION_PATTERN (case, leading blanks) makes PEP 440 spellings such as `V1.2.3` "
              "sort below every PEP 440 version", loc=pf.loc(stray[0].ast) if stray else pf.loc(), witness=["V1.2.3", " 1.2.3"])
    # generators must not sit behind a cache: the second caller gets the exhausted generator of the first
    for f_ in prog.module(M).functions.values():
        if f_.is_generator:
            cached = [unparse(d_) for d_ in getattr(f_.node, "decorator_list", []) if any(w_ in unparse(d_) for w_ in ("lru_cache", "functools.cache", "memo"))]
            ctx.check("R9", not cached, f"{f_.fq}: a generator function, not cached", f"{f_.fq}: a generator function is cached",
                      f"decorators {cached}: the cached object is the generator of the first call; every later parse of the same string sees it exhausted and gets the key (-1, ())",
                      loc=f_.loc(), witness=["v2017q1.54321", "v2017q1.54321"])
    rx = prog.klass(f"{M}.Version").class_consts.get("_regex")
    ctx.require(rx is not None, "Version._regex vanished")
    txt = unparse(rx)
    ok = txt.startswith("re.compile('^\\\\s*' + VERSION_PATTERN + '\\\\s*$'") and "re.VERBOSE" in txt and "re.IGNORECASE" in txt
    ctx.check("R5", ok, "Version._regex = ^\\s* VERSION_PATTERN \\s*$ with VERBOSE|IGNORECASE", f"{M}.Version._regex is not anchored / case-insensitive", txt, loc=f"src/bumpver/{M}.py")
    # the recognised language is PEP 440's (appendix B), whatever the spelling of the regex: DFA equality with the reference
    import re as _re5
    from sa import relang as _rl5
    try:
        lang_now = _rl5.from_regex(prog.const(M, "VERSION_PATTERN"), _re5.VERBOSE | _re5.IGNORECASE)
        lang_ref = _rl5.from_regex(PEP440_REFERENCE, _re5.IGNORECASE)
        w1, w2 = _rl5.included(lang_now, lang_ref), _rl5.included(lang_ref, lang_now)
        ctx.check("R5", w1 is None and w2 is None, "L(VERSION_PATTERN) == L(PEP 440 appendix B regex)  (DFA equality, case-insensitive)",
                  f"{M}.VERSION_PATTERN: the set of strings read as PEP 440 versions changed",
                  (f"{w1!r} is now read as a PEP 440 version" if w1 is not None else f"{w2!r} is a PEP 440 version but falls back to the legacy ordering (below every PEP 440 version)"),
                  loc=f"src/bumpver/{M}.py", witness=w1 if w1 is not None else w2)
    except _rl5.UnsupportedRegex as ex:
        ctx.observe(f"VERSION_PATTERN not converted to an automaton ({ex}); its language is not compared with the reference")
    ok = any(isinstance(s, ast.Raise) and "InvalidVersion" in unparse(s) for s in ast.walk(vinit.node))
    ctx.check("R5", ok, "Version.__init__ raises InvalidVersion when the regex does not match", f"{M}.Version.__init__: invalid strings are not rejected with InvalidVersion", "", loc=vinit.loc())
    pv = prog.function("version.parse_version")
    ctx.check("R5", unparse(shapes.inline(pv, _single_return(pv), prog)) == f"setuptools_v65_version.parse({pv.params[0]})", "version.parse_version = setuptools_v65_version.parse", "version.parse_version does not use the vendored parser", "", loc=pv.loc())

    # ---------------------------------------------------------------- R6
    cli = prog.module("cli")
    n_cmp = n_sort = 0
    version_names = {"new_version", "old_version", "latest_version_tag", "version_tags", "tag", "current_version"}
    for fn in cli.functions.values():
        types = prog.local_types(fn)
        for nd in walk_no_nested(fn.node):
            if isinstance(nd, ast.Compare) and any(isinstance(o, (ast.Lt, ast.LtE, ast.Gt, ast.GtE)) for o in nd.ops):
                operands = [shapes.inline(fn, o, prog) for o in [nd.left] + list(nd.comparators)]
                names = {x.id for o in operands for x in ast.walk(o) if isinstance(x, ast.Name)} | {x.attr for o in operands for x in ast.walk(o) if isinstance(x, ast.Attribute)}
                if not (names & version_names) and not any("version" in nm.lower() for nm in names):
                    continue
                n_cmp += 1
                ok = all(isinstance(o, ast.Call) and prog.resolve_call(fn, o, types, count=False).name == "version.parse_version" for o in operands)
                ctx.check("R6", ok, f"{fn.fq} L{nd.lineno}: version ordering through version.parse_version", f"{fn.fq}: versions are ordered without version.parse_version",
                          f"`{unparse(nd)}`", loc=fn.loc(nd))
            if isinstance(nd, ast.Call) and ((isinstance(nd.func, ast.Attribute) and nd.func.attr == "sort") or unparse(nd.func) in ("sorted", "max", "min")):
                txt = unparse(nd)
                if not any(v in txt for v in ("version_tags", "tags")):
                    continue
                n_sort += 1
                key = [kw.value for kw in nd.keywords if kw.arg == "key"]
                ok = len(key) == 1 and prog.resolve_name(fn.module, key[0], fn, types).name == "version.parse_version"
                ctx.check("R6", ok, f"{fn.fq} L{nd.lineno}: tags sorted with key=version.parse_version", f"{fn.fq}: tags are sorted without version.parse_version", f"`{txt[:70]}`", loc=fn.loc(nd))
    ctx.floor("R6", "version ordering comparisons in cli", n_cmp, 2)
    ctx.floor("R6", "tag sort sites in cli", n_sort, 1)

    # ---------------------------------------------------------------- R7
    vs = prog.klass(f"{M}.Version").methods.get("__str__")
    ctx.require(vs is not None, "Version.__str__ vanished")
    ctx.visit(vs.fq)
    if not decided.get("__str__"):
        n_seg = 0
        for st in walk_no_nested(vs.node):
            if not isinstance(st, ast.If):
                continue
            segs = [x for x in ast.walk(st.test) if isinstance(x, ast.Attribute) and x.attr in ("pre", "post", "dev", "local", "epoch") and unparse(x.value) == "self"]
            if not segs:
                continue
            n_seg += 1
            seg = segs[0].attr
            t = st.test
            if seg == "epoch":
                continue
            good = isinstance(t, ast.Compare) and isinstance(t.ops[0], ast.IsNot) and isinstance(t.comparators[0], ast.Constant) and t.comparators[0].value is None
            ctx.check("R7", good, f"Version.__str__: segment '{seg}' printed when it `is not None`", f"{M}.Version.__str__: segment '{seg}' is tested by truthiness (a number of 0 is dropped)",
                      f"`if {unparse(t)}`: 1.0.{seg}0 would print without its {seg} segment", loc=vs.loc(st), witness=f"1.0.{seg}0")
        ctx.floor("R7", "optional segments in Version.__str__", n_seg, 5)
    from checks.c15 import to_pep440_rule, letter_normalisation
    to_pep440_rule(ctx, "R7")
    # PEP 440 "alternate spellings": exactly these are normalised, each to its short form
    norm = letter_normalisation(ctx)
    want_norm = {"alpha": "a", "beta": "b", "c": "rc", "pre": "rc", "preview": "rc", "rev": "post", "r": "post"}
    ctx.check("R7", norm == want_norm, "_parse_letter_version normalises alpha/beta/c/pre/preview/rev/r as PEP 440 prescribes",
              f"{M}._parse_letter_version: alternate pre/post-release spellings are not normalised as PEP 440 prescribes",
              f"missing {sorted(set(want_norm) - set(norm))}, extra {sorted(set(norm) - set(want_norm))}, different {sorted(k for k in norm if k in want_norm and norm[k] != want_norm[k])}: "
              f"e.g. 1.0preview2 must equal 1.0rc2; unnormalised it sorts by its raw letters", loc=f"src/bumpver/{M}.py", witness=["1.0.0-preview2", "1.0.0-rc1"])
    plv = prog.function(f"{M}._parse_letter_version")
    g = cfgs.get(plv.fq)
    # the lower-cased spelling is stored back into the parameter or into a local; every spelling test reads that variable
    # after the assignment
    lowers = [n for n in g.nodes if n.kind == "stmt" and isinstance(n.ast, (ast.Assign, ast.AnnAssign)) and n.ast.value is not None
              and unparse(n.ast.value) in (f"{plv.params[0]}.lower()", f"{plv.params[0]}.casefold()")]
    low_var = unparse(lowers[0].ast.targets[0] if isinstance(lowers[0].ast, ast.Assign) else lowers[0].ast.target) if len(lowers) == 1 else None
    tests = [n for n in g.nodes if n.kind == "test" and isinstance(n.ast, ast.Compare) and unparse(n.ast.left) in (plv.params[0], low_var) and isinstance(n.ast.ops[0], (ast.Eq, ast.In))
             and isinstance(n.ast.comparators[0], (ast.Constant, ast.List, ast.Tuple, ast.Set))]
    ok = len(lowers) == 1 and bool(tests) and all(unparse(t.ast.left) == low_var and t.id not in g.reachable(blocked_nodes=[lowers[0].id]) for t in tests)
    if len(lowers) == 1 and not tests:
        # table form: the lookup `TABLE.get(x, x)` reads the lower-cased variable after the assignment
        gets = [n for n in g.nodes if n.kind == "stmt" and n.ast is not None and any(isinstance(c_, ast.Call) and isinstance(c_.func, ast.Attribute) and c_.func.attr == "get"
                                                                                 and len(c_.args) == 2 and unparse(c_.args[0]) == low_var for c_ in ast.walk(n.ast)) and n.id != lowers[0].id]
        ok = bool(gets) and all(n.id not in g.reachable(blocked_nodes=[lowers[0].id]) for n in gets)
    ctx.check("R7", ok, "_parse_letter_version lower-cases the letter before comparing spellings (the regex is case-insensitive)",
              f"{M}._parse_letter_version: alternate spellings are compared before lower-casing", "e.g. 1.0ALPHA1 is not normalised to 1.0a1", loc=plv.loc(), witness="1.0ALPHA1")

    # ---------------------------------------------------------------- R8
    # (a) local version segments: PEP 440 compares them case-insensitively; digits numerically
    if not decided.get("_parse_local_version"):
        plo = prog.function(f"{M}._parse_local_version")
        ctx.visit(plo.fq)
        comps = [n for n in ast.walk(plo.node) if isinstance(n, (ast.GeneratorExp, ast.ListComp)) and len(n.generators) == 1 and isinstance(n.generators[0].target, ast.Name)]
        ctx.require(len(comps) == 1, "_parse_local_version: segment comprehension not found")
        seg = comps[0].generators[0].target.id
        alts: T.List[T.Tuple[bool, ast.AST]] = []      # (segment is all digits, value)

        def split_local(e: ast.AST, digit: T.Optional[bool]) -> None:
            if isinstance(e, ast.IfExp):
                t, neg = e.test, False
                while isinstance(t, ast.UnaryOp) and isinstance(t.op, ast.Not):
                    t, neg = t.operand, not neg
                ctx.require(unparse(t) in (f"{seg}.isdigit()", f"{seg}.isdecimal()", f"{seg}.isnumeric()") and digit is None,
                            f"_parse_local_version: segment test not enumerated: `{unparse(e.test)}`")
                split_local(e.body, not neg)
                split_local(e.orelse, neg)
            else:
                ctx.require(digit is not None, f"_parse_local_version: segments are not classified by isdigit(): `{unparse(e)}`")
                alts.append((digit, e))
        split_local(comps[0].elt, None)
        for digit, e in alts:
            if digit:
                ctx.check("R8", unparse(e) == f"int({seg})", "local version: a digit segment becomes int (numeric comparison)",
                          f"{M}._parse_local_version: digit segments are not compared numerically", f"`{unparse(e)}`: 1.0+9 would sort after 1.0+10", loc=plo.loc(e), witness=["1.0+9", "1.0+10"])
            else:
                ctx.check("R8", unparse(e) in (f"{seg}.lower()", f"{seg}.casefold()"), "local version: an alphanumeric segment is lower-cased (PEP 440: case-insensitive)",
                          f"{M}._parse_local_version: alphanumeric local segments keep their case",
                          f"`{unparse(e)}`: 1.0+ABC and 1.0+abc compare unequal and print differently, although PEP 440 treats them as the same version", loc=plo.loc(e),
                          witness=["1.0+ABC", "1.0+abc"])
        ctx.floor("R8", "alternatives of a local segment", len(alts), 2)
    # (b') legacy keys are case-normalised: the tokenizer receives the lower-cased string
    lck = prog.function(f"{M}._legacy_cmpkey")
    ctx.visit(lck.fq)
    tok_calls = shapes.find_calls(prog, lck, f"{M}._parse_version_parts")
    ctx.floor("R8", "_parse_version_parts calls in _legacy_cmpkey", len(tok_calls), 1)
    for c in tok_calls:
        arg = shapes.inline(lck, c.args[0], prog) if c.args else None
        lowered = arg is not None and isinstance(arg, ast.Call) and isinstance(arg.func, ast.Attribute) and arg.func.attr in ("lower", "casefold") \
            and any(isinstance(x, ast.Name) and x.id == lck.params[0] for x in ast.walk(arg.func.value))
        inside = any(isinstance(x, ast.Call) and isinstance(x.func, ast.Attribute) and x.func.attr in ("lower", "casefold")
                     for x in ast.walk(prog.function(f"{M}._parse_version_parts").node))
        ctx.check("R8", lowered or inside, "legacy key: the version string is lower-cased before it is split into parts",
                  f"{M}._legacy_cmpkey: legacy versions are compared case-sensitively",
                  f"`{unparse(c)}`: 'v2017Q1' and 'v2017q1' get different keys, upper-case words sort before lower-case ones, and RC/Pre/Preview are no longer mapped to 'c'",
                  loc=lck.loc(c), witness=["v2017Q1.54321", "v2017q1.54321"])
    # (b) legacy keys: a tuple of strings; numbers padded so that string order is numeric order
    pvp = prog.function(f"{M}._parse_version_parts")
    ctx.visit(pvp.fq)
    if not decided.get("_parse_version_parts"):
        yields = [n for n in walk_no_nested(pvp.node) if isinstance(n, ast.Yield) and n.value is not None]
        ctx.floor("R8", "yield sites in _parse_version_parts", len(yields), 2)
        STR_METHODS = {"zfill", "lower", "upper", "strip", "rjust", "ljust", "format", "join", "replace", "casefold"}
        n_pad = 0
        for y in yields:
            v = y.value
            is_str = (isinstance(v, ast.Constant) and isinstance(v.value, str)) or \
                     (isinstance(v, ast.BinOp) and isinstance(v.op, ast.Add) and any(isinstance(x, ast.Constant) and isinstance(x.value, str) for x in (v.left, v.right))) or \
                     (isinstance(v, ast.Call) and isinstance(v.func, ast.Attribute) and v.func.attr in STR_METHODS) or isinstance(v, ast.JoinedStr)
            ctx.check("R8", is_str, f"_parse_version_parts yields a string (`{unparse(v)}`)", f"{M}._parse_version_parts: a legacy key component is not a string",
                      f"`yield {unparse(v)}`: legacy keys then mix types, and comparing two legacy versions where a number meets a word raises TypeError "
                      f"(no total order)", loc=pvp.loc(y), witness=["1.0.dev-rc", "1.0.1-rc"])
            if isinstance(v, ast.Call) and isinstance(v.func, ast.Attribute) and v.func.attr in ("zfill", "rjust"):
                n_pad += 1
                w = v.args[0].value if v.args and isinstance(v.args[0], ast.Constant) else None
                ctx.check("R8", isinstance(w, int) and w >= 8, f"numeric legacy parts are zero-padded to {w} digits", f"{M}._parse_version_parts: numeric parts are padded to fewer than 8 digits",
                          f"`{unparse(v)}`", loc=pvp.loc(y))
        # the digit branch must be one of the padded yields
        dig = [n for n in walk_no_nested(pvp.node) if isinstance(n, ast.If) and "0123456789" in unparse(n.test)]
        ctx.require(len(dig) == 1, "_parse_version_parts: digit test not found")
        dy = [n for st in dig[0].body for n in ast.walk(st) if isinstance(n, ast.Yield)]
        ok_pad = len(dy) == 1 and isinstance(dy[0].value, ast.Call) and isinstance(dy[0].value.func, ast.Attribute) and dy[0].value.func.attr in ("zfill", "rjust")
        ctx.check("R8", ok_pad,
                  "numeric legacy parts are yielded zero-padded (string order == numeric order)", f"{M}._parse_version_parts: numeric parts are not zero-padded strings",
                  f"`{unparse(dy[0].value) if dy else None}`: '10' would sort before '9'", loc=pvp.loc(dig[0]))
    if not decided.get("__str__"):
        # ---------------------------------------------------------------- R7 (continued): segment order of the canonical form
        order = []
        for st in vs.node.body:
            for x in ast.walk(st):
                if isinstance(x, ast.Attribute) and unparse(x.value) == "self" and x.attr in ("epoch", "release", "pre", "post", "dev", "local") and x.attr not in order:
                    order.append(x.attr)
        ctx.check("R7", order == ["epoch", "release", "pre", "post", "dev", "local"], "Version.__str__ prints epoch, release, pre, post, dev, local in this order",
                  f"{M}.Version.__str__: segments are printed in a non-canonical order", f"order {order}: e.g. 1.0a1.dev2 would print as 1.0.dev2a1, which is not PEP 440 and does not parse back",
                  loc=vs.loc(), witness="1.0a1.dev2")
    # ---------------------------------------------------------------- R8 (continued): the implicit post release `1.0-0`
    # `if not letter and number:` relies on `number` being the captured text ("0" is truthy); an int 0 would drop the segment
    truthy_number = [n for n in ast.walk(plv.node) if isinstance(n, (ast.If, ast.IfExp, ast.BoolOp))
                     for _c, leaf in shapes.bool_contexts(n.test if not isinstance(n, ast.BoolOp) else n) if isinstance(leaf, ast.Name) and leaf.id == plv.params[1]]
    if truthy_number:
        conv = []
        for fq_, calls_ in ctx.effects.calls.items():
            for node_, callee_ in calls_:
                if callee_.fq == plv.fq and isinstance(node_, ast.Call) and len(node_.args) >= 2:
                    a_ = node_.args[1]
                    caller_ = prog.function(fq_)
                    for c_ in ast.walk(a_):
                        if isinstance(c_, ast.Call):
                            nm_ = unparse(c_.func)
                            t_ = prog.resolve_call(caller_, c_, count=False)
                            returns_int = t_.fn is not None and t_.fn.returns is not None and "int" in unparse(t_.fn.returns)
                            if nm_ == "int" or returns_int:
                                conv.append((caller_, node_))
        ctx.check("R8", not conv, "_parse_letter_version: the number tested for presence is the captured text (\"0\" counts as present)",
                  f"{M}._parse_letter_version: the number is converted to int before its presence is tested by truthiness",
                  f"`{unparse(conv[0][1])[:90]}`: `if not letter and number` is false for the int 0, so the implicit post release `1.0-0` loses its post segment (1.0-0 == 1.0)" if conv else "",
                  loc=conv[0][0].loc(conv[0][1]) if conv else plv.loc(), witness=["1.0-0", "1.0"])


def canonical_str_rule(ctx, rule: str) -> T.Dict[str, bool]:
    """Version.__str__ evaluated for every combination of epoch {0, 1}, pre {None, a0, rc1}, post/dev {None, 0, n},
    local {None, label}: the PEP 440 canonical form `[N!]N(.N)*[{a|b|rc}N][.postN][.devN][+local]`; the post / dev
    properties hand on the number, not the letter."""
    import itertools
    import types
    from sa.model import Abstract, CannotFold, EvalError
    prog = ctx.prog
    vs = prog.klass(f"{M}.Version").methods.get("__str__")
    wrong: T.List[str] = []
    n = 0
    try:
        klass = prog.klass(f"{M}.Version")

        class Me(Abstract):
            """A Version whose accessors are the class's own property functions, evaluated on demand over an abstract _version."""
            def __init__(self, raw: T.Any):
                self._version = raw

            def __getattr__(self, attr: str) -> T.Any:
                fn_ = klass.methods.get(attr)
                if attr.startswith("__") or fn_ is None or not any(unparse(d_) == "property" for d_ in getattr(fn_.node, "decorator_list", [])):
                    raise AttributeError(attr)
                val, _y = prog.run_body(fn_, {fn_.params[0]: self, "__strict__": True})
                return val
        for epoch, pre, post, dev, local in itertools.product((0, 1), (None, ("a", 0), ("rc", 1)), (None, 0, 2), (None, 0, 3), (None, "ubuntu.1")):
            raw = types.SimpleNamespace(epoch=epoch, release=(1, 20, 0), pre=pre, post=None if post is None else ("post", post), dev=None if dev is None else ("dev", dev),
                                        local=None if local is None else ("ubuntu", 1))
            try:
                got, _ys = prog.run_body(vs, {vs.params[0]: Me(raw), "__strict__": True})
            except EvalError as ex:
                got = f"raises: {ex}"
            want = (f"{epoch}!" if epoch else "") + "1.20.0" + (f"{pre[0]}{pre[1]}" if pre is not None else "") + (f".post{post}" if post is not None else "") \
                + (f".dev{dev}" if dev is not None else "") + (f"+{local}" if local is not None else "")
            n += 1
            if got != want:
                wrong.append(f"{want!r} is printed as {got!r}")
    except (CannotFold, TypeError, AttributeError, KeyError, ValueError, IndexError) as ex:
        ctx.observe(f"Version.__str__ not evaluated ({type(ex).__name__}: {str(ex)[:80]}); the structural printing rules decide alone")
        return {"__str__": False}
    ctx.check(rule, not wrong, f"Version.__str__ prints the PEP 440 canonical form ({n} segment combinations evaluated)",
              f"{M}.Version.__str__: a PEP 440 version is not printed in canonical form", "; ".join(wrong[:3]), loc=vs.loc(), witness={"cases": wrong[:4]})
    props = {f.name: f for f in prog.klass(f"{M}.Version").methods.values()}
    for seg in ("post", "dev"):
        pf = props.get(seg)
        if pf is None:
            continue
        bad: T.List[str] = []
        try:
            for raw, want in ((None, None), ((seg, 0), 0), ((seg, 7), 7)):
                me = types.SimpleNamespace(_version=types.SimpleNamespace(**{seg: raw}))
                got, _ys = prog.run_body(pf, {pf.params[0]: me})
                if got != want or type(got) is not type(want):
                    bad.append(f"_version.{seg} = {raw!r} -> {got!r}, expected {want!r}")
        except (CannotFold, TypeError, AttributeError, KeyError, ValueError, IndexError):
            continue
        ctx.check(rule, not bad, f"Version.{seg} is the number of the {seg} segment (None when absent; 0 is a number)", f"{M}.Version.{seg}: not the number of the {seg} segment",
                  "; ".join(bad[:2]), loc=pf.loc(), witness=f"1.0.{seg}0")
    return {"__str__": True}


LEGACY_MAP = {"pre": "c", "preview": "c", "-": "final-", "rc": "c", "dev": "@"}          # pkg_resources' replacement table


def _ref_parts(tokens: T.List[str]) -> T.List[str]:
    out = []
    for part in tokens:
        part = LEGACY_MAP.get(part, part)
        if not part or part == ".":
            continue
        out.append(part.zfill(8) if part[:1] in "0123456789" else "*" + part)
    out.append("*final")
    return out


def _ref_key(parts: T.List[str]) -> T.Tuple[int, T.Tuple[str, ...]]:
    out: T.List[str] = []
    for part in parts:
        if part.startswith("*"):
            if part < "*final":
                while out and out[-1] == "*final-":
                    out.pop()
            while out and out[-1] == "00000000":
                out.pop()
        out.append(part)
    return -1, tuple(out)


def legacy_key_rule(ctx, rule: str) -> T.Dict[str, bool]:
    """The two functions that build the key of a non-PEP 440 version are evaluated on bounded inputs and compared with
    the pkg_resources algorithm they are vendored from: _parse_version_parts on every sequence of up to 3 tokens of a
    13-token alphabet (the regex split is abstracted), _legacy_cmpkey on every sequence of up to 4 parts of a 7-part
    alphabet.  A raise or a loop that does not end is a finding (the comparison is not total)."""
    import itertools
    from sa.model import Abstract, CannotFold, EvalError
    prog = ctx.prog
    pvp = prog.function(f"{M}._parse_version_parts")
    lck = prog.function(f"{M}._legacy_cmpkey")
    ctx.visit(pvp.fq, lck.fq)
    try:
        tab = prog.const(M, "_legacy_version_replacement_map")
    except AnalysisError:
        tab = LEGACY_MAP          # renamed and edited: the evaluation below reads it through the function
    ctx.check(rule, tab == LEGACY_MAP, "_legacy_version_replacement_map is pkg_resources' table", f"{M}._legacy_version_replacement_map differs from pkg_resources' table",
              f"{tab}", loc=f"src/bumpver/{M}.py")

    class Splitter(Abstract):
        def __init__(self, tokens: T.List[str]):
            self.tokens = tokens

        def split(self, text: T.Any) -> T.List[str]:
            return list(self.tokens)
    split_calls = [c.func.value.id for c in ast.walk(pvp.node) if isinstance(c, ast.Call) and isinstance(c.func, ast.Attribute) and c.func.attr == "split" and isinstance(c.func.value, ast.Name)]
    splitter_name = split_calls[0] if len(split_calls) == 1 else "_legacy_version_component_re"
    alphabet = ["", ".", "-", "0", "1", "10", "007", "a", "rc", "pre", "dev", "final", "x"]
    wrong: T.List[str] = []
    n = 0
    try:
        for k in range(0, 4):
            for toks in itertools.product(alphabet, repeat=k):
                if k == 3 and toks[1] not in ("", ".", "-", "0", "10", "rc"):
                    continue          # the middle of a triple: separators, numbers and one word
                env = {pvp.params[0]: "VERSION", splitter_name: Splitter(list(toks)), "__strict__": True}
                try:
                    ret, ys = prog.run_body(pvp, env)
                    got = list(ys) if ys or ret is None else list(ret)
                except EvalError as ex:
                    got = f"raises: {ex}"
                n += 1
                if got != _ref_parts(list(toks)) and len(wrong) < 6:
                    wrong.append(f"tokens {list(toks)} -> {got}, pkg_resources gives {_ref_parts(list(toks))}")
    except (CannotFold, TypeError, AttributeError, KeyError, ValueError, IndexError) as ex:
        ctx.observe(f"_parse_version_parts not evaluated ({type(ex).__name__}: {str(ex)[:80]})")
        wrong, n = [], 0
    if n:
        ctx.check(rule, not wrong, f"_parse_version_parts == pkg_resources' part scheme on {n} token sequences (numbers zero-padded to 8, words starred, '.', '' dropped, '*final' appended)",
                  f"{M}._parse_version_parts: the parts of a legacy version are not pkg_resources' scheme", "; ".join(wrong[:2]), loc=pvp.loc(), witness={"cases": wrong[:4]})
    parts_alpha = ["00000000", "00000001", "*a", "*c", "*final-", "*final", "*z"]
    wrong2: T.List[str] = []
    n2 = 0
    try:
        for k in range(0, 4):
            for seq in itertools.product(parts_alpha, repeat=k):
                parts = list(seq) + ["*final"]
                env = {lck.params[0]: "VERSION", "__strict__": True, "__stubs__": {"_parse_version_parts": lambda f, node, parts=parts: list(parts)}}
                try:
                    got2, _ys = prog.run_body(lck, env)
                except EvalError as ex:
                    got2 = f"raises: {ex}"
                n2 += 1
                want2 = _ref_key(parts)
                if got2 != want2 and len(wrong2) < 6:
                    wrong2.append(f"parts {parts} -> {got2}, pkg_resources gives {want2}")
    except (CannotFold, TypeError, AttributeError, KeyError, ValueError, IndexError) as ex:
        ctx.observe(f"_legacy_cmpkey not evaluated ({type(ex).__name__}: {str(ex)[:80]})")
        wrong2, n2 = [], 0
    if n2:
        ctx.check(rule, not wrong2, f"_legacy_cmpkey == pkg_resources' key on {n2} part sequences (epoch -1; trailing zero groups and '-' before a pre-release word removed; terminates)",
                  f"{M}._legacy_cmpkey: the key of a legacy version is not pkg_resources' key (or is not computed at all)", "; ".join(wrong2[:2]), loc=lck.loc(), witness={"cases": wrong2[:4]})
    ctx.floor(rule, "legacy key functions evaluated", int(bool(n)) + int(bool(n2)), 0)
    return {"_parse_version_parts": bool(n), "_legacy_cmpkey": bool(n2)}


def pep440_key_rule(ctx, rule: str) -> T.Dict[str, bool]:
    """(a) Version.__init__ reads every named group of VERSION_PATTERN, each into the segment it belongs to; (b) the local
    label is split into lower-cased words and ints (_parse_local_version, evaluated); (c) _cmpkey, evaluated for
    4 releases x pre/post/dev present or not x 4 local labels, is packaging's key: trailing zeros of the release dropped,
    the Infinity sentinels for absent segments, local parts as (int, "") / (-Infinity, word)."""
    import itertools
    import re as _re
    import types
    from sa.model import Abstract, CannotFold, EvalError
    prog = ctx.prog
    # (a)
    vi = prog.klass(f"{M}.Version").methods.get("__init__")
    ctx.require(vi is not None, "Version.__init__ vanished")
    ctx.visit(vi.fq)
    pat = prog.const(M, "VERSION_PATTERN")
    groups = set(_re.compile(pat, _re.VERBOSE | _re.IGNORECASE).groupindex)
    ctor = [c for c in ast.walk(vi.node) if isinstance(c, ast.Call) and unparse(c.func) == "_Version"]
    ctx.require(len(ctor) == 1, "Version.__init__: _Version(...) constructor call not found")
    read_by: T.Dict[str, T.Set[str]] = {}
    for kw in ctor[0].keywords:
        if kw.arg:
            read_by[kw.arg] = {c.args[0].value for c in ast.walk(shapes.inline(vi, kw.value, prog)) if isinstance(c, ast.Call) and isinstance(c.func, ast.Attribute) and c.func.attr == "group"
                               and c.args and isinstance(c.args[0], ast.Constant)}
    want = {"epoch": {"epoch"}, "release": {"release"}, "pre": {"pre_l", "pre_n"}, "post": {"post_l", "post_n1", "post_n2"}, "dev": {"dev_l", "dev_n"}, "local": {"local"}}
    ctx.check(rule, set().union(*want.values()) == groups - {"pre", "post", "dev"}, "VERSION_PATTERN has the named groups of PEP 440's appendix B", f"{M}.VERSION_PATTERN: named groups changed",
              f"{sorted(groups)}", loc=f"src/bumpver/{M}.py")
    for seg, gs in want.items():
        ctx.check(rule, read_by.get(seg) == gs, f"Version.__init__: segment '{seg}' is read from the groups {sorted(gs)}", f"{M}.Version.__init__: segment '{seg}' does not read all of its regex groups",
                  f"reads {sorted(read_by.get(seg, []))}, the pattern captures {sorted(gs)}: e.g. the number of `1.0.post2` sits in post_n2, of `1.0-2` in post_n1", loc=vi.loc(ctor[0]),
                  witness={"versions": ["1.0.post1", "1.0.post2"]})
    # (b)
    plv = prog.function(f"{M}._parse_local_version")
    ctx.visit(plv.fq)

    class Splitter(Abstract):
        def __init__(self, parts: T.List[str]):
            self.parts = parts

        def split(self, text: T.Any) -> T.List[str]:
            return list(self.parts)
    sep_calls = [c.func.value.id for c in ast.walk(plv.node) if isinstance(c, ast.Call) and isinstance(c.func, ast.Attribute) and c.func.attr == "split" and isinstance(c.func.value, ast.Name)]
    sep_name = sep_calls[0] if len(sep_calls) == 1 else "_local_version_separators"
    bad: T.List[str] = []
    n = 0
    try:
        for parts in (None, ["abc"], ["ABC", "1", "Twelve"], ["007"], ["1"]):
            env = {plv.params[0]: None if parts is None else "LOCAL", sep_name: Splitter(parts or []), "__strict__": True}
            try:
                got, _ys = prog.run_body(plv, env)
            except EvalError as ex:
                got = f"raises: {ex}"
            wantv = None if parts is None else tuple(int(p_) if p_.isdigit() else p_.lower() for p_ in parts)
            n += 1
            if got != wantv or (isinstance(got, tuple) and [type(x) for x in got] != [type(x) for x in wantv]):
                bad.append(f"parts {parts} -> {got!r}, expected {wantv!r}")
    except (CannotFold, TypeError, AttributeError, KeyError, ValueError, IndexError) as ex:
        ctx.observe(f"_parse_local_version not evaluated ({type(ex).__name__}: {str(ex)[:80]})")
        n = 0
    if n:
        ctx.check(rule, not bad, f"_parse_local_version: the label's parts as lower-cased words and ints, None without a label ({n} labels evaluated)",
                  f"{M}._parse_local_version: the local label is not parsed into lower-cased words and ints", "; ".join(bad[:2]), loc=plv.loc(), witness=["1.0+abc", "1.0"])
    # (c)
    ck = prog.function(f"{M}._cmpkey")
    ctx.visit(ck.fq)
    INF, NINF = "+Infinity", "-Infinity"
    bad2: T.List[str] = []
    n2 = 0
    try:
        for release, pre, post, dev, local in itertools.product(((1,), (1, 0), (1, 0, 0, 2), (0,)), (None, ("a", 1)), (None, ("post", 2)), (None, ("dev", 3)), (None, ("abc",), (1,), ("abc", 1))):
            env = dict(zip(ck.params, (0, release, pre, post, dev, local)))
            env.update({"Infinity": INF, "NegativeInfinity": NINF, "__strict__": True})
            try:
                got2, _ys = prog.run_body(ck, env)
            except EvalError as ex:
                got2 = f"raises: {ex}"
            rel = list(release)
            while rel and rel[-1] == 0:
                rel.pop()
            w_pre = NINF if (pre is None and post is None and dev is not None) else (INF if pre is None else pre)
            w_local = NINF if local is None else tuple((i, "") if isinstance(i, int) else (NINF, i) for i in local)
            want2 = (0, tuple(rel), w_pre, NINF if post is None else post, INF if dev is None else dev, w_local)
            n2 += 1
            if got2 != want2 and len(bad2) < 5:
                bad2.append(f"release {release}, pre {pre}, post {post}, dev {dev}, local {local} -> {got2}, packaging gives {want2}")
    except (CannotFold, TypeError, AttributeError, KeyError, ValueError, IndexError) as ex:
        ctx.observe(f"_cmpkey not evaluated ({type(ex).__name__}: {str(ex)[:80]}); the sentinel table rule decides alone")
        n2 = 0
    if n2:
        ctx.check(rule, not bad2, f"_cmpkey == packaging's key on {n2} segment combinations",
                  f"{M}._cmpkey: the comparison key of a PEP 440 version is not packaging's key", "; ".join(bad2[:2]), loc=ck.loc(), witness={"cases": bad2[:3]})
    # the local accessor used by __str__
    lp = prog.klass(f"{M}.Version").methods.get("local")
    if lp is not None:
        bad3: T.List[str] = []
        try:
            for raw, wantl in ((None, None), (("abc", 1), "abc.1"), ((7,), "7")):
                me = types.SimpleNamespace(_version=types.SimpleNamespace(local=raw))
                try:
                    got3, _ys = prog.run_body(lp, {lp.params[0]: me, "__strict__": True})
                except EvalError as ex:
                    got3 = f"raises: {ex}"
                if got3 != wantl:
                    bad3.append(f"_version.local = {raw!r} -> {got3!r}, expected {wantl!r}")
            ctx.check("R7", not bad3, "Version.local is the label joined with dots (None when absent)", f"{M}.Version.local: the local label is not handed to __str__",
                      "; ".join(bad3[:2]), loc=lp.loc(), witness="1.0+abc.1")
        except (CannotFold, TypeError, AttributeError, KeyError, ValueError, IndexError):
            pass
    return {"_parse_local_version": bool(n), "_cmpkey": bool(n2)}


def letter_version_eval(ctx, rule: str) -> None:
    """_parse_letter_version evaluated for 11 (letter, number) pairs: (normalised short letter, int(number or 0)), the implicit post
    release for a bare number, None for nothing."""
    from sa.model import CannotFold, EvalError
    prog = ctx.prog
    fn = prog.function(f"{M}._parse_letter_version")
    cases = [(("a", "1"), ("a", 1)), (("ALPHA", "01"), ("a", 1)), (("beta", "2"), ("b", 2)), (("rc", None), ("rc", 0)), (("preview", "2"), ("rc", 2)), (("c", "9"), ("rc", 9)),
             (("pre", "10"), ("rc", 10)), (("r", "5"), ("post", 5)), (("Rev", "0"), ("post", 0)), ((None, "3"), ("post", 3)), ((None, "10"), ("post", 10)), ((None, None), None), (("dev", "4"), ("dev", 4))]
    wrong = []
    n = 0
    try:
        for (letter, number), want in cases:
            try:
                got, _ys = prog.run_body(fn, {fn.params[0]: letter, fn.params[1]: number, "__strict__": True})
            except EvalError as ex:
                got = f"raises: {ex}"
            n += 1
            if got != want or (isinstance(got, tuple) and type(got[1]) is not int):
                wrong.append(f"({letter!r}, {number!r}) -> {got!r}, expected {want!r}")
    except (CannotFold, TypeError, AttributeError, KeyError, ValueError, IndexError) as ex:
        ctx.observe(f"_parse_letter_version not evaluated ({type(ex).__name__}: {str(ex)[:80]})")
        return
    ctx.check(rule, not wrong, f"_parse_letter_version: (short letter, int number) for every spelling, implicit post release, None ({n} pairs evaluated)",
              f"{M}._parse_letter_version: a pre/post/dev segment is not (PEP 440 short letter, number as int)", "; ".join(wrong[:3]) + " - e.g. 1.0a9 < 1.0a10 needs the numbers as ints",
              loc=fn.loc(), witness=["1.0a9", "1.0a10"])
