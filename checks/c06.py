"""C06 - a failed update leaves the project untouched."""
from __future__ import annotations

import ast
import typing as T

from sa import shapes
from sa.cfg import handler_can_catch
from sa.model import AnalysisError, unparse

TECHNIQUE = "effect-ordering analysis on the CFG with lazy-generator attribution; handler-outcome analysis; sibling raise-site comparison"
EXPLANATION = (
    "Decides from the source, for every execution order of the rewrite phase, that no validation failure "
    "(NoPatternMatch / missing-file IOError) can occur after a file write: per function on the call tree "
    "update -> _try_update -> _update -> rewrite_files, no CFG path leads from a node with a file-write effect to a node "
    "with a validation-raise effect, where the body of a lazily consumed generator is attributed to the loop header "
    "that pulls from it.  Also: every handler that can catch these failures exits non-zero or re-raises, no VCS "
    "mutation is reachable after a caught failure, and the dry (diff) path raises only where the write path does."
)

ENGINES = ("v2rewrite", "v1rewrite")
VALIDATION_MODULES = ("rewrite", "v1rewrite", "v2rewrite", "parse")
V_EXC = ("NoPatternMatch", "IOError", "OSError", "FileNotFoundError")


def _is_v(effect: str, chain: T.List[str]) -> bool:
    if not effect.startswith("RAISE:"):
        return False
    if effect.split(":", 1)[1] not in V_EXC:
        return False
    # the raise site itself (last element of the chain) must be in the rewrite layer
    last = chain[-1]
    if "/" in last:          # a raise statement of the examined function itself is recorded by its location (src/bumpver/<module>.py:<line>)
        last = last.rsplit("/", 1)[1]
    return last.split(".")[0] in VALIDATION_MODULES


def _order_rule(ctx, fq: str, depth: int, seen: T.Set[str]) -> None:
    """R1: in fq, no path from a write node to a validation-raise node."""
    if fq in seen or depth > 6:
        return
    seen.add(fq)
    prog, effects, cfgs = ctx.prog, ctx.effects, ctx.cfgs
    fn = prog.function(fq)
    ctx.visit(fq)
    cfg = cfgs.get(fq)
    neff = shapes.node_effects_lazy(prog, effects, cfg, cfgs.types(fq))
    w_nodes = {nid: e["FS_WRITE"] for nid, e in neff.items() if "FS_WRITE" in e}
    v_nodes: T.Dict[int, T.Tuple[str, T.List[str]]] = {}
    for nid, e in neff.items():
        for eff, chain in e.items():
            if _is_v(eff, chain):
                v_nodes.setdefault(nid, (eff, chain))
    reach_all = cfg.reachable()
    for w, wchain in sorted(w_nodes.items()):
        if w not in reach_all:
            continue
        after = set()
        for dst, _ in cfg.succ[w]:
            after |= cfg.reachable(dst)
        for v, (veff, vchain) in sorted(v_nodes.items()):
            wn, vn = cfg.nodes[w], cfg.nodes[v]
            what = f"{fq}: write at L{wn.lineno} never precedes validation `{vn.text()[:50]}` (L{vn.lineno})"
            if v == w:
                in_loop = w in after
                if in_loop:
                    ctx.bad("R1", f"{fq}: file write and validation of another file interleave in one loop",
                            f"node `{wn.text()}` both writes files and can raise {veff.split(':')[1]}; it is inside a loop, so the "
                            f"validation of file k+1 runs after file k was written",
                            loc=fn.loc(wn.ast or wn.stmt), path=wchain + ["..."] + vchain, what=what)
                else:
                    ctx.ok("R1", f"{fq}: node `{wn.text()[:50]}` is not in a loop (descending into callee)")
                continue
            if v in after:
                lazy = any("[lazy]" in c for c in vchain)
                key = f"{fq}: file written before all files are validated" + (" (lazy generator consumed by the write loop)" if lazy else "")
                ctx.bad("R1", key,
                        f"a path leads from the write `{wn.text()[:60]}` (L{wn.lineno}) to `{vn.text()[:60]}` (L{vn.lineno}) which can raise "
                        f"{veff.split(':')[1]}: an earlier file is already rewritten when a later file fails validation",
                        loc=fn.loc(vn.ast or vn.stmt), path=wchain + ["=> then =>"] + vchain, what=what)
            else:
                ctx.ok("R1", what)
    # descend into callees that contain both effects
    for node, callee in effects.calls[fq]:
        s = effects.effects_of(callee.fq)
        if "FS_WRITE" in s and any(_is_v(e, c) for e, c in s.items()):
            _order_rule(ctx, callee.fq, depth + 1, seen)


def run(ctx) -> None:
    prog, effects, cfgs = ctx.prog, ctx.effects, ctx.cfgs
    ctx.rule("R1", "no execution order writes file i before validating file j (W-node never reaches a V-node; lazy generators attributed to their consumer)")
    ctx.rule("R2", "every handler that can catch NoPatternMatch/OSError on the update path exits non-zero or re-raises")
    ctx.rule("R3", "no VCS mutation / hook is reachable in _update after a caught rewrite failure")
    ctx.rule("R4", "the diff (dry) path raises NoPatternMatch only where the write path does")
    ctx.rule("R5", "a pattern without a match always fails its file: rewrite_lines returns normally only when every pattern was found")
    ctx.rule("R6", "prerequisite: 'the new version is rejected' - the gate rejects every version that is not strictly greater / does not match, before anything is written (C01/R1-R3)")
    from sa.report import run_prerequisite
    run_prerequisite(ctx, "C01", ("R1", "R2", "R3"), "R6")
    ctx.rule("R7", "prerequisite: 'whenever --dry reports such an error, the real run changes nothing' - the real run validates every configured file through the same records as the diff (C04/R4)")
    run_prerequisite(ctx, "C04", ("R4",), "R7")
    run_prerequisite(ctx, "C03", ("R2",), "R5")       # every configured file is validated with its own patterns in its own iteration (no skipped file, no cached verdict)
    run_prerequisite(ctx, "C09", ("R5",), "R6")       # ... including the rejection of a version that already exists as a tag

    from checks.c03 import all_patterns_found_rule
    for eng in ENGINES:
        all_patterns_found_rule(ctx, eng, "R5")

    # ---------------------------------------------------------------- R1
    seen: T.Set[str] = set()
    upd = prog.function("cli._update")
    roots = []
    for fq in sorted(effects.reachable_functions([upd.fq])):
        f = prog.function(fq)
        if f.module.name in ENGINES and any(s.effect == "FS_WRITE" for s in effects.sites[fq]):
            roots.append(fq)
    ctx.floor("R1", "rewrite entry points called from cli._update", len(set(roots)), 2)
    # ... and nothing that can fail on the user's input is left for after the rewrite: a message template (`{placeholder}` text from
    # the configuration or the command line) is rendered before the files are touched - a KeyError after the rewrite leaves
    # changed files behind an exit status 1
    ucfg_ = cfgs.get(upd.fq)
    rw_nodes = [ucfg_.node_containing(c_) for r_ in sorted(set(roots)) for c_ in shapes.find_calls(prog, upd, r_)]
    after_rw: T.Set[int] = set()
    for nid_ in rw_nodes:
        if nid_ is not None:
            after_rw |= ucfg_.reachable(start=nid_)
    for nid_ in sorted(after_rw):
        nd_ = ucfg_.nodes[nid_]
        if nd_.ast is None:
            continue
        for c_ in ast.walk(nd_.ast):
            if isinstance(c_, ast.Call) and isinstance(c_.func, ast.Attribute) and c_.func.attr in ("format", "format_map") and not isinstance(c_.func.value, ast.Constant) \
                    and (any(k.arg is None for k in c_.keywords) or c_.func.attr == "format_map"):
                ctx.bad("R1", "cli._update: a message template is rendered after the files were rewritten",
                        f"`{unparse(c_)[:70]}` (L{c_.lineno}) runs after the rewrite: an unknown placeholder in commit_message / tag_message raises KeyError when the files are already "
                        f"changed - exit status 1 with a modified project", loc=upd.loc(c_), witness={"commit_message": "bump {old_version} -> {new_versoin}"},
                        what="cli._update: templates are rendered before the rewrite")
    n_before = len(ctx.obligations)
    _order_rule(ctx, "cli._update", 0, seen)
    for r in sorted(set(roots)):
        _order_rule(ctx, r, 0, seen)
    ctx.floor("R1", "write/validation node pairs examined", len(ctx.obligations) - n_before, 2)
    # the write sites of the rewrite layer
    writes = [s for s in effects.all_sites("FS_WRITE") if s.fn.module.name in ENGINES + ("rewrite",)]
    ctx.floor("R1", "file-write sites in the rewrite layer", len(writes), 2)

    # ---------------------------------------------------------------- R2
    chain_fns = effects.reachable_functions(["cli.update"])
    n_handlers = 0
    for fq in sorted(chain_fns):
        fn = prog.function(fq)
        if fn.module.name not in ("cli", "v1rewrite", "v2rewrite", "rewrite"):
            continue
        cfg = cfgs.get(fq)
        neff = None
        for hid in shapes.handlers_catching(cfg, ["NoPatternMatch", "OSError", "IOError"]):
            hnode = cfg.nodes[hid]
            types = hnode.extra.get("types")
            body = shapes.try_body_nodes(cfg, hid)
            if neff is None:
                neff = shapes.node_effects_lazy(prog, effects, cfg, cfgs.types(fq))
            guards_v = any(_is_v(e, c) for nid in body for e, c in neff.get(nid, {}).items())
            if not guards_v:
                continue
            ctx.visit(fq)
            n_handlers += 1
            oc = shapes.handler_outcome(cfg, hid)["outcomes"]
            tdesc = "bare" if types is None else ",".join(types)
            what = f"{fq}: handler `except {tdesc}` (L{hnode.lineno}) does not swallow a rewrite failure"
            bad_exit = [o for o in oc if o.startswith("exit:") and o.split(":")[1] in ("0", "None", "False")]
            unk_exit = [o for o in oc if o == "exit:?"]
            if unk_exit:
                raise AnalysisError(f"C06/R2: exit code of handler at {fn.loc(hnode.ast)} is not a constant")
            if "fallthrough" in oc:
                ctx.bad("R2", f"{fq}: handler `except {tdesc}` swallows a rewrite failure",
                        f"the handler at L{hnode.lineno} can complete normally, so a failed rewrite does not end in a non-zero exit",
                        loc=fn.loc(hnode.ast), what=what)
            elif bad_exit:
                ctx.bad("R2", f"{fq}: handler `except {tdesc}` exits with status 0 on a rewrite failure",
                        f"handler at L{hnode.lineno} ends in {bad_exit}", loc=fn.loc(hnode.ast), what=what)
            else:
                ctx.ok("R2", what + f" [{', '.join(sorted(oc))}]")
    ctx.floor("R2", "handlers guarding rewrite validation", n_handlers, 3)

    missing_file_rule(ctx, "R2")

    # ---------------------------------------------------------------- R3
    cfg = cfgs.get("cli._update")
    neff = shapes.node_effects_lazy(prog, effects, cfg, cfgs.types("cli._update"))
    mut_nodes = [nid for nid, e in neff.items() if any(k.startswith("VCS_MUTATE") or k == "HOOK" for k in e)]
    rw_nodes = [nid for nid, e in neff.items() if "FS_WRITE" in e and any(_is_v(k, c) for k, c in e.items())]
    ctx.floor("R3", "rewrite call nodes in cli._update", len(rw_nodes), 1)
    ctx.floor("R3", "VCS-mutating call nodes in cli._update", len(mut_nodes), 1)
    for rw in rw_nodes:
        exc_targets = [dst for dst, lab in cfg.succ[rw] if lab == ("exc",) and dst != cfg.raise_exit]
        for m in mut_nodes:
            reached = any(m in cfg.reachable(t) for t in exc_targets)
            ctx.check("R3", not reached,
                      f"cli._update: `{cfg.nodes[m].text()[:40]}` unreachable after a failure of `{cfg.nodes[rw].text()[:40]}`",
                      f"cli._update: VCS step reachable after a caught rewrite failure",
                      f"`{cfg.nodes[m].text()}` is reachable from the exception handler of `{cfg.nodes[rw].text()}`",
                      loc=upd.loc(cfg.nodes[m].ast))
    # the VCS step must also come after the rewrite on the normal path (never before it)
    for m in mut_nodes:
        for rw in rw_nodes:
            before = rw in cfg.reachable(m)
            ctx.check("R3", not before,
                      f"cli._update: rewrite `{cfg.nodes[rw].text()[:40]}` is never executed after the VCS step",
                      "cli._update: VCS step precedes the rewrite",
                      f"`{cfg.nodes[m].text()}` can run before `{cfg.nodes[rw].text()}`", loc=upd.loc(cfg.nodes[m].ast))

    # ---------------------------------------------------------------- R4
    for eng in ENGINES:
        diff_fq, write_fq = f"{eng}.diff", f"{eng}.rewrite_files"
        dfn = prog.function(diff_fq)
        prog.function(write_fq)
        ctx.visit(diff_fq, write_fq)
        write_reach = effects.reachable_functions([write_fq])
        diff_reach = effects.reachable_functions([diff_fq])
        n_sites = 0
        for fq in sorted(diff_reach - write_reach):
            fn = prog.function(fq)
            cfg = cfgs.get(fq)
            for s in effects.sites[fq]:
                if not (s.effect in ("RAISE:NoPatternMatch", "RAISE:IOError", "RAISE:OSError")):
                    continue
                n_sites += 1
                # a raise inside a handler that catches the same class is a conversion of a shared failure
                in_handler = False
                for n in cfg.nodes:
                    if n.kind == "handler" and any(sub is s.node for sub in ast.walk(n.ast)):
                        types = n.extra.get("types")
                        if handler_can_catch(types, s.effect.split(":")[1]):
                            in_handler = True
                what = f"{fq}: raise at L{s.node.lineno} re-raises a failure shared with the write path"
                if in_handler:
                    ctx.ok("R4", what)
                else:
                    wider = _diff_only_raise_condition(ctx, fn, s.node, eng) if fq == diff_fq else None
                    if wider is None:
                        ctx.observe(f"{fq}: condition of the diff-only raise at L{s.node.lineno} not decided (shape not foldable); the finding is keyed by the site only")
                    elif wider:
                        ctx.bad("R4", f"{fq}: the diff-only NoPatternMatch is raised although no pattern of the file changes or the diff is not empty",
                                f"`{unparse(s.node)}` at L{s.node.lineno} fires for {wider[0]}: --dry reports an error in more cases than `diff is empty and a pattern renders differently`",
                                loc=fn.loc(s.node), witness={"cases": wider[:4]})
                    ctx.bad("R4", f"{fq}: NoPatternMatch raised on the diff path only",
                            f"`{unparse(s.node)}` at L{s.node.lineno} has no counterpart on the write path "
                            f"({write_fq}): --dry can report an error for a project the real run rewrites",
                            loc=fn.loc(s.node), what=what)
        ctx.floor("R4", f"diff-only raise sites in {eng}", n_sites, 1)
        # both sides must share the validating call
        shared = [fq for fq in (f"{eng}.rfd_from_content", "rewrite.iter_path_patterns_items") if fq in write_reach and fq in diff_reach]
        ctx.check("R4", len(shared) == 2, f"{eng}: diff and write paths share rfd_from_content and iter_path_patterns_items",
                  f"{eng}: diff and write paths do not share the validating helpers",
                  f"shared helpers: {shared}", loc=dfn.loc())


def _diff_only_raise_condition(ctx, fn, raise_node: ast.AST, eng: str) -> T.Optional[T.List[str]]:
    """Decide when the diff-only raise fires, by folding the loop body of `diff` for 0..2 patterns x changed/unchanged
    rendering x empty/non-empty diff.  Returns the cases in which it fires outside `diff empty and some pattern changes`
    (the recorded finding), [] if none, None if the shape cannot be folded."""
    import types
    from sa.model import CannotFold
    prog = ctx.prog
    loops = [st for st in fn.node.body if isinstance(st, ast.For) and any(sub is raise_node for sub in ast.walk(st))]
    if len(loops) != 1:
        return None
    body = loops[0].body
    guard = [st for st in body if isinstance(st, ast.If) and any(sub is raise_node for sub in ast.walk(st))]
    if len(guard) != 1 or not any(sub is raise_node for st in guard[0].body for sub in ast.walk(st)):
        return None
    gi = body.index(guard[0])
    need = {n.id for n in ast.walk(guard[0].test) if isinstance(n, ast.Name)}
    chosen: T.List[ast.stmt] = []
    for st in reversed(body[:gi]):
        binds = {n.id for n in ast.walk(st) if isinstance(n, ast.Name) and isinstance(n.ctx, ast.Store)}
        if isinstance(st, (ast.Assign, ast.AnnAssign, ast.AugAssign, ast.For, ast.If)) and binds & need:
            chosen.insert(0, st)
            need |= _loads(st)
    vmod = "v2version" if eng == "v2rewrite" else "v1version"
    wider: T.List[str] = []
    pat_name = unparse(loops[0].target.elts[1]) if isinstance(loops[0].target, ast.Tuple) and len(loops[0].target.elts) == 2 else None
    if pat_name is None:
        return None
    try:
        for k in range(3):
            for mask in range(2 ** k):
                changed = [bool(mask >> i & 1) for i in range(k)]
                for lines in ([], ["-old", "+new"]):
                    def fmt(f, node, changed=changed):
                        vinfo, raw = f(node.args[0]), f(node.args[1])
                        i = int(raw[1:])
                        return f"{raw}@{vinfo}" if changed[i] else f"{raw}@same"
                    env: T.Dict[str, T.Any] = {
                        "old_vinfo": "OLD", "new_vinfo": "NEW",
                        pat_name: [types.SimpleNamespace(raw_pattern=f"p{i}") for i in range(k)],
                        "__stubs__": {f"{vmod}.format_version": fmt, "rewrite.diff_lines": lambda f, node, lines=lines: list(lines)},
                    }
                    prog._propagate(fn.module, chosen, env, fn.fq)
                    fires = bool(prog.fold(fn.module, guard[0].test, env))
                    recorded = (not lines) and any(changed)
                    if fires and not recorded:
                        wider.append(f"{k} pattern(s), rendering changes: {changed}, diff {'empty' if not lines else 'not empty'}")
    except (CannotFold, KeyError, IndexError, ValueError, TypeError, AttributeError):
        return None
    return wider


def _loads(root: ast.AST) -> T.Set[str]:
    """Names read by `root`, not counting the arguments of the abstracted `rewrite.diff_lines(...)` call."""
    out: T.Set[str] = set()
    stack = [root]
    while stack:
        n = stack.pop()
        if isinstance(n, ast.Call) and unparse(n.func) == "rewrite.diff_lines":
            continue
        if isinstance(n, ast.Name) and isinstance(n.ctx, ast.Load):
            out.add(n.id)
        stack.extend(ast.iter_child_nodes(n))
    return out


def missing_file_rule(ctx, rule: str) -> bool:
    """rewrite.iter_path_patterns_items evaluated on abstract paths: every configured entry is yielded with its own patterns in
    configured order, and a configured file that does not exist raises IOError - also for an entry with an empty pattern list."""
    from sa.model import Abstract, CannotFold, EvalError
    prog = ctx.prog
    fn = prog.function("rewrite.iter_path_patterns_items")
    ctx.visit(fn.fq)

    class P(Abstract):
        def __init__(self, name: str, there: bool):
            self.name, self.there = name, there

        def exists(self) -> bool:
            return self.there

        def is_file(self) -> bool:
            return self.there

        def __repr__(self) -> str:
            return self.name
    wrong: T.List[str] = []
    n = 0
    try:
        for existing, conf in ((("a.txt", "gen.md", "b.txt"), {"a.txt": ["P1"], "gen.md": [], "b.txt": ["P2", "P3"]}),
                               (("a.txt", "b.txt"), {"a.txt": ["P1"], "gen.md": [], "b.txt": ["P2"]}),
                               (("a.txt",), {"a.txt": ["P1"], "b.txt": ["P2"]})):
            made: T.Dict[str, P] = {}

            def mk(f: T.Any, node: ast.Call, existing=existing, made=made) -> P:
                name = f(node.args[0])
                made.setdefault(name, P(name, name in existing))
                return made[name]
            env = {fn.params[0]: dict(conf), "__strict__": True, "__stubs__": {"pl.Path": mk, "pathlib.Path": mk}}
            try:
                _r, ys = prog.run_body(fn, env)
                got: T.Any = [(repr(y[0]), y[1]) for y in ys]
            except EvalError as ex:
                got = [(repr(y[0]), y[1]) for y in env.get("__yields__", [])] + [f"raises {getattr(ex, 'raised', ex)}"]
            want: T.List[T.Any] = []
            for k, v in conf.items():
                if k in existing:
                    want.append((k, v))
                else:
                    want.append("raises IOError")
                    break
            n += 1
            norm = [("raises IOError" if isinstance(g, str) and g.split()[-1] in ("IOError", "OSError", "FileNotFoundError") else g) for g in got]
            if norm != want:
                wrong.append(f"files {list(conf)} (existing: {list(existing)}): {got}, expected {want}")
    except (CannotFold, TypeError, AttributeError, KeyError, ValueError, IndexError) as ex:
        ctx.observe(f"rewrite.iter_path_patterns_items not evaluated ({type(ex).__name__}: {str(ex)[:80]})")
        return False
    ctx.check(rule, not wrong, f"iter_path_patterns_items: every configured file in order, IOError for a missing one whatever its patterns ({n} configurations evaluated)",
              "rewrite.iter_path_patterns_items: a configured file that is missing is not an error (or an entry is skipped)", "; ".join(wrong[:2]), loc=fn.loc(),
              witness={"file_patterns": {"CHANGELOG.md": []}})
    return True
