"""C14 - calendar versions never run backwards as the date advances (structural part)."""
from __future__ import annotations

import ast
import typing as T

from sa import shapes
from sa.boolfn import BF
from sa.model import AnalysisError, const_str, unparse, walk_no_nested
from sa.pathcond import PathCond

TECHNIQUE = "table agreement (guard lists vs. part->field table), path conditions of the guard, dominance of the guard, sibling comparison of the two calendar producers, field-order check"
EXPLANATION = (
    "Monotonicity over ~36,000 day pairs x 60 patterns is arithmetic inside strftime and is NOT decided.  Decided is what "
    "makes the bad pairings unreachable and the comparison well-founded: (R1) the four part lists of is_valid_week_pattern "
    "equal the sets of parts that PATTERN_PART_FIELDS maps to year_y / week_w+week_u / year_g / week_v, and the function "
    "returns False exactly under (calendar year with ISO week) or (ISO year with non-ISO week); (R2) that guard dominates "
    "rendering in v2version.incr (false => no version) and is applied to every new-style pattern by the config validator "
    "(false => ValueError); (R3) cal_info and the re-derivation block of the parser bind every calendar field to the same "
    "strftime directive / date attribute, ISO year with ISO week only; (R4) the future guard compares the non-None calendar "
    "fields lexicographically in the declared field order, which puts both year fields first and quarter < month < day."
)
LEVEL_NOTE = "PARTIAL: decides guard/table/ordering structure, not monotonicity of rendered values over all day pairs."

CANON = {"date.year": "Y", "date.month": "m", "date.day": "d"}


def _directive(e: ast.AST, date: str) -> T.Optional[str]:
    txt = unparse(e)
    for k, v in CANON.items():
        if txt == k.replace("date", date):
            return v
    if isinstance(e, ast.Call) and unparse(e.func) == "int" and e.args:
        inner = e.args[0]
        if isinstance(inner, ast.Call) and isinstance(inner.func, ast.Attribute) and inner.func.attr == "strftime" and unparse(inner.func.value) == date:
            d = const_str(inner.args[0]) if inner.args else None
            if d and d.startswith("%") and len(d) == 2:
                base = e.args[1] if len(e.args) > 1 else next((k.value for k in e.keywords if k.arg == "base"), None)
                if base is not None and not (isinstance(base, ast.Constant) and base.value == 10):
                    return f"{d[1]} read in base {unparse(base)}"
                return d[1]
    return None


def _expansion_in(prog, cfgs, fn, var: T.Optional[str]) -> T.Tuple[bool, str]:
    """Does `fn` expand a two-digit year held in `var` (any local if None) by 2000, exactly for values below 100/1000?
    Recognised idioms: `if v is not None and v < 1000: v += 2000` (decided on path conditions) and
    `v + 2000 if v < 1000 else v`."""
    def small(test: ast.AST, v: str) -> bool:
        if isinstance(test, ast.BoolOp) and isinstance(test.op, ast.And) and len(test.values) == 2 and unparse(test.values[0]) == f"{v} is not None":
            test = test.values[1]          # `v is not None and v < 1000`
        cs = shapes.compare_shape(test)
        if not cs:
            return False
        op, a, b = cs
        if op == ">":
            op, a, b = "<", b, a
        return op == "<" and unparse(a) == v and isinstance(b, ast.Constant) and b.value in (100, 1000)
    def plus2000(e: ast.AST, v: str) -> bool:
        if not (isinstance(e, ast.BinOp) and isinstance(e.op, ast.Add)):
            return False
        sides = [e.left, e.right]
        return any(unparse(x) == v for x in sides) and any(isinstance(x, ast.Constant) and x.value == 2000 for x in sides)
    assigned_to_var = set()
    if var:
        for _st, tg, val in shapes.iter_assigns(fn.node):
            if unparse(tg) == var:
                assigned_to_var |= {id(x) for x in ast.walk(val)}
    for n in ast.walk(fn.node):
        if isinstance(n, ast.IfExp):
            cands = sorted({x.id for x in ast.walk(n) if isinstance(x, ast.Name)}) if (not var or id(n) in assigned_to_var) else [var]
            for v in cands:
                if small(n.test, v) and plus2000(n.body, v) and unparse(n.orelse) == v:
                    return True, f"`{unparse(n)}`"
                if isinstance(n.test, ast.UnaryOp) and isinstance(n.test.op, ast.Not) and small(n.test.operand, v) and plus2000(n.orelse, v) and unparse(n.body) == v:
                    return True, f"`{unparse(n)}`"
    cfg = cfgs.get(fn.fq)
    pc = None
    live = cfg.reachable()
    for n in cfg.nodes:
        if n.kind != "stmt" or n.id not in live:
            continue
        v = None
        if isinstance(n.ast, ast.AugAssign) and isinstance(n.ast.op, ast.Add) and isinstance(n.ast.value, ast.Constant) and n.ast.value.value == 2000:
            v = unparse(n.ast.target)
        elif isinstance(n.ast, ast.Assign) and len(n.ast.targets) == 1 and plus2000(n.ast.value, unparse(n.ast.targets[0])):
            v = unparse(n.ast.targets[0])
        elif not var and isinstance(n.ast, ast.Return) and isinstance(n.ast.value, ast.BinOp):
            # a helper `if <p> is not None and <p> < 1000: return <p> + 2000 / else: return <p>`
            for p_ in fn.params:
                other = [r_ for r_ in walk_no_nested(fn.node) if isinstance(r_, ast.Return) and r_ is not n.ast]
                if plus2000(n.ast.value, p_) and other and all(r_.value is not None and unparse(r_.value) == p_ for r_ in other):
                    v = p_
        if v is None or (var and v != var):
            continue
        pc = pc or PathCond(cfg)
        r = pc.reach(n.id).drop_unused()
        lt = [a for a in r.atoms if a.replace(" ", "") in (f"{v}<1000", f"{v}<100")]
        if len(lt) != 1:
            continue
        want = BF.var(lt[0])
        keep = [lt[0]]
        if f"{v} is None" in r.atoms:
            want = want & ~BF.var(f"{v} is None")
            keep.append(f"{v} is None")
        if r.project(keep).equiv(want):
            return True, f"`{unparse(n.ast)}` under `{lt[0]}`"
    return False, ""


def two_digit_year_rule(ctx, rule: str) -> None:
    """Both year fields are expanded to four digits when read (cal_info always yields four digits; the future guard
    and the round trip compare the two)."""
    from sa import formats as _formats
    from checks.c02 import part_tables as _pt
    prog, cfgs = ctx.prog, ctx.cfgs
    pf = prog.function("v2version.parse_field_values_to_cinfo")
    ctx.visit(pf.fq)
    _pats, _fields, _fmts = _pt(ctx)
    short_fields = sorted({_fields[p] for p in _fields if p in _fmts and _formats.describe_formatter(_fmts[p]).last2})
    ctx.floor(rule, "fields with two-digit renderings", len(short_fields), 2)
    for fld in short_fields:
        ok, how = _expansion_in(prog, cfgs, pf, fld)
        if not ok:
            # through a private helper: the field's defining expression calls it on the captured text
            for _st, tgt, val in shapes.iter_assigns(pf.node):
                if unparse(tgt) != fld:
                    continue
                for c in ast.walk(val):
                    if isinstance(c, ast.Call):
                        t = prog.resolve_call(pf, c)
                        if t.kind == "func" and t.fn is not None and t.fn.module is pf.module and any(repr(fld) in unparse(a) or unparse(a) == fld for a in list(c.args) + [k.value for k in c.keywords]):
                            ok, how = _expansion_in(prog, cfgs, t.fn, None)
                            if ok:
                                ctx.visit(t.fn.fq)
                                how = f"{t.fn.name}: {how}"
                                break
                if ok:
                    break
        ctx.check(rule, ok, f"parser: two-digit '{fld}' is expanded by 2000 (as cal_info yields four-digit years)  [{how}]",
                  f"v2version.parse_field_values_to_cinfo: two-digit '{fld}' is not expanded to a four-digit year (the future guard compares 22 with 2021)",
                  "no `+ 2000` under `< 1000` found for the field, directly or through a helper called on its captured text", loc=pf.loc(),
                  witness={"version": "v22.05.1001", "pattern": "vGG.0V.BUILD", "date": "2021-06-01"} if fld == "year_g" else None)


def calendar_producers_rule(ctx, rule: str) -> None:
    """cal_info and the re-derivation block of the parser bind every calendar field to the same strftime directive; the
    quarter is ((month - 1) // 3) + 1; two-digit years are expanded."""
    prog, cfgs = ctx.prog, ctx.cfgs
    ci = prog.function("v2version.cal_info")
    pf = prog.function("v2version.parse_field_values_to_cinfo")
    ctx.visit(ci.fq, pf.fq)
    from sa.formats import date_name, field_table
    tab1 = field_table(ci)
    ctx.require(tab1 is not None, "cal_info: field dict not found")
    ci_date = date_name(ci)
    prod1: T.Dict[str, T.Optional[str]] = {k: _directive(v, ci_date) for k, v in tab1.items()}
    prod2: T.Dict[str, T.Optional[str]] = {}
    blocks = [n for n in walk_no_nested(pf.node) if isinstance(n, ast.If) and unparse(n.test) == "date"]
    ctx.require(len(blocks) == 1, "parse_field_values_to_cinfo: `if date:` derivation block not found")
    for st in blocks[0].body:
        if isinstance(st, ast.Assign) and isinstance(st.targets[0], ast.Name):
            prod2[st.targets[0].id] = _directive(st.value, "date")
    want = {"year_y": "Y", "year_g": "G", "month": "m", "dom": "d", "doy": "j", "week_w": "W", "week_u": "U", "week_v": "V"}
    ctx.floor(rule, "calendar fields derived by the parser block", len(prod2), 8)
    for f, d in want.items():
        a, b = prod1.get(f), prod2.get(f)
        ctx.check(rule, a == d and b == d, f"field {f}: cal_info and the parser both use %{d}",
                  f"v2version: calendar field '{f}' is bound to different sources in cal_info ({a}) and the parser ({b}); expected %{d}",
                  f"cal_info: {a}, parser: {b}", loc=ci.loc(), witness={"field": f, "cal_info": a, "parser": b, "expected": d})
    two_digit_year_rule(ctx, rule)
    date_from_doy_rule(ctx, rule)
    # the parser re-derives every calendar field from `date`: a date may therefore only come from information that fixes the day -
    # year + day of the year, year + month + day, or today when nothing was parsed.  (A week number fixes a week, not a day: the
    # derived fields would replace the parsed year / week, e.g. week 0 lies in the previous December.)
    allowed = ("None", "version.date_from_doy(year_y, doy)", "date_from_doy(year_y, doy)", "dt.date(year_y, month, dom)", "datetime.date(year_y, month, dom)", "version.TODAY", "TODAY")
    for st, tg, v in shapes.iter_assigns(pf.node):
        if isinstance(tg, ast.Name) and tg.id == "date" and v is not None:
            alts = [v.body, v.orelse] if isinstance(v, ast.IfExp) else [v]
            for a_ in alts:
                txt = unparse(a_)
                ctx.check(rule, txt in allowed, f"parse_field_values_to_cinfo: date := {txt}", "v2version.parse_field_values_to_cinfo: a date is derived from fields that do not fix a day",
                          f"`date = {txt[:70]}`: every calendar field is then re-derived from that date and replaces what was parsed", loc=pf.loc(st), witness={"version": "2021.0.1001", "pattern": "YYYY.WW.BUILD"})
    q = tab1.get("quarter")
    from sa import formats as _fm
    qt = _fm.month_table(prog, ci, q, ci_date) if q is not None else None
    ctx.check(rule, qt == [1, 1, 1, 2, 2, 2, 3, 3, 3, 4, 4, 4], f"cal_info: quarter of month 1..12 is {qt}",
              "v2version.cal_info: the quarter is not ((month - 1) // 3) + 1",
              f"`{unparse(q) if q is not None else None}` gives {qt} for the months 1..12 (March, June, September belong to quarters 1, 2, 3; December to 4)", loc=ci.loc(q) if q is not None else ci.loc(),
              witness={"month": next((m + 1 for m in range(12) if qt and qt[m] != m // 3 + 1), None)} if qt else None)


def week_guard_eval(ctx) -> T.Optional[T.List[str]]:
    """v2version.is_valid_week_pattern evaluated on every pairing of a year part and a week part in three layouts (adjacent,
    separated by other parts, week before year) and on patterns with one of them only: False exactly for a calendar year with
    the ISO week or an ISO year with a Monday/Sunday week.  None when the body is outside what the evaluator handles."""
    from sa.model import CannotFold, EvalError
    prog = ctx.prog
    g = prog.function("v2version.is_valid_week_pattern")
    years = {"YYYY": "y", "YY": "y", "0Y": "y", "GGGG": "g", "GG": "g", "0G": "g"}
    weeks = {"WW": "w", "0W": "w", "UU": "w", "0U": "w", "VV": "v", "0V": "v"}
    cases: T.List[T.Tuple[str, bool]] = [("MAJOR.MINOR.PATCH", True), ("vYYYY0M.BUILD[-TAG]", True)]
    for y, yk in years.items():
        cases.append((f"{y}.BUILD", True))
        for w, wk in weeks.items():
            ok = not ((yk == "y" and wk == "v") or (yk == "g" and wk == "w"))
            for layout in (f"{y}.{w}.PATCH", f"v{y}w{w}.BUILD", f"{y}-W{w}.PATCH", f"{y}.MINOR.{w}", f"v{y}.BUILD-w{w}[-TAG]", f"{w}.{y}.PATCH"):
                cases.append((layout, ok))
    for w in weeks:
        cases.append((f"MAJOR.{w}", True))
    wrong: T.List[str] = []
    try:
        for pat, want in cases:
            try:
                got, _ys = prog.run_body(g, {g.params[0]: pat, "__strict__": None, "__calls__": True})
            except EvalError as ex:
                got = f"raises: {ex}"
            if got is not want and len(wrong) < 5:
                wrong.append(f"{pat}: {got} (expected {want})")
    except (CannotFold, TypeError, AttributeError, KeyError, ValueError, IndexError) as ex:
        ctx.observe(f"{g.fq} not evaluated ({type(ex).__name__}: {str(ex)[:80]})")
        return None
    return wrong


def run(ctx) -> None:
    prog, cfgs = ctx.prog, ctx.cfgs
    ctx.rule("R1", "guard lists == parts of the year/week fields; returns False iff (Y with V) or (G with W/U)")
    ctx.rule("R2", "guard dominates rendering in incr and is enforced by the config validator")
    ctx.rule("R3", "both calendar producers bind each field to the same directive")
    ctx.rule("R4", "future guard: lexicographic > over V2CalendarInfo._fields; years first, quarter < month < dom; a version from the future is bumped as it was parsed (C05/R4)")
    ctx.rule("R5", "prerequisite: every calendar part renders within its recogniser (fixed width where zero-padded) and every calendar field is read back (C02/R1-R4, calendar parts only)")
    from sa.report import run_prerequisite
    _fields_tab = prog.const("v2patterns", "PATTERN_PART_FIELDS")
    _cal_fields = {"year_y", "year_g", "quarter", "month", "dom", "doy", "week_w", "week_u", "week_v"}
    _cal_parts = {p_ for p_, f_ in _fields_tab.items() if f_ in _cal_fields}
    run_prerequisite(ctx, "C05", ("R4",), "R4")
    run_prerequisite(ctx, "C02", ("R1", "R2", "R3", "R4"), "R5",
                     only=lambda key: any(f"['{p_}']" in key for p_ in _cal_parts) or any(f"'{f_}'" in key for f_ in _cal_fields))

    fields = prog.const("v2patterns", "PATTERN_PART_FIELDS")
    g = prog.function("v2version.is_valid_week_pattern")
    ctx.visit(g.fq)
    p = g.params[0]
    ev = week_guard_eval(ctx)
    if ev is not None:
        ctx.check("R1", not ev, "is_valid_week_pattern returns False iff (calendar year & ISO week) or (ISO year & Monday/Sunday week), wherever the parts stand (evaluated)",
                  "v2version.is_valid_week_pattern: rejects the wrong pairings", "; ".join(ev[:3]) + ": around New Year such a pattern renders a lower version for a later date", loc=g.loc(),
                  witness={"pattern": ev[0].split(":")[0] if ev else ""})
    # the shape rule (guard lists == the parts of the year / week fields of the part table) runs as well where it applies; when the
    # guard is written another way and was evaluated, its refusal is of no concern
    try:
        groups = {"yy": {"year_y"}, "ww": {"week_w", "week_u"}, "gg": {"year_g"}, "vv": {"week_v"}}
        expected = {k: {part for part, f in fields.items() if f in fs} for k, fs in groups.items()}
        found: T.Dict[str, str] = {}          # variable -> group
        n_lists = 0
        for n in walk_no_nested(g.node):
            if not (isinstance(n, ast.Assign) and len(n.targets) == 1 and isinstance(n.targets[0], ast.Name)):
                continue
            v = n.value
            if isinstance(v, ast.Call) and unparse(v.func) == "any" and v.args and isinstance(v.args[0], ast.GeneratorExp):
                ge = v.args[0]
                ok_shape = len(ge.generators) == 1 and isinstance(ge.elt, ast.Compare) and isinstance(ge.elt.ops[0], ast.In) and unparse(ge.elt.comparators[0]) == p \
                    and unparse(ge.elt.left) == unparse(ge.generators[0].target)
                ctx.require(ok_shape, f"is_valid_week_pattern: list test shape not enumerated: {unparse(v)[:60]}")
                parts = set(prog.fold(g.module, ge.generators[0].iter))
                n_lists += 1
                match = [k for k, exp in expected.items() if parts & exp]
                if not match:
                    continue          # a list about other parts: its variable stays a free atom of the guard's condition
                # a list that overlaps two groups is judged against the one it mostly agrees with (the stray part is the finding)
                match.sort(key=lambda k_: (-len(parts & expected[k_]), k_))
                ctx.require(len(match) == 1 or len(parts & expected[match[0]]) > len(parts & expected[match[1]]),
                            f"is_valid_week_pattern: list {sorted(parts)} mixes part groups evenly")
                k = match[0]
                found[n.targets[0].id] = k
                ctx.check("R1", parts == expected[k], f"guard list for {sorted(groups[k])} == {sorted(expected[k])}",
                          f"v2version.is_valid_week_pattern: part list for {sorted(groups[k])} disagrees with PATTERN_PART_FIELDS",
                          f"list {sorted(parts)}; table says {sorted(expected[k])} (missing {sorted(expected[k] - parts)}, extra {sorted(parts - expected[k])})",
                          loc=g.loc(n), witness=sorted(expected[k] ^ parts))
        ctx.floor("R1", "part lists in is_valid_week_pattern", n_lists, 4)
        ctx.floor("R1", "parts covered by the lists", sum(len(v) for v in expected.values()), 12)
        ctx.require(set(found.values()) == set(groups), f"is_valid_week_pattern: groups found {sorted(found.values())}")
        cfg = cfgs.get(g.fq)
        pc = PathCond(cfg)
        var = {k: BF.var(v) for v, k in found.items()}
        false_reach = BF.false()
        true_reach = BF.false()
        for n in cfg.nodes:
            if n.kind == "stmt" and isinstance(n.ast, ast.Return) and isinstance(n.ast.value, ast.Constant) and n.id in cfg.reachable():
                if n.ast.value.value is False:
                    false_reach = false_reach | pc.reach(n.id)
                elif n.ast.value.value is True:
                    true_reach = true_reach | pc.reach(n.id)
        spec = (var["yy"] & var["vv"]) | (var["gg"] & var["ww"])
        atoms = sorted(found)
        # exact equivalence over *all* branch atoms of the function: any extra condition (e.g. "has a month part")
        # that lets an incoherent pairing through makes the two sides differ
        ctx.check("R1", false_reach.equiv(spec) and true_reach.equiv(~spec),
                  "is_valid_week_pattern returns False iff (calendar year & ISO week) or (ISO year & Monday/Sunday week)",
                  "v2version.is_valid_week_pattern: rejects the wrong pairings", f"False iff {false_reach.to_dnf()}", loc=g.loc(),
                  witness=false_reach.diff_witness(spec))

    except AnalysisError:
        if ev is None:
            raise
    # ---------------------------------------------------------------- R2
    inc = prog.function("v2version.incr")
    ctx.visit(inc.fq)
    icfg = cfgs.get(inc.fq)
    gc = shapes.find_calls(prog, inc, g.fq)
    if not gc:
        ctx.bad("R2", "v2version.incr: the week-pattern guard is not called", "incoherent year/week pairings are rendered", loc=inc.loc(), what="incr calls is_valid_week_pattern")
    else:
        ctx.check("R2", [unparse(a) for a in gc[0].args] == ["raw_pattern"], "incr: is_valid_week_pattern(raw_pattern)", "v2version.incr: guard applied to another pattern", unparse(gc[0]), loc=inc.loc(gc[0]))
        t_edges = shapes.outcome_edges_of_call(icfg, inc, gc[0], True)
        ctx.require(t_edges is not None, "incr: guard call is not a branch test")
        wo = icfg.reachable(blocked_edges=t_edges)
        fmt = shapes.find_calls(prog, inc, "v2version.format_version")
        ctx.floor("R2", "format_version calls in incr", len(fmt), 1)
        for c in fmt:
            ctx.check("R2", icfg.node_containing(c) not in wo, "incr: format_version only after the guard returned True",
                      "v2version.incr: a version is rendered for an incoherent year/week pairing", "", loc=inc.loc(c))
        for n in icfg.nodes:
            if n.kind == "stmt" and isinstance(n.ast, ast.Return) and n.id in wo and n.id in icfg.reachable():
                v = n.ast.value
                ctx.check("R2", v is None or (isinstance(v, ast.Constant) and v.value is None), f"incr: without a valid pairing only None is returned (L{n.lineno})",
                          "v2version.incr: returns a version although the pairing guard failed", unparse(n.ast), loc=inc.loc(n.ast))
    val = prog.function("config._validate_version_with_pattern")
    ctx.visit(val.fq)
    vcfg = cfgs.get(val.fq)
    vpc = PathCond(vcfg)
    vc = shapes.find_calls(prog, val, g.fq)
    ctx.check("R2", len(vc) == 1, "config validator calls is_valid_week_pattern", "config._validate_version_with_pattern: week-pattern guard not applied", "", loc=val.loc())
    if len(vc) == 1:
        vn = vcfg.node_containing(vc[0])
        r = vpc.reach(vn)
        newp = [a for a in vpc.atoms if a == val.params[2]]
        ctx.require(len(newp) == 1, "validator: no branch on is_new_pattern")
        # reached for every new pattern that passed the earlier checks: at least implied by is_new_pattern and not blocked by another condition on the pattern kind
        ctx.check("R2", r.implies(BF.var(newp[0])) and not r.is_false(), "validator: guard evaluated for new-style patterns", "config validator: guard evaluated for the wrong pattern kind", r.to_dnf(), loc=val.loc(vc[0]))
        f_edges = shapes.outcome_edges_of_call(vcfg, val, vc[0], False)
        ctx.require(f_edges is not None, "validator: guard call is not a branch test")
        after_false = set()
        for (_s, d, _l) in f_edges:
            after_false |= vcfg.reachable(d)
        ctx.check("R2", vcfg.exit not in after_false, "validator: a failed guard never returns normally (raises ValueError)",
                  "config._validate_version_with_pattern: an incoherent pairing is accepted", "", loc=val.loc(vc[0]))
        ctx.check("R2", [unparse(a) for a in vc[0].args] == [val.params[1]], "validator: guard applied to version_pattern", "validator: guard applied to another string", unparse(vc[0]), loc=val.loc(vc[0]))
    pcfg_fn = prog.function("config._parse_config")
    shapes.check_passthrough(ctx, "R2", pcfg_fn.fq, val.fq, {"version_pattern": "version_pattern", "is_new_pattern": "is_new_pattern"})

    # ---------------------------------------------------------------- R3
    calendar_producers_rule(ctx, "R3")

    # ---------------------------------------------------------------- R4
    gt = prog.function("v2version._is_cal_gt")
    ctx.visit(gt.fq)
    from checks.c05 import none_filter_rule
    if not none_filter_rule(ctx, "v2version", "R4"):
        loops = [n for n in walk_no_nested(gt.node) if isinstance(n, ast.For)]
        ok = len(loops) == 1 and unparse(loops[0].iter) == "version.V2CalendarInfo._fields"
        ctx.check("R4", ok, "_is_cal_gt iterates version.V2CalendarInfo._fields", "v2version._is_cal_gt: does not compare all calendar fields in declared order", "", loc=gt.loc())
    order = prog.klass("version.V2CalendarInfo").fields
    idx = {f: i for i, f in enumerate(order)}
    ctx.require(all(f in idx for f in ("year_y", "year_g", "quarter", "month", "dom", "doy", "week_w", "week_u", "week_v")), "V2CalendarInfo fields changed")
    years_first = max(idx["year_y"], idx["year_g"]) < min(v for k, v in idx.items() if k not in ("year_y", "year_g"))
    ctx.check("R4", years_first, "V2CalendarInfo: both year fields precede every sub-year field", "version.V2CalendarInfo: a sub-year field is more significant than a year field", f"{order}", loc="src/bumpver/version.py")
    ctx.check("R4", idx["quarter"] < idx["month"] < idx["dom"], "V2CalendarInfo: quarter < month < dom", "version.V2CalendarInfo: month/day significance order wrong", f"{order}", loc="src/bumpver/version.py")
    vi = prog.klass("version.V2VersionInfo").fields
    ctx.check("R4", vi[:len(order)] == order, "V2VersionInfo starts with the calendar fields in the same order", "version.V2VersionInfo: calendar fields differ from V2CalendarInfo", "", loc="src/bumpver/version.py")
    fut = shapes.find_calls(prog, inc, gt.fq)
    ctx.check("R4", len(fut) == 1 and [unparse(a) for a in fut[0].args] == ["old_vinfo", "cur_cinfo"], "incr: _is_cal_gt(old_vinfo, cur_cinfo)", "v2version.incr: future-guard arguments swapped/changed",
              unparse(fut[0]) if fut else "", loc=inc.loc())


def date_from_doy_rule(ctx, rule: str) -> None:
    """version.date_from_doy(year, doy) evaluated (datetime from the standard library) for the first, the 60th and the last
    day of a leap and a common year: day n of the year is 1 January + (n - 1) days, day 366 of a leap year included."""
    import datetime as _dt
    from sa.model import CannotFold, EvalError
    prog = ctx.prog
    fn = prog.function("version.date_from_doy")
    ctx.visit(fn.fq)
    stubs = {"dt.date": lambda f, node: _dt.date(*[f(a) for a in node.args], **{k.arg: f(k.value) for k in node.keywords}),
             "dt.timedelta": lambda f, node: _dt.timedelta(*[f(a) for a in node.args], **{k.arg: f(k.value) for k in node.keywords})}
    wrong = []
    n = 0
    try:
        for year, doy in ((2024, 1), (2024, 60), (2024, 366), (2023, 1), (2023, 60), (2023, 365), (2021, 200)):
            try:
                got, _ys = prog.run_body(fn, {fn.params[0]: year, fn.params[1]: doy, "__strict__": True, "__stubs__": stubs})
            except EvalError as ex:
                got = f"raises: {ex}"
            want = _dt.date(year, 1, 1) + _dt.timedelta(days=doy - 1)
            n += 1
            if got != want:
                wrong.append(f"day {doy} of {year} -> {got}, expected {want}")
    except (CannotFold, TypeError, AttributeError, KeyError, ValueError, IndexError, OverflowError) as ex:
        ctx.observe(f"version.date_from_doy not evaluated ({type(ex).__name__}: {str(ex)[:80]})")
        return
    ctx.check(rule, not wrong, f"date_from_doy: day n is 1 January + (n - 1) days ({n} dates evaluated, day 366 of a leap year included)",
              "version.date_from_doy: a day of the year is read back as another date", "; ".join(wrong[:3]) + " - the version for that day does not read back / moves backwards",
              loc=fn.loc(), witness={"version": "2024.366", "pattern": "YYYY.JJJ"})
