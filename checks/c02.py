"""C02 - rendered versions are accepted by their own pattern and read back."""
from __future__ import annotations

import ast
import typing as T

from sa import formats, relang as rl, shapes
from sa.boolfn import BF
from sa.model import AnalysisError, const_str, unparse, walk_no_nested
from sa.pathcond import PathCond

TECHNIQUE = "regular-language inclusion (renderer image ⊆ recogniser language) per part over the full value domain; ordered-choice check; table agreement and wiring rules"
EXPLANATION = (
    "The recogniser (PART_PATTERNS: one regex per part) and the renderer (PART_FORMATS: one function per part) are separate "
    "hand-written tables.  For every part the check computes the regular language of everything the formatter can print "
    "for the whole value domain of its field (the domain is read off the producing code: strftime directive ranges for "
    "calendar fields, naturals for counters, the tag tables for tags) and decides by DFA inclusion that it lies inside the "
    "language of the part's regex, giving the shortest counter-example otherwise; it further decides that Python's "
    "leftmost-alternative matching consumes each rendering completely, that the three tables have the same keys and name "
    "real fields, that every field is read back from its own group, that omitting an optional part agrees with the parse "
    "default of its field, that the tag maps invert each other, and that no integer field whose domain contains 0 is used "
    "in boolean context while reading a version."
)
LEVEL_NOTE = ("Decides the per-part tie between renderer and recogniser for all values (the cause named in the property). "
              "Not decided: the compositional round trip of several adjacent parts / nested optional groups inside one pattern. "
              "Trusted: POSIX ranges of strftime %j %W %U %V; lexid keeps BUILD a digit string of non-zero value.")

TWO_DIGIT_YEAR_PARTS = {"YY", "0Y", "GG", "0G"}


def part_tables(ctx) -> T.Tuple[T.Dict[str, str], T.Dict[str, str], T.Dict[str, T.Any]]:
    prog = ctx.prog
    pats = prog.const("v2patterns", "PART_PATTERNS")
    fields = prog.const("v2patterns", "PATTERN_PART_FIELDS")
    fnode = prog.const_node("v2patterns", "PART_FORMATS")
    ctx.require(isinstance(fnode, ast.Dict), "PART_FORMATS is not a dict display")
    mod = prog.module("v2patterns")
    fmts: T.Dict[str, T.Any] = {}
    for k, v in zip(fnode.keys, fnode.values):
        ks = const_str(k)
        ctx.require(ks is not None, "PART_FORMATS key is not a string constant")
        if isinstance(v, ast.Name) and v.id in mod.functions:
            fmts[ks] = mod.functions[v.id]
        elif isinstance(v, ast.Lambda):
            raise AnalysisError(f"PART_FORMATS['{ks}'] is a lambda (shape not enumerated)")
        else:
            raise AnalysisError(f"PART_FORMATS['{ks}'] does not name a module-level function")
    return pats, fields, fmts


def field_domains(ctx, pats: T.Dict[str, str]) -> T.Dict[str, T.Tuple[formats.Domain, str]]:
    prog = ctx.prog
    cal = formats.calendar_domains(prog, "v2version.cal_info", (1000, 9999))
    dom: T.Dict[str, T.Tuple[formats.Domain, str]] = dict(cal)
    for f in ("major", "minor", "patch", "num", "inc0"):
        dom[f] = (("nat", 0), "counter (naturals)")
    dom["inc1"] = (("nat", 1), "counter starting at 1 (initial value and read-back default are 1)")
    dom["bid"] = (("digits", 1, True), "digit string of non-zero value (lexid ids; bumped ids are >= 1001)")
    tag_lang, complete = rl.enumerate_language(rl.from_regex(pats["TAG"]), max_len=12)
    ctx.require(complete, "TAG regex is not a finite language")
    tags = set(tag_lang) | set(prog.const("version", "TAG_BY_PEP440_TAG").values()) | set(prog.const("cli", "VALID_RELEASE_TAG_VALUES"))
    dom["tag"] = (("strings", sorted(tags)), "L(TAG) ∪ values(TAG_BY_PEP440_TAG) ∪ VALID_RELEASE_TAG_VALUES")
    pytags = set(prog.const("version", "PEP440_TAG_BY_TAG").values())
    dom["pytag"] = (("strings", sorted(pytags)), "values(PEP440_TAG_BY_TAG)")
    dom["githash"] = (("lang", rl.from_regex(pats["GITHASH"])), "own recogniser (parsing is the only producer)")
    dom["hexhash"] = (("lang", rl.from_regex(pats["HEXHASH"])), "own recogniser (parsing is the only producer)")
    return dom


def run(ctx) -> None:
    prog = ctx.prog
    ctx.rule("R1", "PART_PATTERNS / PATTERN_PART_FIELDS / PART_FORMATS have the same keys; fields exist; zero/initial tables refer to known parts/fields")
    ctx.rule("R11", "prerequisite: 'every supported pattern' includes the legacy ones - the legacy renderer and recogniser agree part by part (C20/R1)")
    from sa.report import run_prerequisite as _rp_c20
    _rp_c20(ctx, "C20", ("R1",), "R11")
    ctx.rule("R2", "for every part: Image(formatter, Domain(field)) ⊆ L(regex)   (DFA inclusion, all values)")
    ctx.rule("R3", "ordered choice: Python's leftmost-alternative match consumes each rendering completely")
    ctx.rule("R4", "every field is captured under its own group name and read back by the parser")
    ctx.rule("R5", "omitting a part (PART_ZERO_VALUES) agrees with the parser's default for its field")
    ctx.rule("R6", "tag tables: recognised tags are keys, the maps invert each other")
    ctx.rule("R7", "no integer field whose domain contains 0 is used in boolean context while reading a version")
    ctx.rule("R8", "omission logic: only non-literal segments take part in a group's all-zero test; the reader never refuses a renderable calendar value")
    ctx.rule("R9", "prerequisite: literal text of a pattern is recognised literally (C07/R1-R3), otherwise a rendering is not accepted by its own pattern")
    from sa.report import run_prerequisite
    run_prerequisite(ctx, "C07", ("R1", "R2", "R3", "R5"), "R9")
    ctx.rule("R10", "reading back: the calendar values the parser re-derives from the parsed date are bound to their own strftime directive (decimal), as in cal_info")
    from checks.c14 import calendar_producers_rule
    calendar_producers_rule(ctx, "R10")

    pats, fields, fmts = part_tables(ctx)
    vinfo = prog.klass("version.V2VersionInfo")
    zero = prog.const("version", "PART_ZERO_VALUES")
    init = prog.const("version", "V2_FIELD_INITIAL_VALUES")
    # ---------------------------------------------------------------- R1
    ctx.floor("R1", "parts", len(pats), 31)
    ctx.floor("R1", "fields of V2VersionInfo", len(vinfo.fields), 20)
    for name, tab in (("PATTERN_PART_FIELDS", fields), ("PART_FORMATS", fmts)):
        ctx.check("R1", set(tab) == set(pats), f"keys(PART_PATTERNS) == keys({name})",
                  f"v2patterns: part tables disagree: PART_PATTERNS vs {name}",
                  f"only in PART_PATTERNS: {sorted(set(pats) - set(tab))}; only in {name}: {sorted(set(tab) - set(pats))}", loc="src/bumpver/v2patterns.py")
    for p, f in sorted(fields.items()):
        ctx.check("R1", f in vinfo.fields, f"part {p} -> field '{f}' exists in V2VersionInfo", f"v2patterns.PATTERN_PART_FIELDS['{p}'] names an unknown field",
                  f"'{f}' not in {vinfo.fields}", loc="src/bumpver/v2patterns.py")
    ctx.check("R1", set(zero) <= set(pats), "keys(PART_ZERO_VALUES) ⊆ parts", "version.PART_ZERO_VALUES names an unknown part", f"{sorted(set(zero) - set(pats))}", loc="src/bumpver/version.py")
    ctx.check("R1", set(init) <= set(vinfo.fields), "keys(V2_FIELD_INITIAL_VALUES) ⊆ fields", "version.V2_FIELD_INITIAL_VALUES names an unknown field",
              f"{sorted(set(init) - set(vinfo.fields))}", loc="src/bumpver/version.py")

    # ---------------------------------------------------------------- R2 / R3
    doms = field_domains(ctx, pats)
    ctx.visit("v2version.cal_info")
    for p in sorted(set(pats) & set(fields) & set(fmts)):
        fld = fields[p]
        ctx.require(fld in doms, f"no value domain known for field '{fld}'")
        dom, prov = doms[fld]
        if p in TWO_DIGIT_YEAR_PARTS:
            dom, prov = ("ints", 2001, 2099), "two-digit-year parts: the property's sub-domain 2001..2099"
        fn = fmts[p]
        ctx.visit(fn.fq)
        desc = formats.describe_formatter(fn)
        try:
            img = formats.image(desc, dom)
        except AnalysisError as ex:
            ctx.bad("R2", f"v2patterns.PART_FORMATS['{p}'] ({fn.name}) does not fit the type of field '{fld}'", str(ex), loc=fn.loc())
            continue
        rx = rl.from_regex(pats[p])
        # exemption: an empty rendering can only be represented by omitting the optional group (R5)
        strings, complete = rl.enumerate_language(img, max_len=0)
        if "" in strings:
            img = rl.nonempty(img)
        w = rl.included(img, rx)
        what = f"part {p}: Image({desc}, {fld} ∈ {prov}) ⊆ L({pats[p]!r})"
        if w is None:
            ctx.ok("R2", what)
        else:
            ctx.bad("R2", f"v2patterns.PART_PATTERNS['{p}'] rejects rendered {w!r}",
                    f"{fn.name} ({desc}) prints {w!r} for a value of field '{fld}' (domain: {prov}) but the part's regex {pats[p]!r} does not accept it: "
                    f"such a version is announced/written but is not a legal current version for `show` or the next run",
                    loc="src/bumpver/v2patterns.py", witness=w, what=what)
        # R3
        samples = formats.domain_samples(desc, dom) if dom[0] != "lang" else rl.enumerate_language(img, max_len=5, limit=300)[0][:300]
        short = [s for s in samples if s != "" and rl.to_dfa(rx).accepts(s)]
        bad = [s for s in short if rl.python_prefix_match_end(pats[p], s) != len(s)]
        ctx.check("R3", not bad, f"part {p}: leftmost-alternative matching consumes all of each of {len(short)} renderings",
                  f"v2patterns.PART_PATTERNS['{p}']: alternation order lets a shorter alternative win",
                  f"for rendering {bad[0]!r} the regex {pats[p]!r} stops after {rl.python_prefix_match_end(pats[p], bad[0]) if bad else None} characters "
                  f"(parse_version_info demands a full-length match of an un-anchored regex)" if bad else "", loc="src/bumpver/v2patterns.py", witness=bad[:3])

    # ---------------------------------------------------------------- R4
    ipp = prog.function("v2patterns._iter_part_patterns")
    ctx.visit(ipp.fq)
    fdef = [v for st, v in shapes.local_defs(ipp, "field") if v is not None]
    ok = len(fdef) == 1 and unparse(fdef[0]) == "PATTERN_PART_FIELDS[part_name]"
    ctx.check("R4", ok, "_iter_part_patterns: group name is PATTERN_PART_FIELDS[part_name]", "v2patterns._iter_part_patterns: capture group is not named after the part's field",
              f"{[unparse(f) for f in fdef]}", loc=ipp.loc())
    # the substituted text is (?P<field>part_pattern), possibly with a numeric suffix for a repeated field
    subst = [v for _st, tg, v in shapes.iter_assigns(ipp.node) if isinstance(tg, ast.Name) and tg.id == "named_part_pattern"]
    shapes_ok = bool(subst)
    folded = []
    env0 = {"field": "F", "part_pattern": "P", "used_fields": [], "part_name": "N", "PATTERN_PART_FIELDS": {"N": "F"}}

    def alternatives(e: ast.AST, depth: int = 0) -> T.List[T.Optional[str]]:
        """Fold e; names with several plain definitions (one per branch) are tried one by one, conditional
        expressions branch by branch."""
        import copy as _copy
        ife = [x for x in ast.walk(e) if isinstance(x, ast.IfExp)]
        if ife and depth <= 3:
            outs: T.List[T.Optional[str]] = []
            for pick in ("body", "orelse"):
                class Pick(ast.NodeTransformer):
                    def visit_IfExp(self, node: ast.IfExp) -> ast.AST:
                        return self.visit(getattr(node, pick)) if unparse(node) == unparse(ife[0]) else self.generic_visit(node)
                outs += alternatives(Pick().visit(_copy.deepcopy(e)), depth + 1)
            return outs
        multi = []
        for x in ast.walk(e):
            if isinstance(x, ast.Name) and x.id not in env0 and x.id not in ipp.all_params:
                ds = [v_ for _s, v_ in shapes.local_defs(ipp, x.id) if v_ is not None]
                if ds and x.id not in multi:
                    multi.append(x.id)
        if not multi or depth > 3:
            try:
                return [prog.fold(ipp.module, e, dict(env0))]
            except AnalysisError:
                return [None]
        name = multi[0]
        out_: T.List[T.Optional[str]] = []
        import copy
        for _s, d in shapes.local_defs(ipp, name):
            if d is None:
                out_.append(None)
                continue

            class Sub(ast.NodeTransformer):
                def visit_Name(self, node: ast.Name) -> ast.AST:
                    return copy.deepcopy(d) if node.id == name else node
            out_ += alternatives(Sub().visit(copy.deepcopy(e)), depth + 1)
        return out_
    for v in subst:
        alts = alternatives(v)
        folded += alts
        shapes_ok = shapes_ok and all(t in ("(?P<F>P)", "(?P<F_0>P)") for t in alts)
    ok2 = shapes_ok and "(?P<F>P)" in folded
    ctx.check("R4", ok2, "_iter_part_patterns emits (?P<field>part_pattern)", "v2patterns._iter_part_patterns: named group shape changed", f"{folded}", loc=ipp.loc())
    # group names are unique: the field of every emitted group is recorded before the next group is named
    # (a pattern may use a field twice - YYYY and YY, {version} next to {pep440_version} - and re.compile refuses duplicate names)
    icfg = ctx.cfgs.get(ipp.fq)
    member = [n for n in walk_no_nested(ipp.node) if isinstance(n, (ast.If, ast.IfExp)) and isinstance(n.test, ast.Compare) and len(n.test.ops) == 1
              and isinstance(n.test.ops[0], (ast.In, ast.NotIn)) and unparse(n.test.left) == "field" and isinstance(n.test.comparators[0], ast.Name)]
    ctx.require(len(member) == 1, "_iter_part_patterns: the test that decides on a suffixed group name (`field in <seen>`) was not found")
    seen_var = unparse(member[0].test.comparators[0])
    recs = [n.id for n in icfg.nodes if n.kind == "stmt" and isinstance(n.ast, ast.Expr) and isinstance(n.ast.value, ast.Call) and isinstance(n.ast.value.func, ast.Attribute)
            and unparse(n.ast.value.func.value) == seen_var and n.ast.value.func.attr in ("add", "append") and [unparse(a) for a in n.ast.value.args] == ["field"]]
    yields = [n.id for n in icfg.nodes if n.ast is not None and n.kind == "stmt" and any(isinstance(x, ast.Yield) for x in ast.walk(n.ast))]
    ctx.require(len(yields) >= 1, "_iter_part_patterns: no yield")
    starts = [n.id for n in icfg.nodes if n.kind == "stmt" and isinstance(n.ast, ast.Assign) and unparse(n.ast.targets[0]) == "field"]
    ctx.require(len(starts) >= 1, "_iter_part_patterns: definition of `field` not found")
    # from one naming to the next: every path from a yield back to the next `field = ...` or forward from `field = ...` to the yield records the field
    unrecorded = any(y in icfg.reachable(start=st_, blocked_nodes=recs) for st_ in starts for y in yields) and \
        any(st_ in icfg.reachable(start=y, blocked_nodes=recs) for st_ in starts for y in yields)
    ctx.check("R4", bool(recs) and not unrecorded, f"_iter_part_patterns: every named field is recorded in `{seen_var}` between two namings (unique group names)",
              "v2patterns._iter_part_patterns: a field used twice gets the same group name twice",
              f"there is a path from `field = ...` to the yield and on to the next naming without `{seen_var}.add(field)`: re.compile raises 'redefinition of group name' for patterns "
              f"such as 'YYYY.BUILD-YY' or a file pattern with {{version}} and {{pep440_version}}", loc=ipp.loc(), witness={"pattern": "YYYY.BUILD-YY"})
    loop = [n for n in walk_no_nested(ipp.node) if isinstance(n, ast.For)]
    ctx.check("R4", len(loop) == 1 and unparse(loop[0].iter) == "PART_PATTERNS.items()", "_iter_part_patterns iterates all of PART_PATTERNS",
              "v2patterns._iter_part_patterns: not all parts are substituted", "", loc=ipp.loc())
    read_keys: T.Set[str] = set()
    for fq in ("v2version.parse_field_values_to_cinfo", "v2version.parse_field_values_to_vinfo"):
        f = prog.function(fq)
        ctx.visit(fq)
        for n in ast.walk(f.node):
            if isinstance(n, ast.Subscript) and const_str(n.slice):
                read_keys.add(const_str(n.slice))
            if isinstance(n, ast.Call):
                for a_ in n.args:
                    if const_str(a_):
                        read_keys.add(const_str(a_))
    for fld in sorted(set(fields.values())):
        ctx.check("R4", fld in read_keys, f"field '{fld}' is read back from the match groups", f"v2version: field '{fld}' is captured but never read back",
                  f"keys read: {sorted(read_keys)}", loc="src/bumpver/v2version.py")
    # the parsed values reach the V2VersionInfo constructor under their own name
    pv = prog.function("v2version.parse_field_values_to_vinfo")
    ctor = [c for c in ast.walk(pv.node) if isinstance(c, ast.Call) and unparse(c.func).endswith("V2VersionInfo")]
    ctx.require(len(ctor) == 1, "parse_field_values_to_vinfo: V2VersionInfo constructor call not found")
    kws = shapes.kwargs_of(ctor[0])
    # `**cinfo._asdict()` hands on every calendar field of the V2CalendarInfo under its own name
    cal_fields = set(prog.klass("version.V2CalendarInfo").fields)
    splat_src = [k.value.func.value for k in ctor[0].keywords if k.arg is None and isinstance(k.value, ast.Call) and isinstance(k.value.func, ast.Attribute) and k.value.func.attr == "_asdict"]
    splat_cal = any(isinstance(d_, ast.Call) and unparse(d_.func) == "parse_field_values_to_cinfo" for s_ in splat_src for d_ in [shapes.resolve_alias(pv, s_)])
    for fld in vinfo.fields:
        v = kws.get(fld)
        if v is None and splat_cal and fld in cal_fields:
            ctx.ok("R4", f"V2VersionInfo({fld}=...) receives the value parsed for '{fld}' (through **cinfo._asdict())")
            continue
        good = v is not None and (unparse(v) == fld or unparse(v) == f"cinfo.{fld}")
        ctx.check("R4", good, f"V2VersionInfo({fld}=...) receives the value parsed for '{fld}'", f"v2version.parse_field_values_to_vinfo: field '{fld}' is filled from another value",
                  f"{fld}={unparse(v) if v is not None else None}", loc=pv.loc(ctor[0]))

    # two-digit year parts render the last two digits of a four-digit year; read back they are four-digit years again
    from checks.c14 import two_digit_year_rule
    two_digit_year_rule(ctx, "R4")
    part_language_band_rule(ctx, "R2", "v2patterns", V2_PART_REF, V2_PART_REF_MAX)
    reader_fold_rule(ctx, "R4")
    part_occurrences_rule(ctx, "R4")
    bracket_loop_rule(ctx, "R3")
    guarded_date_args_rule(ctx, "R8", "v2version.parse_field_values_to_cinfo")
    nonempty_result_rule(ctx, "R8")
    parsed_quarter_rule(ctx, "R8", "v2version.parse_field_values_to_cinfo")
    int_reads_rule(ctx, "R4", "v2version.parse_field_values_to_cinfo", ("year_y", "year_g", "quarter", "month", "dom", "doy", "week_w", "week_u", "week_v"))

    # ---------------------------------------------------------------- R5
    defaults = _parse_defaults(ctx, pv)
    ctx.floor("R5", "zero-value parts", len(zero), 1)
    # completeness: a part whose field reads back as the integer 0 when its group is absent is a part that can be "all zero",
    # and so are the two tag parts (final / empty): each needs its entry, otherwise a group holding it is never omitted
    omittable = sorted({p for p, f in fields.items() if p in fmts and isinstance(defaults.get(f), int) and not isinstance(defaults.get(f), bool) and defaults.get(f) == 0}
                       | {p for p in ("TAG", "PYTAG") if p in fields})
    ctx.floor("R5", "parts whose absent group reads back as zero", len(omittable), 3)
    for p in omittable:
        ctx.check("R5", p in zero, f"part {p} (absent group reads back as zero) has a zero value",
                  f"version.PART_ZERO_VALUES lacks part '{p}'", f"a group such as `[.{p}]` is rendered even when {p} is zero: the rendering differs from the documented omission "
                  f"(and from what was read when the group was absent)", loc="src/bumpver/version.py", witness={"pattern": f"vYYYY[.{p}]" if p not in ("TAG", "PYTAG") else "MAJOR.MINOR[-TAG]"})
    for p, z in sorted(zero.items()):
        if p not in fields or p not in fmts:
            continue
        fld = fields[p]
        ctx.require(fld in defaults, f"no parse default recognised for field '{fld}'")
        d = defaults[fld]
        desc = formats.describe_formatter(fmts[p])
        rendered = desc.apply_int(d) if isinstance(d, int) else str(d)
        ctx.check("R5", rendered == z, f"part {p}: rendering the parse default {d!r} of '{fld}' gives the zero value {z!r}",
                  f"version.PART_ZERO_VALUES['{p}'] disagrees with the parser's default for field '{fld}'",
                  f"omitted group reads back as {d!r} which renders as {rendered!r}, but the part is omitted when it renders as {z!r}", loc="src/bumpver/version.py")

    # ---------------------------------------------------------------- R6
    t2p = prog.const("version", "PEP440_TAG_BY_TAG")
    p2t = prog.const("version", "TAG_BY_PEP440_TAG")
    for part, keys, name in (("TAG", set(t2p), "PEP440_TAG_BY_TAG"), ("PYTAG", set(p2t), "TAG_BY_PEP440_TAG")):
        lang, complete = rl.enumerate_language(rl.from_regex(pats[part]), max_len=12)
        ctx.require(complete, f"{part} regex not finite")
        ctx.check("R6", set(lang) <= keys, f"L({part}) ⊆ keys({name})", f"version.{name} lacks a tag that PART_PATTERNS['{part}'] recognises",
                  f"{sorted(set(lang) - keys)}", loc="src/bumpver/version.py")
    for p, t in sorted(p2t.items()):
        ctx.check("R6", t2p.get(t) == p, f"PEP440_TAG_BY_TAG[TAG_BY_PEP440_TAG[{p!r}]] == {p!r}", "version: tag maps do not invert each other",
                  f"{p!r} -> {t!r} -> {t2p.get(t)!r}", loc="src/bumpver/version.py")

    # ---------------------------------------------------------------- R7
    zero_fields = {f for f, (d, _p) in doms.items() if d[0] == "ints" and d[1] <= 0 <= d[2]}
    ctx.floor("R7", "calendar fields whose domain contains 0", len(zero_fields), 2)
    n_ctx = 0
    for fq in ("v2version.parse_field_values_to_cinfo", "v2version.parse_field_values_to_vinfo", "v2version.parse_version_info"):
        f = prog.function(fq)
        int_locals = set()
        for n in walk_no_nested(f.node):
            tgt = val = None
            if isinstance(n, ast.AnnAssign) and isinstance(n.target, ast.Name) and n.value is not None:
                tgt, val = n.target.id, n.value
            elif isinstance(n, ast.Assign) and len(n.targets) == 1 and isinstance(n.targets[0], ast.Name):
                tgt, val = n.targets[0].id, n.value
            if tgt and tgt in zero_fields and val is not None and any(isinstance(c, ast.Call) and unparse(c.func) == "int" for c in ast.walk(val)):
                int_locals.add(tgt)
        for ctxnode, operand in shapes.bool_contexts(f.node):
            name = None
            if isinstance(operand, ast.Name) and operand.id in int_locals:
                name = operand.id
            elif isinstance(operand, ast.Attribute) and operand.attr in zero_fields and isinstance(operand.value, ast.Name) and operand.value.id in ("vinfo", "cinfo", "old_vinfo", "cur_vinfo"):
                name = operand.attr
            if name is None:
                continue
            n_ctx += 1
            ctx.bad("R7", f"{fq}: integer field '{name}' (domain contains 0) is used in boolean context",
                    f"`{unparse(ctxnode)[:90]}` treats {name} == 0 as 'absent'; the part tables say 0 is a legal value "
                    f"(e.g. parse_version_info('0', 'WW').week_w becomes today's week, so '0' does not read back)",
                    loc=f.loc(ctxnode), witness={"version": "0", "pattern": "WW"}, what=f"{fq}: no truthiness test on {name}")
        ctx.ok("R7", f"{fq}: scanned boolean contexts for fields {sorted(zero_fields)}")

    # ---------------------------------------------------------------- R8
    omission_rule(ctx, "R8")
    from checks.c20 import _reader_range_rule
    _reader_range_rule(ctx, prog.function("v2version.parse_field_values_to_cinfo"), {f: d for f, (d, _p) in doms.items()}, "R8")


def omission_rule(ctx, rule: str) -> None:
    """v2version._format_segment_tree: a group is omitted iff all its *non-literal* segments are zero."""
    prog, cfgs = ctx.prog, ctx.cfgs
    from sa.boolfn import BF
    from sa.pathcond import PathCond
    fn = prog.function("v2version._format_segment_tree")
    ctx.visit(fn.fq)
    g = cfgs.get(fn.fq)
    # form (b): is_zero = all(s.is_zero for s in segs [if not s.is_literal])
    for n in walk_no_nested(fn.node):
        if isinstance(n, ast.Assign) and unparse(n.targets[0]) == "is_zero" and isinstance(n.value, ast.Call) and unparse(n.value.func) == "all" \
                and n.value.args and isinstance(n.value.args[0], ast.GeneratorExp):
            ge = n.value.args[0]
            var = unparse(ge.generators[0].target)
            filtered = any(unparse(c).replace(" ", "") in (f"not{var}.is_literal",) for c in ge.generators[0].ifs)
            ctx.check(rule, filtered and unparse(ge.elt) == f"{var}.is_zero", "_format_segment_tree: all-zero test over the non-literal segments",
                      "v2version._format_segment_tree: literal segments take part in the all-zero test (an optional group holding only literal text is never omitted)",
                      f"`{unparse(n)}`", loc=fn.loc(n), witness={"pattern": "vMAJOR.MINOR.PATCH[-TAG.NUM]", "pep440 of a final release": "1.4.0."})
            return
    pc = PathCond(g)
    upd = [n for n in g.nodes if n.kind == "stmt" and isinstance(n.ast, ast.Assign) and unparse(n.ast.targets[0]) == "is_zero" and isinstance(n.ast.value, ast.BoolOp)
           and n.id in g.reachable()]
    ctx.require(len(upd) == 1, "_format_segment_tree: accumulation of is_zero not recognised")
    v = upd[0].ast.value
    terms = sorted(unparse(x) for x in v.values)
    seg = [t for t in terms if t.endswith(".is_zero")]
    ctx.require(isinstance(v.op, ast.And) and "is_zero" in terms and len(seg) == 1, f"_format_segment_tree: is_zero update shape `{unparse(v)}`")
    segvar = seg[0][:-len(".is_zero")]
    lit = f"{segvar}.is_literal"
    r = pc.reach(upd[0].id).drop_unused()
    ctx.check(rule, lit in r.atoms and r.project([lit]).equiv(~BF.var(lit)), "_format_segment_tree: a segment contributes to the all-zero test iff it is not a literal",
              "v2version._format_segment_tree: literal segments are not excluded from the all-zero test", f"is_zero updated when {r.to_dnf()}", loc=fn.loc(upd[0].ast))
    inits = [n for n in walk_no_nested(fn.node) if isinstance(n, ast.Assign) and unparse(n.targets[0]) == "is_zero" and isinstance(n.value, ast.Constant)]
    ctx.check(rule, len(inits) == 1 and inits[0].value.value is True, "_format_segment_tree: is_zero starts True", "v2version._format_segment_tree: is_zero initial value changed", "", loc=fn.loc())
    res = shapes.single_def(fn, "result")
    if res is None:
        frets = [n for n in walk_no_nested(fn.node) if isinstance(n, ast.Return) and isinstance(n.value, ast.Call) and unparse(n.value.func) == "FormatedSeg"]
        if len(frets) == 1:
            fa = dict(zip(prog.klass("v2version.FormatedSeg").fields, frets[0].value.args))
            fa.update(shapes.kwargs_of(frets[0].value))
            res = fa.get("result")
    ok = isinstance(res, ast.IfExp) and unparse(res.test) == "is_zero" and isinstance(res.body, ast.Constant) and res.body.value == "" \
        and isinstance(res.orelse, ast.Call) and isinstance(res.orelse.func, ast.Attribute) and res.orelse.func.attr == "join" and const_str(res.orelse.func.value) == ""
    ctx.check(rule, ok, "_format_segment_tree: an all-zero group renders as the empty string, otherwise all its parts are joined", "v2version._format_segment_tree: omission result changed",
              unparse(res) if res is not None else "", loc=fn.loc())
    app = [c for c in ast.walk(fn.node) if isinstance(c, ast.Call) and unparse(c.func) == "result_parts.append"]
    gapp = [pc.reach(g.node_containing(c)) for c in app]
    tot = BF.false()
    for x in gapp:
        tot = tot | x
    ctx.check(rule, bool(app) and tot.drop_unused().project([lit] if lit in tot.atoms else []).is_true(), "_format_segment_tree: every segment's text is kept (literal or not)",
              "v2version._format_segment_tree: some segments are dropped from the rendering", "", loc=fn.loc())
    fs = prog.function("v2version._format_segment")
    ctx.visit(fs.fq)
    if format_segment_eval(ctx, rule):
        return
    fg = cfgs.get(fs.fq)
    from sa.pathcond import expr_atoms
    seg_fields = prog.klass("v2version.FormatedSeg").fields
    rets = [n for n in fg.nodes if n.kind == "stmt" and isinstance(n.ast, ast.Return) and isinstance(n.ast.value, ast.Call)
            and unparse(n.ast.value.func) == "FormatedSeg" and n.id in fg.reachable()]
    ctx.require(rets, "_format_segment: FormatedSeg returns not found")
    extra: T.List[str] = []
    parsed = []
    for n in rets:
        args = dict(zip(seg_fields, n.ast.value.args))
        args.update(shapes.kwargs_of(n.ast.value))
        ctx.require("is_literal" in args and "is_zero" in args, "_format_segment: FormatedSeg arguments not recognised")
        il, iz = shapes.inline(fs, args["is_literal"], prog, consts=False), shapes.inline(fs, args["is_zero"], prog, consts=False)
        extra += expr_atoms(il) + expr_atoms(iz)
        parsed.append((n, il, iz))
    fpc = PathCond(fg, extra_atoms=list(dict.fromkeys(extra)))
    LITF, ZEROF = BF.false(), BF.false()
    for n, il, iz in parsed:
        r = fpc.reach(n.id)
        bl, bz = fpc.expr_bf(il), fpc.expr_bf(iz)
        ctx.require(bl is not None and bz is not None, "_format_segment: return arguments are not boolean expressions over branch atoms")
        LITF = LITF | (r & bl)
        ZEROF = ZEROF | (r & bz)

    def cls(leaf: ast.AST) -> T.Tuple[str, bool]:
        t = unparse(leaf).replace(" ", "")
        if t in ("len(used_parts)==0",):
            return "LIT", True
        if t in ("used_parts", "len(used_parts)>0", "len(used_parts)"):
            return "LIT", False
        if t in ("zero_part_count>0",):
            return "ZPOS", True
        if t in ("zero_part_count==len(used_parts)", "len(used_parts)==zero_part_count"):
            return "ZALL", True
        raise AnalysisError(f"_format_segment: leaf not enumerated: {unparse(leaf)}")
    lit_s = shapes.semantic_bf(LITF, fs, cls, prog)
    zero_s = shapes.semantic_bf(ZEROF, fs, cls, prog)
    L, ZP, ZA = BF.var("LIT"), BF.var("ZPOS"), BF.var("ZALL")
    ctx.check(rule, lit_s.equiv(L) and zero_s.equiv(~L & ZP & ZA),
              "_format_segment: literal iff no part occurs; zero iff it has parts and every used part renders its zero value",
              "v2version._format_segment: classification of literal/zero segments changed", f"literal iff {lit_s.to_dnf()}; zero iff {zero_s.to_dnf()}", loc=fs.loc())


def format_segment_eval(ctx, rule: str) -> bool:
    """v2version._format_segment evaluated on segments with zero, one and two parts whose values are / are not the zero
    value: literal iff no part occurs in the segment, zero iff it has parts and every part that occurs renders its zero value.
    False when the function is outside what the evaluator handles (the structural rule decides then)."""
    from sa.model import CannotFold, EvalError
    prog = ctx.prog
    fs = prog.function("v2version._format_segment")
    fields = prog.klass("v2version.FormatedSeg").fields

    def ctor(f: T.Any, node: ast.Call) -> T.Dict[str, T.Any]:
        d = dict(zip(fields, [f(a) for a in node.args]))
        d.update({k.arg: f(k.value) for k in node.keywords if k.arg})
        return d

    def is_zero_val(f: T.Any, node: ast.Call) -> bool:
        vals = [f(a) for a in node.args] + [f(k.value) for k in node.keywords]
        return vals[1] == {"MINOR": "0", "PATCH": "0", "TAG": "final", "NUM": "0"}.get(vals[0], "<none>")
    cases = []
    for seg in ("lit-", ".MINOR", ".MINOR.PATCH", "-TAGNUM", "MAJOR"):
        for minor in ("0", "2"):
            for patch in ("0", "3"):
                for tag, num in (("final", "0"), ("rc", "0"), ("final", "1")):
                    cases.append((seg, [("MAJOR", "0"), ("MINOR", minor), ("PATCH", patch), ("TAG", tag), ("NUM", num)]))
    zero_of = {"MINOR": "0", "PATCH": "0", "TAG": "final", "NUM": "0"}
    wrong: T.List[str] = []
    n = 0
    try:
        for seg, pvs in cases:
            env = {fs.params[0]: seg, fs.params[1]: list(pvs), "__strict__": True, "__stubs__": {"FormatedSeg": ctor, "version.is_zero_val": is_zero_val}}
            try:
                got, _ys = prog.run_body(fs, env)
            except EvalError as ex:
                got = f"raises: {ex}"
            used = [(p_, v_) for p_, v_ in pvs if p_ in seg]
            want_lit = not used
            want_zero = bool(used) and all(zero_of.get(p_, "<none>") == v_ for p_, v_ in used)
            n += 1
            if not isinstance(got, dict) or bool(got.get("is_literal")) != want_lit or bool(got.get("is_zero")) != want_zero:
                if len(wrong) < 3:
                    wrong.append(f"segment {seg!r} with {dict(used)}: {got if not isinstance(got, dict) else (got.get('is_literal'), got.get('is_zero'))}, expected (literal, zero) = {(want_lit, want_zero)}")
    except (CannotFold, TypeError, AttributeError, KeyError, ValueError, IndexError) as ex:
        ctx.observe(f"v2version._format_segment not evaluated ({type(ex).__name__}: {str(ex)[:80]})")
        return False
    ctx.check(rule, not wrong, f"_format_segment: literal iff no part occurs; zero iff it has parts and every used part renders its zero value ({n} segments evaluated)",
              "v2version._format_segment: classification of literal/zero segments changed", "; ".join(wrong), loc=fs.loc())
    return True


def _parse_defaults(ctx, pv) -> T.Dict[str, T.Any]:
    """Defaults the parser gives to an absent group:  X = int(fvals.get('k') or C) | fvals.get('k') or "" | ... """
    folded = fold_reader(ctx, {})
    if folded is not None and all(f_ in folded for f_ in NON_CAL_FIELDS):
        return dict(folded)
    out: T.Dict[str, T.Any] = {}
    for n in walk_no_nested(pv.node):
        if not (isinstance(n, ast.Assign) and len(n.targets) == 1 and isinstance(n.targets[0], ast.Name)):
            continue
        name, v = n.targets[0].id, n.value
        is_int = False
        if isinstance(v, ast.Call) and unparse(v.func) == "int" and v.args:
            v, is_int = v.args[0], True
        if isinstance(v, ast.BoolOp) and isinstance(v.op, ast.Or) and len(v.values) == 2 and isinstance(v.values[1], ast.Constant):
            g = v.values[0]
            if isinstance(g, ast.Call) and isinstance(g.func, ast.Attribute) and g.func.attr == "get" and g.args and const_str(g.args[0]):
                out[const_str(g.args[0])] = int(v.values[1].value) if is_int else v.values[1].value
        elif isinstance(v, ast.IfExp) and isinstance(v.orelse, ast.Constant) and isinstance(v.body, ast.Subscript) and const_str(v.body.slice):
            out[const_str(v.body.slice)] = v.orelse.value
    # `if not tag: tag = "final"`
    for n in walk_no_nested(pv.node):
        if isinstance(n, ast.If) and isinstance(n.test, ast.UnaryOp) and isinstance(n.test.op, ast.Not) and isinstance(n.test.operand, ast.Name):
            nm = n.test.operand.id
            if len(n.body) == 1 and isinstance(n.body[0], ast.Assign) and unparse(n.body[0].targets[0]) == nm and isinstance(n.body[0].value, ast.Constant):
                if nm in out and not out[nm]:
                    out[nm] = n.body[0].value.value
    return out


def reader_fold_rule(ctx, rule: str) -> None:
    """The non-calendar fields of a parsed version are the captured texts: the reader's body is folded for sample group
    dicts (value present / group unmatched (None) / group absent; every combination of TAG and PYTAG) and each constructor
    argument must be the captured value (int for numeric fields), the other tag form through the tag maps, or the default."""
    import types
    from sa.model import CannotFold
    prog = ctx.prog
    pv = prog.function("v2version.parse_field_values_to_vinfo")
    body = [st for st in pv.node.body if not (isinstance(st, ast.Expr) and isinstance(st.value, ast.Constant))]
    if not body or not isinstance(body[-1], ast.Return) or not isinstance(body[-1].value, ast.Call):
        ctx.observe("parse_field_values_to_vinfo: not a straight-line reader ending in the constructor call; value flow of the non-calendar fields not folded")
        return
    kws = shapes.kwargs_of(body[-1].value)
    t2p = prog.const("version", "PEP440_TAG_BY_TAG")
    p2t = prog.const("version", "TAG_BY_PEP440_TAG")
    param = pv.params[0]
    ints = {"major": 0, "minor": 0, "patch": 0, "num": 0, "inc0": 0, "inc1": 1}
    strs = {"githash": ("gabc123", ""), "hexhash": ("0xab12", ""), "bid": ("1007", "1000")}
    ABSENT = object()

    def run_case(groups: T.Dict[str, T.Any]) -> T.Optional[T.Dict[str, T.Any]]:
        return fold_reader(ctx, groups)
    cases: T.List[T.Tuple[T.Dict[str, T.Any], T.Dict[str, T.Any]]] = []
    for f_, dflt in ints.items():
        cases.append(({f_: "7", "bid": "1001"}, {f_: 7}))
        cases.append(({f_: "0", "bid": "1001"}, {f_: 0}))
        cases.append(({f_: None, "bid": "1001"}, {f_: dflt}))
        cases.append(({"bid": "1001"}, {f_: dflt}))
    for f_, (sample, dflt) in strs.items():
        cases.append(({f_: sample}, {f_: sample}))
        if f_ != "bid":
            cases.append(({f_: None}, {f_: dflt}))
        cases.append(({}, {f_: dflt}))
    tag_samples = [ABSENT, None] + sorted(set(t2p) - {"final"})
    py_samples = [ABSENT, None] + sorted(p2t)
    for tg in tag_samples:
        for py in py_samples:
            g: T.Dict[str, T.Any] = {"bid": "1001"}
            if tg is not ABSENT:
                g["tag"] = tg
            if py is not ABSENT:
                g["pytag"] = py
            tg_v = tg if isinstance(tg, str) else ""
            py_v = py if isinstance(py, str) else ""
            want_tag = tg_v or (p2t[py_v] if py_v else "final")
            want_py = py_v or (t2p[tg_v] if tg_v else "")
            cases.append((g, {"tag": want_tag, "pytag": want_py}))
    # a field that the pattern uses twice arrives under a suffixed group name as well (year_y_1, major_1): accepted, ignored
    cases.append(({"major": "7", "major_1": "7", "bid": "1001", "year_y_2": "2021"}, {"major": 7}))
    n_folded = 0
    bad: T.List[str] = []
    for groups, want in cases:
        got = run_case(groups)
        if got is None:
            continue
        n_folded += 1
        if "__raises__" in got:
            bad.append(f"groups {groups}: {got['__raises__']}")
            continue
        for k, v in want.items():
            if k in got and (got[k] != v or type(got[k]) is not type(v)):
                bad.append(f"groups {groups} -> {k}={got[k]!r}, expected {v!r}")
    if n_folded < len(cases):
        ctx.observe(f"parse_field_values_to_vinfo: {len(cases) - n_folded} of {len(cases)} sample group dicts could not be folded (shape); decided on the rest")
    ctx.floor(rule, f"of {len(cases)} reader sample group dicts folded (informational; unfolded samples fall back to the structural rules)", n_folded, 0)
    if n_folded == 0:
        return
    ctx.check(rule, not bad, f"parse_field_values_to_vinfo: non-calendar fields are the captured texts / their defaults ({n_folded} sample group dicts folded)",
              "v2version.parse_field_values_to_vinfo: a captured non-calendar value is not what the reader returns",
              "; ".join(bad[:3]), loc=pv.loc(), witness={"cases": bad[:5]})


NON_CAL_FIELDS = ("major", "minor", "patch", "num", "inc0", "inc1", "githash", "hexhash", "bid", "tag", "pytag")


def fold_reader(ctx, groups: T.Dict[str, T.Any]) -> T.Optional[T.Dict[str, T.Any]]:
    """The non-calendar constructor arguments of v2version.parse_field_values_to_vinfo for the given match groups, by
    folding its body (the calendar reader is abstracted); None if the body cannot be folded."""
    import types
    from sa.model import CannotFold
    prog = ctx.prog
    pv = prog.function("v2version.parse_field_values_to_vinfo")
    body = [st for st in pv.node.body if not (isinstance(st, ast.Expr) and isinstance(st.value, ast.Constant))]
    if not body or not isinstance(body[-1], ast.Return) or not isinstance(body[-1].value, ast.Call):
        return None
    kws = shapes.kwargs_of(body[-1].value)
    from sa.model import EvalError
    env: T.Dict[str, T.Any] = {pv.params[0]: dict(groups), "__strict__": True, "__stubs__": {"parse_field_values_to_cinfo": lambda f, node: types.SimpleNamespace(
        **{k: f"cal:{k}" for k in ("year_y", "year_g", "quarter", "month", "dom", "doy", "week_w", "week_u", "week_v")})}}
    try:
        prog._propagate(pv.module, body[:-1], env, pv.fq)
        return {k: prog.fold(pv.module, v, env) for k, v in kws.items() if k in NON_CAL_FIELDS}
    except EvalError as ex:
        return {"__raises__": str(ex)}
    except (CannotFold, KeyError, TypeError, ValueError, AttributeError, IndexError):
        return None


def part_occurrences_rule(ctx, rule: str) -> None:
    """_iter_part_patterns evaluated on three patterns (a part used twice, a field used by two parts, nested brackets):
    every occurrence of every part name is yielded exactly once with the part's own regex, and no two groups share a name."""
    import re as _re
    from sa.model import CannotFold, EvalError
    prog = ctx.prog
    ipp = prog.function("v2patterns._iter_part_patterns")
    pats = prog.const("v2patterns", "PART_PATTERNS")
    wrong: T.List[str] = []
    n = 0
    try:
        for pattern in ("vYYYY.BUILD-YYYY", "YYYY0M.BUILD[-TAG]YY", "MAJOR.MINOR[.PATCH[-TAGNUM]]"):
            try:
                _ret, ys = prog.run_body(ipp, {ipp.params[0]: pattern, "__strict__": True})
            except EvalError as ex:
                wrong.append(f"{pattern!r}: {ex}")
                continue
            n += 1
            want_spans = set()
            for name in pats:
                i = pattern.find(name)
                while i >= 0:
                    want_spans.add((i, i + len(name), name))
                    i = pattern.find(name, i + len(name))
            got_spans = set()
            names: T.List[str] = []
            for y in ys:
                (_k, (st, en, grp)) = y
                m = _re.match(r"\(\?P<(\w+)>(.*)\)$", grp, _re.S)
                part = pattern[st:en]
                if not m or part not in pats or m.group(2) != pats[part]:
                    wrong.append(f"{pattern!r}: occurrence {pattern[st:en]!r}@{st} gets {grp[:40]!r}")
                    continue
                names.append(m.group(1))
                got_spans.add((st, en, part))
            if got_spans != want_spans:
                wrong.append(f"{pattern!r}: occurrences {sorted(want_spans - got_spans)} get no group, {sorted(got_spans - want_spans)} are not occurrences")
            if len(names) != len(set(names)):
                wrong.append(f"{pattern!r}: group names {sorted(x for x in names if names.count(x) > 1)} are used twice")
    except (CannotFold, TypeError, AttributeError, KeyError, ValueError, IndexError) as ex:
        ctx.observe(f"_iter_part_patterns not evaluated ({type(ex).__name__}: {str(ex)[:80]})")
        return
    ctx.check(rule, not wrong, f"_iter_part_patterns: every occurrence of every part gets its own uniquely named group ({n} patterns evaluated)",
              "v2patterns._iter_part_patterns: an occurrence of a part gets no group / a group name is used twice", "; ".join(wrong[:2]), loc=ipp.loc(), witness={"cases": wrong[:3]})


def bracket_loop_rule(ctx, rule: str) -> None:
    """_replace_pattern_parts rewrites `[` / `]` until a round substitutes nothing: the guard that ends the loop is folded
    over (opening, closing) substitution counts {0, 1, 2}^2 and must hold exactly for (0, 0)."""
    from sa.model import CannotFold
    prog = ctx.prog
    rpp = prog.function("v2patterns._replace_pattern_parts")
    loops = [n for n in walk_no_nested(rpp.node) if isinstance(n, ast.While)]
    if len(loops) != 1:
        ctx.observe("_replace_pattern_parts: bracket loop is not a single while loop; its termination is not decided")
        return
    lp = loops[0]
    counts = [tg.elts[1].id for st, tg, v in shapes.iter_assigns(lp) if isinstance(tg, ast.Tuple) and len(tg.elts) == 2 and isinstance(tg.elts[1], ast.Name)
              and isinstance(v, ast.Call) and unparse(v.func) == "re.subn"]
    brk = [n for n in ast.walk(lp) if isinstance(n, ast.If) and any(isinstance(b, ast.Break) for b in n.body)]
    if len(counts) != 2 or len(brk) != 1:
        ctx.observe("_replace_pattern_parts: bracket loop shape not recognised (two re.subn counts, one `if ...: break`)")
        return
    wrong = []
    try:
        for a in (0, 1, 2):
            for b in (0, 1, 2):
                got = bool(prog.fold(rpp.module, brk[0].test, {counts[0]: a, counts[1]: b}))
                if got != (a == 0 and b == 0):
                    wrong.append(f"{a} `[` and {b} `]` rewritten in a round -> loop {'ends' if got else 'goes on'}")
    except CannotFold:
        ctx.observe("_replace_pattern_parts: loop guard not foldable")
        return
    ctx.check(rule, not wrong, "_replace_pattern_parts: the bracket loop ends exactly when a round rewrote nothing (9 count pairs folded)",
              "v2patterns._replace_pattern_parts: the bracket rewriting loop ends too early (or never)", f"`{unparse(brk[0].test)}`: {'; '.join(wrong[:3])} - nested `[[` / `]]` keep raw brackets "
              "and the pattern does not compile", loc=rpp.loc(brk[0]), witness={"pattern": "MAJOR[[.MINOR].PATCH[-TAG]]"})


def guarded_date_args_rule(ctx, rule: str, fq: str) -> None:
    """Calls that build a date from parsed fields (`dt.date(y, m, d)`, `date_from_doy(y, doy)`) run only when every
    argument was parsed: the path condition of the call implies each argument (a pattern may have a day of year and no year)."""
    prog = ctx.prog
    fn = prog.function(fq)
    cfg = ctx.cfgs.get(fq)
    pc = PathCond(cfg, max_atoms=24)
    n_calls = 0
    for n in cfg.nodes:
        if n.ast is None or n.id not in cfg.reachable() or n.kind not in ("stmt",):
            continue
        for c in ast.walk(n.ast):
            if isinstance(c, ast.Call) and unparse(c.func) in ("dt.date", "datetime.date", "version.date_from_doy", "date_from_doy") and all(isinstance(a, ast.Name) for a in c.args) and c.args:
                n_calls += 1
                r = pc.reach(n.id)
                missing = [a.id for a in c.args if not (a.id in r.atoms and r.implies(BF.var(a.id))) and not (f"{a.id} is None" in r.atoms and r.implies(~BF.var(f"{a.id} is None")))]
                ctx.check(rule, not missing, f"{fq} L{c.lineno}: `{unparse(c)}` only when all of its arguments were parsed", f"{fq}: a date is built from a field that was not parsed",
                          f"`{unparse(c)}` is reached when {r.drop_unused().to_dnf()}: {missing} can be None (TypeError) - e.g. a pattern with a day of year but no calendar year",
                          loc=fn.loc(c), witness={"pattern": "JJJ.BUILD"})
    ctx.floor(rule, f"date constructions from parsed fields in {fq}", n_calls, 2)


def nonempty_result_rule(ctx, rule: str) -> None:
    """v2version.incr announces a version only when the rendered text is not empty (a pattern of optional groups only) and
    differs from the old one: the path condition of `return new_version` excludes both."""
    prog = ctx.prog
    inc = prog.function("v2version.incr")
    cfg = ctx.cfgs.get(inc.fq)
    pc = PathCond(cfg, max_atoms=24)
    rets = [n for n in cfg.nodes if n.kind == "stmt" and isinstance(n.ast, ast.Return) and n.ast.value is not None and not (isinstance(n.ast.value, ast.Constant) and n.ast.value.value is None)
            and n.id in cfg.reachable()]
    ctx.floor(rule, "version-returning exits of v2version.incr", len(rets), 1)
    for n in rets:
        v = unparse(n.ast.value)
        r = pc.reach(n.id)
        empties = [a for a in r.atoms if a.replace('"', "'") in (f"{v} == ''", f"not {v}", v, f"len({v}) == 0")]
        ok = False
        for a in empties:
            if a == v:
                ok = ok or r.implies(BF.var(a))
            else:
                ok = ok or r.implies(~BF.var(a))
        ctx.check(rule, ok, f"v2version.incr: `return {v}` only for a non-empty rendering", "v2version.incr: an empty version can be announced",
                  f"`return {v}` is reached when {r.drop_unused().to_dnf()}: with a pattern of optional groups only (`[MAJOR][-TAG]`) the empty text is returned as the new version, "
                  "written to the files and the next run cannot read it", loc=inc.loc(n.ast), witness={"pattern": "[MAJOR][-TAG]", "version": "-beta", "flags": "--tag final"})


def parsed_quarter_rule(ctx, rule: str, fq: str) -> None:
    """A quarter that was parsed from the version text is kept: `quarter = quarter_from_month(month)` is reached only when
    no quarter was parsed (`quarter is None`)."""
    prog = ctx.prog
    fn = prog.function(fq)
    cfg = ctx.cfgs.get(fq)
    pc = PathCond(cfg, extra_atoms=["quarter is None"], only=lambda t: t in ("quarter is None", "quarter"), max_atoms=4)
    sites = [n for n in cfg.nodes if n.kind == "stmt" and isinstance(n.ast, ast.Assign) and unparse(n.ast.targets[0]) == "quarter" and isinstance(n.ast.value, ast.Call)
             and unparse(n.ast.value.func).endswith("quarter_from_month") and n.id in cfg.reachable()]
    ctx.floor(rule, f"derived-quarter assignments in {fq}", len(sites), 1)
    for n in sites:
        r = pc.reach(n.id)
        ok = ("quarter is None" in r.atoms and r.implies(BF.var("quarter is None"))) or ("quarter" in r.atoms and r.implies(~BF.var("quarter")))
        ctx.check(rule, ok, f"{fq}: the quarter is derived from the month only when none was parsed", f"{fq}: a parsed quarter is overwritten by the quarter of the month",
                  f"`{unparse(n.ast)}` is reached when {r.drop_unused().to_dnf() if r.atoms else 'always'}: the version's own quarter does not read back (and --pin-date does not keep it)",
                  loc=fn.loc(n.ast), witness={"version": "2021.1.12.1001", "pattern": "YYYY.Q.MM.BUILD", "flag": "--pin-date"})


# The documented shape of every part (the pinned recognisers).  A recogniser may not accept more than REF_MAX (a text that is
# accepted but cannot be rendered - `0123` for YYYY - does not read back, and a tag of that shape is taken for a version) and
# not less than REF_MIN.  The two differ where the pinned tree is known to be too narrow (week 53, see known findings) or too
# wide (\d in the legacy table also matches non-ASCII digits): a repair inside the band is not a finding.
V2_PART_REF = {
    'YYYY': '[1-9][0-9]{3}', 'YY': '[1-9][0-9]?', '0Y': '[0-9]{2}', 'GGGG': '[1-9][0-9]{3}', 'GG': '[1-9][0-9]?', '0G': '[0-9]{2}', 'Q': '[1-4]',
    'MM': '1[0-2]|[1-9]', '0M': '1[0-2]|0[1-9]', 'DD': '3[0-1]|[1-2][0-9]|[1-9]', '0D': '3[0-1]|[1-2][0-9]|0[1-9]',
    'JJJ': '36[0-6]|3[0-5][0-9]|[1-2][0-9][0-9]|[1-9][0-9]|[1-9]', '00J': '36[0-6]|3[0-5][0-9]|[1-2][0-9][0-9]|0[1-9][0-9]|00[1-9]',
    'WW': '5[0-2]|[1-4][0-9]|[0-9]', '0W': '5[0-2]|[0-4][0-9]', 'UU': '5[0-2]|[1-4][0-9]|[0-9]', '0U': '5[0-2]|[0-4][0-9]',
    'VV': '5[0-3]|[1-4][0-9]|[1-9]', '0V': '5[0-3]|[1-4][0-9]|0[1-9]', 'MAJOR': '[0-9]+', 'MINOR': '[0-9]+', 'PATCH': '[0-9]+', 'BUILD': '[0-9]+',
    'BLD': '[1-9][0-9]*', 'TAG': 'preview|final|dev|alpha|beta|post|rc', 'PYTAG': 'dev|post|rc|a|b', 'GITHASH': '\\.[0-9]+\\+.*', 'HEXHASH': '[0-9a-f]+',
    'NUM': '[0-9]+', 'INC0': '[0-9]+', 'INC1': '[1-9][0-9]*',
}
V2_PART_REF_MAX = dict(V2_PART_REF, WW='5[0-3]|[1-4][0-9]|[0-9]', UU='5[0-3]|[1-4][0-9]|[0-9]', **{'0W': '5[0-3]|[0-4][0-9]', '0U': '5[0-3]|[0-4][0-9]'})


def part_language_band_rule(ctx, rule: str, modname: str, ref_min: T.Dict[str, str], ref_max: T.Dict[str, str], min_flags: int = 0) -> None:
    """For every part of the pinned table: L(ref_min[p]) is a subset of L(PART_PATTERNS[p]), which is a subset of L(ref_max[p])
    (DFA inclusion both ways; the spelling of the regex is free)."""
    prog = ctx.prog
    pats = prog.const(modname, "PART_PATTERNS")
    n = 0
    for part in sorted(ref_min):
        if part not in pats:
            continue          # a vanished part is the table rules' business
        try:
            cur = rl.from_regex(pats[part])
            lo, hi = rl.from_regex(ref_min[part], min_flags), rl.from_regex(ref_max[part])
        except rl.UnsupportedRegex as ex:
            ctx.observe(f"{modname}.PART_PATTERNS[{part!r}]: not converted to an automaton ({ex})")
            continue
        n += 1
        too_wide = rl.included(cur, hi)
        too_narrow = rl.included(lo, cur)
        ctx.check(rule, too_wide is None, f"{modname} part {part}: recognises nothing beyond its documented shape",
                  f"{modname}.PART_PATTERNS[{part!r}] accepts text outside the part's documented shape",
                  f"`{pats[part]}` accepts {too_wide!r}: such a text is taken for a version (a tag, a file occurrence) although no bump renders it, and it does not read back byte for byte",
                  loc=f"src/bumpver/{modname}.py", witness={"part": part, "text": too_wide})
        ctx.check(rule, too_narrow is None, f"{modname} part {part}: recognises its whole documented shape",
                  f"{modname}.PART_PATTERNS[{part!r}] no longer accepts a text of the part's documented shape",
                  f"`{pats[part]}` rejects {too_narrow!r}", loc=f"src/bumpver/{modname}.py", witness={"part": part, "text": too_narrow})
    ctx.floor(rule, f"{modname} parts compared with their documented shape", n, min(len(ref_min), 25))


def int_reads_rule(ctx, rule: str, fq: str, keys: T.Iterable[str], var: str = "fvals") -> None:
    """Every read of a numeric match group (`fvals['quarter']`, `fvals.get('major')`) in the reader `fq` is converted with
    int(...) before it is stored: the fields are compared, added to and formatted as numbers."""
    prog = ctx.prog
    fn = prog.function(fq)
    keys = set(keys)
    parents: T.Dict[int, ast.AST] = {}
    for n in ast.walk(fn.node):
        for c in ast.iter_child_nodes(n):
            parents[id(c)] = n
    n_reads = 0
    for n in ast.walk(fn.node):
        key = None
        if isinstance(n, ast.Subscript) and isinstance(n.ctx, ast.Load) and const_str(n.slice) in keys and isinstance(n.value, ast.Name):
            key = const_str(n.slice)
        elif isinstance(n, ast.Call) and isinstance(n.func, ast.Attribute) and n.func.attr == "get" and n.args and const_str(n.args[0]) in keys and isinstance(n.func.value, ast.Name):
            key = const_str(n.args[0])
        if key is None:
            continue
        n_reads += 1
        p = parents.get(id(n))
        conv = False
        while p is not None and not isinstance(p, ast.stmt):
            if isinstance(p, ast.Call) and unparse(p.func) == "int":
                conv = True
                break
            if isinstance(p, (ast.Compare,)):          # a membership / None test of the raw group, not a stored value
                conv = True
                break
            p = parents.get(id(p))
        if not conv and isinstance(p, (ast.Assign, ast.AnnAssign)) and getattr(p, "value", None) is n:
            # bound to a local first (`year_str = fvals.get('year_y')`): converted where the local is used
            tg = p.targets[0] if isinstance(p, ast.Assign) and len(p.targets) == 1 else getattr(p, "target", None)
            if isinstance(tg, ast.Name):
                conv = any(isinstance(c, ast.Call) and unparse(c.func) == "int" and c.args and any(isinstance(x, ast.Name) and x.id == tg.id for x in ast.walk(c.args[0])) for c in ast.walk(fn.node))
        ctx.check(rule, conv, f"{fq}: group '{key}' is read through int()", f"{fq}: the numeric group '{key}' is stored as text",
                  f"`{unparse(n)}` is not wrapped in int(...): the field is later compared with / added to numbers (TypeError) or compared as text", loc=fn.loc(n), witness={"group": key})
    ctx.floor(rule, f"numeric group reads in {fq}", n_reads, 5)
