"""C10 - VCS steps run only as configured, in order, and stop at the first failure."""
from __future__ import annotations

import ast
import typing as T

from sa import shapes
from sa.boolfn import BF
from sa.model import AnalysisError, call_arg, const_str, unparse, walk_no_nested
from sa.pathcond import PathCond, SEP

TECHNIQUE = "interprocedural path-condition extraction per step site, compared with the specification formula by truth-table equivalence (exhaustive over the atom product); CFG ordering rule; handler-outcome analysis; wiring checks"
EXPLANATION = (
    "The property quantifies over the full product of config x tri-state flags x hooks x dirty state x --dry (77,760 rows).  "
    "The code decides each step by a handful of boolean atoms, so for every step site (dirty check, file write, pre-hook, "
    "stage, commit, post-hook, tag, push-with-tag, push) the check extracts its exact interprocedural path condition from "
    "cli._update down to the VCSAPI call (including the conditions under which assert_not_dirty and hooks.run return "
    "normally, and the lemma `vcs_api truthy => cfg.commit`, which the dataflow derives itself) and proves it equivalent, "
    "as a truth table over all atoms, to the specification formula: exhaustive over the whole product, for git and hg alike.  "
    "Further: (R1) no CFG path runs a later step before an earlier one; (R3) commands are run through a raising API, no "
    "handler swallows a failed step, hooks.run returns only on exit status 0; (R4) nothing mutating is reachable under --dry; "
    "(R5) every fetch is gated by the --fetch option; (R6) hooks get BUMPVER_OLD_VERSION/BUMPVER_NEW_VERSION; (R7) "
    "contradictory flag/config combinations raise before anything happens; (R8) git/hg command tables agree."
)
LEVEL_NOTE = "Not decided: what git/hg do with the commands. Trusted: subprocess.check_output raises on non-zero exit."

IMPORT_EXIT = ("vcs.assert_not_dirty", "hooks.run")
STEPS = ["dirty-check", "rewrite", "pre-hook", "stage", "commit", "post-hook", "tag", "push"]


def _step_of_site(site) -> T.Optional[str]:
    e = site.effect
    if e == "VCS_READ:status":
        return "dirty-check"
    if e == "FS_WRITE" and site.fn.module.name in ("v1rewrite", "v2rewrite") and site.detail.get("via") == "open":
        return "rewrite"
    if e == "HOOK":
        arg = unparse(site.node.args[0]) if site.node.args else ""
        if "pre_commit_hook" in arg:
            return "pre-hook"
        if "post_commit_hook" in arg:
            return "post-hook"
        return "hook?"
    if e == "VCS_MUTATE:add_path":
        return "stage"
    if e == "VCS_MUTATE:commit":
        return "commit"
    if e in ("VCS_MUTATE:tag", "VCS_MUTATE:tag_light"):
        return "tag"
    if e == "VCS_MUTATE:push_tag":
        return "push_tag"
    if e == "VCS_MUTATE:push":
        return "push_plain"
    return None


def vcs_handle_implies_commit(ctx, root: str = "cli._update") -> bool:
    """Every non-None assignment of the VCS handle in _update happens under cfg.commit."""
    cfgs = ctx.cfgs
    rcfg = cfgs.get(root)
    rpc = PathCond(rcfg)
    v_assigns = [n for n in rcfg.nodes if n.kind == "stmt" and isinstance(n.ast, (ast.Assign, ast.AnnAssign)) and n.id in rcfg.reachable()
                 and any(unparse(t) == "vcs_api" for t in (n.ast.targets if isinstance(n.ast, ast.Assign) else [n.ast.target]))
                 and n.ast.value is not None and not (isinstance(n.ast.value, ast.Constant) and n.ast.value.value is None)]
    ctx.require(v_assigns, "cli._update: no assignment of the VCS handle found")
    return all("cfg.commit" in rpc.reach(n.id).atoms and rpc.reach(n.id).implies(BF.var("cfg.commit")) for n in v_assigns)


# the VCS verb each command name stands for (second word of the template)
VCS_VERBS = {
    "git": {"is_usable": "rev-parse", "fetch": "fetch", "ls_tags": "tag", "ls_tags_branch": "tag", "status": "status", "add_path": "add", "commit": "commit", "tag": "tag",
            "tag_light": "tag", "push_tag": "push", "push": "push", "show_remotes": ("config", "remote"), "ls_branches": "branch"},
    "hg": {"is_usable": "root", "fetch": "pull", "ls_tags": "tags", "ls_tags_branch": "log", "status": "status", "add_path": "add", "commit": "commit", "tag": "tag",
           "tag_light": "tag", "push_tag": "push", "push": "push", "show_remotes": "paths"},
}


# What a command must be handed to do what its step stands for (the values are filled in by VCSAPI.__call__ from the keyword
# arguments of the call site; a placeholder that the template lacks is dropped without a trace).
VCS_PLACEHOLDERS = {
    "git": {"add_path": ("{path}",), "commit": ("{message}",), "tag": ("{tag}", "{message}"), "tag_light": ("{tag}",), "push_tag": ("{remote}", "{tag}"), "push": ("{remote}",)},
    "hg": {"add_path": ("{path}",), "commit": ("{path}",), "tag": ("{tag}", "{message}"), "tag_light": ("{tag}",), "push_tag": ("{tag}",)},
}


def command_placeholders_rule(ctx, rule: str) -> None:
    """Each mutating command template names the values its step is about: the path to stage, the message (file) to commit,
    the tag to create and to push, the remote to push to; `git config --get` asks for a key."""
    import shlex as _shlex
    prog = ctx.prog
    table = prog.const("vcs", "VCS_SUBCOMMANDS_BY_NAME")
    n = 0
    for vcs_name, need in VCS_PLACEHOLDERS.items():
        for key, phs in sorted(need.items()):
            tmpl = table.get(vcs_name, {}).get(key)
            if tmpl is None:
                continue
            n += 1
            missing = [ph for ph in phs if ph not in tmpl]
            ctx.check(rule, not missing, f"{vcs_name} '{key}' names {', '.join(phs)}",
                      f"vcs.VCS_SUBCOMMANDS_BY_NAME['{vcs_name}']['{key}'] does not use a value its step is about",
                      f"`{tmpl}` lacks {missing}: the value is passed by the call site and dropped - the command acts on something else (git reads the next word as the remote / pushes no tag / "
                      f"stages nothing)", loc="src/bumpver/vcs.py", witness={"vcs": vcs_name, "command": key, "missing": missing})
    ctx.floor(rule, "command templates with required placeholders", n, 11)
    tmpl = table.get("git", {}).get("show_remotes", "")
    try:
        toks = _shlex.split(tmpl)
    except ValueError:
        toks = tmpl.split()
    if len(toks) >= 2 and toks[1] == "config":
        has_key = any(not t_.startswith("-") for t_ in toks[2:])
        ctx.check(rule, has_key, "git 'show_remotes': `git config --get` is asked for a key", "vcs.VCS_SUBCOMMANDS_BY_NAME['git']['show_remotes'] asks `git config` for no key",
                  f"`{tmpl}` fails, get_remote() answers None and an enabled push is silently skipped", loc="src/bumpver/vcs.py", witness={"command": tmpl})


def command_options_rule(ctx, rule: str, which: str) -> None:
    """Options of two git commands on which other steps rely.
    status: the porcelain listing is read as "every line that is not `??` is a change to a tracked file, every `??` line an
    untracked file" - an option that adds other line kinds (`--ignored`: `!!` lines) or hides untracked files (`-uno`) changes
    what the dirty check decides.
    add_path: `git add --update <path>` stages a tracked file and is a no-op otherwise; without `--update` it fails on a
    configured file that git ignores (after the files were rewritten - `--dry` had exited 0) and adds untracked ones."""
    import shlex as _shlex
    tmpl = ctx.prog.const("vcs", "VCS_SUBCOMMANDS_BY_NAME").get("git", {}).get(which)
    if tmpl is None:
        return
    try:
        toks = _shlex.split(tmpl.replace("{", "<").replace("}", ">"))
    except ValueError:
        toks = tmpl.split()
    if which == "status":
        bad = [t_ for t_ in toks[2:] if t_.startswith("--ignored") or t_ in ("-uno", "--untracked-files=no") or t_.startswith("--ignore-submodules")]
        ctx.check(rule, not bad, "git 'status': the listing holds changed tracked files and untracked files, nothing else and nothing less",
                  "vcs.VCS_SUBCOMMANDS_BY_NAME['git']['status'] lists other entries than changed and untracked files",
                  f"`{tmpl}`: {bad} - ignored files are reported as `!!` lines, which VCSAPI.status reads as changes to tracked files (any ignored build artefact blocks the update); "
                  f"hidden untracked files let an untracked pattern file through", loc="src/bumpver/vcs.py", witness={"command": tmpl, ".gitignore": "*.log"})
    elif which == "add_path":
        ok = any(t_ in ("--update", "-u") for t_ in toks[2:])
        ctx.check(rule, ok, "git 'add_path': `git add --update` (stages the tracked file; no error for an ignored one)",
                  "vcs.VCS_SUBCOMMANDS_BY_NAME['git']['add_path'] stages without --update",
                  f"`{tmpl}`: for a configured file that git ignores `git add` fails after the files were rewritten (`update --dry` exits 0, the real run exits 1 with changed files); "
                  f"an untracked configured file is added to the commit", loc="src/bumpver/vcs.py", witness={"command": tmpl, ".gitignore": ".env", "file_patterns": ".env"})


def run(ctx) -> None:
    prog, effects, cfgs = ctx.prog, ctx.effects, ctx.cfgs
    ctx.rule("R1", "step order: no path executes a later step before an earlier one")
    ctx.rule("R2", "per step: extracted interprocedural path condition == specification formula (truth-table equivalence)")
    ctx.rule("R3", "stop at first failure: raising subprocess API, no swallowing handler, hook status checked")
    ctx.rule("R4", "--dry: nothing mutating reachable")
    ctx.rule("R5", "--no-fetch: every fetch site implies the fetch option")
    ctx.rule("R6", "hooks receive BUMPVER_OLD_VERSION / BUMPVER_NEW_VERSION")
    ctx.rule("R7", "contradictory flags/config rejected before anything happens")
    ctx.rule("R9", "a push / fetch command runs only with a non-empty remote")
    ctx.rule("R11", "option declarations: --fetch/--no-fetch is an on/off flag that is on by default; --commit/--tag-commit/--push are unset unless given (the configuration decides)")
    shapes.cli_option_rule(ctx, "R11", ["--fetch/--no-fetch", "--commit/--no-commit", "--tag-commit/--no-tag-commit", "--push/--no-push"])
    dirty_check_handler_rule(ctx, "R3")
    ctx.rule("R12", "contradictory flags are rejected before anything happens: --date together with --pin-date ends in an exit, not in a log line")
    shapes.errors_are_fatal(ctx, "R12", "cli._validate_date", 2)
    # "... before anything happens": in `update` the argument validators run on every path before the first VCS command, file
    # access or hook - with the validator's call blocked, no such effect is reachable from the entry
    upd_fn = prog.function("cli.update")
    ucfg = cfgs.get(upd_fn.fq)
    uneff = shapes.node_effects_lazy(prog, effects, ucfg, cfgs.types(upd_fn.fq))
    eff_nodes = {nid for nid, effs in uneff.items() if any(k.startswith(("VCS_", "FS_WRITE", "HOOK", "PROC")) for k in effs)}
    n_val = 0
    for vname in ("cli._validate_date", "cli._validate_release_tag"):
        vcalls = shapes.find_calls(prog, upd_fn, vname)
        ctx.check("R12", bool(vcalls), f"cli.update calls {vname}", f"cli.update: {vname.split('.')[-1]} is no longer called", "", loc=upd_fn.loc())
        for c in vcalls:
            n_val += 1
            vn = ucfg.node_containing(c)
            late = sorted(eff_nodes & ucfg.reachable(blocked_nodes=[vn]))
            ctx.check("R12", not late, f"cli.update: `{unparse(c)[:40]}` runs before the first VCS command / write / hook on every path",
                      f"cli.update: {vname.split('.')[-1]} does not run before the first effect on every path",
                      f"`{ucfg.nodes[late[0]].text()[:60]}` (L{ucfg.nodes[late[0]].lineno}) is reachable without passing `{unparse(c)[:40]}`: a contradictory or malformed argument is "
                      f"rejected only after tags were fetched - or not at all on the path that skips the call" if late else "", loc=upd_fn.loc(c),
                      witness={"command": "bumpver update --set-version 1.3.0 --pin-date --date 2024-01-01"})
    ctx.floor("R12", "argument validators called by cli.update", n_val, 2)
    ctx.rule("R10", "the tag step is the configured one: an (empty) configured tag message reaches the tag command as configured (C12's configured-message rule)")
    ctx.rule("R8", "every command name is in both the git and the hg table (or guarded by name == 'git')")

    root = "cli._update"
    ip = ctx.interproc(IMPORT_EXIT)
    reach_fns = effects.reachable_functions([root])
    ctx.visit(root, "vcs.commit", "vcs.assert_not_dirty", "hooks.run")

    # ---------------------------------------------------------------- collect step sites
    by_step: T.Dict[str, T.List[T.Any]] = {}
    for fq in sorted(reach_fns):
        for s in effects.sites.get(fq, []):
            st = _step_of_site(s)
            if st is None:
                continue
            ctx.require(st != "hook?", f"hook call with unrecognised path argument at {s.loc}")
            by_step.setdefault(st, []).append(s)
    need = {"dirty-check": 1, "rewrite": 2, "pre-hook": 1, "stage": 1, "commit": 2, "post-hook": 1, "tag": 2, "push_tag": 1, "push_plain": 1}
    total = sum(len(v) for v in by_step.values())
    ctx.floor("R2", "step sites reachable from cli._update", total, 12)
    for st, n in need.items():
        ctx.require(len(by_step.get(st, [])) >= n, f"step '{st}': {len(by_step.get(st, []))} site(s) found, expected >= {n}")

    # ---------------------------------------------------------------- R2
    conds: T.Dict[str, BF] = {}
    for st, sites in by_step.items():
        f = BF.false()
        for s in sites:
            f = f | ip.site_condition(s.fn, s.node, root)
        conds[st] = f
    all_atoms = sorted(set().union(*[set(f.drop_unused().atoms) for f in conds.values()]))
    ctx.notes["atoms"] = all_atoms

    def atom(pred: T.Callable[[str], bool], what: str) -> BF:
        hits = [a for a in all_atoms if pred(a)]
        ctx.require(len(hits) <= 1, f"specification atom '{what}' matched {hits} among {all_atoms}")
        if not hits:
            # no step depends on it: the comparison below then reports the steps whose condition should mention it
            ctx.observe(f"no VCS step depends on '{what}'")
            return BF.var(what.split(" ")[0])
        return BF.var(hits[0])

    C = atom(lambda a: a == "cfg.commit", "cfg.commit")
    V = atom(lambda a: a == "vcs_api", "vcs_api (VCS found)")
    T_ = atom(lambda a: a == "cfg.tag", "cfg.tag")
    P = atom(lambda a: a == "cfg.push", "cfg.push")
    PRE = atom(lambda a: a == "cfg.pre_commit_hook", "cfg.pre_commit_hook")
    POST = atom(lambda a: a == "cfg.post_commit_hook", "cfg.post_commit_hook")
    A = atom(lambda a: a == "allow_dirty", "allow_dirty")
    # the two facts about the working tree, located by what they are computed from (not by their names):
    # D = the result of vcs_api.status(...) is non-empty; DP = its intersection with the configured paths is non-empty
    andf = prog.function("vcs.assert_not_dirty")
    d_names = [unparse(t) for _st, t, v in shapes.iter_assigns(andf.node)
               if isinstance(v, ast.Call) and isinstance(v.func, ast.Attribute) and v.func.attr == "status"]
    ctx.require(len(set(d_names)) == 1, f"assert_not_dirty: the status() result is bound {len(set(d_names))} times")
    d_name, fp_param = d_names[0], andf.params[1]
    def _mentions(e: ast.AST, name: str) -> bool:
        return any(isinstance(x, ast.Name) and x.id == name for x in ast.walk(e))
    dp_names = [unparse(t) for _st, t, v in shapes.iter_assigns(andf.node) if _mentions(v, d_name) and _mentions(v, fp_param)]
    ctx.require(len(set(dp_names)) <= 1, f"assert_not_dirty: several values combine `{d_name}` and `{fp_param}`: {dp_names}")

    def tree_atom(is_it: T.Callable[[str], bool], what: str, fallback: str) -> BF:
        hits = [a for a in all_atoms if a.startswith("assert_not_dirty") and SEP in a and is_it(a.split(SEP, 1)[1])]
        ctx.require(len(hits) <= 1, f"specification atom '{what}' matched {hits}")
        if hits:
            return BF.var(hits[0])
        # no step depends on it: the comparison below then reports the steps whose condition should mention it
        ctx.observe(f"no VCS step depends on '{what}'")
        return BF.var("assert_not_dirty" + SEP + fallback)
    D = tree_atom(lambda x: x == d_name, "dirty files", d_name)
    def _is_dp(x: str) -> bool:
        if dp_names and x == dp_names[0]:
            return True
        try:
            e = ast.parse(x, mode="eval").body
        except SyntaxError:
            return False
        return _mentions(e, d_name) and _mentions(e, fp_param)
    DP = tree_atom(_is_dp, "dirty pattern files", dp_names[0] if dp_names else f"set({d_name}) & {fp_param}")
    def hook_ok(step: str, what: str) -> BF:
        """The 'exit status 0' atom that the post-condition of this hook's call site contributes."""
        sites_ = by_step.get(step, [])
        ctx.require(len(sites_) == 1, f"step '{step}': {len(sites_)} hook call sites")
        s_ = sites_[0]
        pcx = ip.pc(s_.fn.fq)
        nid_ = cfgs.get(s_.fn.fq).node_containing(s_.node)
        post = pcx.call_post.get(nid_)
        if post is None:
            # hooks.run can return after a failed hook: then the caller has to look at what it returns
            tested = shapes.outcome_edges_of_call(cfgs.get(s_.fn.fq), s_.fn, s_.node, False)
            if tested is None:
                ctx.bad("R3", f"{s_.fn.fq}: the result of the {step} is ignored", f"`{unparse(s_.node)[:70]}`: hooks.run returns normally after a failed hook (it no longer ends the process) and this "
                        f"call site does not test what it returns: commit / tag / push go on after the {step} failed and the exit status is 0", loc=s_.fn.loc(s_.node),
                        witness={"hook": "exits 3"}, what=f"{step}: a failed hook stops the update")
                return BF.true()
            deferred.append(f"step '{step}': the hook's exit status is tested by the caller, not by hooks.run (the specification formula has no atom for that)")
            return BF.true()
        hits = [a for a in post.atoms if "returncode" in a]
        ctx.require(len(hits) == 1, f"specification atom '{what}' matched {hits}")
        return BF.var(hits[0])
    deferred: T.List[str] = []
    OK1 = hook_ok("pre-hook", "pre-hook exit status 0")
    OK2 = hook_ok("post-hook", "post-hook exit status 0")
    ctx.require(not deferred, deferred[0] if deferred else "")
    local = [a for a in all_atoms if a not in set().union(*(x.atoms for x in (C, V, T_, P, PRE, POST, A, D, DP, OK1, OK2)))]
    # atoms that are choices inside a step (annotated vs light tag, git vs hg, remote present, engine) are
    # existentially projected: the step is the union of its sites
    inner_ok = all(("tag_message" in a) or ("remote" in a) or (".name == 'git'" in a) or a == "cfg.is_new_pattern" for a in local)
    ctx.check("R2", inner_ok, f"only step-internal choices besides the specification atoms: {local}",
              "cli._update: a VCS step depends on a condition outside the specification", f"extra atoms: {local}", loc="src/bumpver/vcs.py")
    # environment facts, each verified before it is assumed: (1) a VCS handle exists only when cfg.commit is set (every
    # non-None assignment of the handle in _update happens under cfg.commit); (2) dirty pattern files are dirty files
    v_implies_c = vcs_handle_implies_commit(ctx)
    if v_implies_c:
        ctx.ok("R2", "cli._update: the VCS handle is looked up only under cfg.commit (so 'VCS found' implies commit)")
        env = (~V | C) & (~DP | D)
    else:
        ctx.observe("cli._update: the VCS handle is looked up without cfg.commit; every step's own condition must then mention cfg.commit")
        env = (~DP | D)
    abort = C & V & ((D & ~A) | DP)
    base = C & V & ~abort
    pre_ok = ~PRE | OK1
    post_ok = ~POST | OK2
    spec = {
        "dirty-check": C & V,
        "rewrite": ~abort,
        "pre-hook": base & PRE,
        "stage": base & pre_ok,
        "commit": base & pre_ok,
        "post-hook": base & pre_ok & POST,
        "tag": base & pre_ok & post_ok & T_,
        "push_tag": base & pre_ok & post_ok & P & T_,
        "push_plain": base & pre_ok & post_ok & P & ~T_,
    }
    spec_atoms = sorted(set().union(*(x.atoms for x in (C, V, T_, P, PRE, POST, A, D, DP, OK1, OK2))))
    remote_atoms = [a for a in all_atoms if "remote" in a]
    for st in ["dirty-check", "rewrite", "pre-hook", "stage", "commit", "post-hook", "tag", "push_tag", "push_plain"]:
        got = conds[st]
        for a in got.atoms:
            if a not in spec_atoms:
                got = got.exists(a)
        got = got.project(spec_atoms) if set(got.atoms) - set(spec_atoms) else got
        lhs, rhs = got & env, spec[st] & env
        wit = lhs.diff_witness(rhs)
        ctx.check("R2", wit is None,
                  f"step '{st}' ({len(by_step[st])} site(s)) runs iff {spec[st].to_dnf(3)}  [2^{len(spec_atoms)} rows]",
                  f"step '{st}' does not run under exactly its specified condition",
                  f"extracted: {got.drop_unused().to_dnf(6)} ; specified: {spec[st].drop_unused().to_dnf(6)}",
                  loc=by_step[st][0].loc, witness=wit, path=[s.loc for s in by_step[st]])
    # the entry chain update -> _try_update -> _update is unconditional below the dry test (R4)
    if prog.has_function("cli._try_update"):
        tu = prog.function("cli._try_update")
        c = shapes.find_calls(prog, tu, "cli._update")
        ctx.require(len(c) == 1, "_try_update: expected one _update call")
        r = PathCond(cfgs.get(tu.fq)).reach(cfgs.get(tu.fq).node_containing(c[0]))
        ctx.check("R2", r.is_true(), "_try_update calls _update unconditionally", "cli._try_update: _update is called conditionally", r.to_dnf(), loc=tu.loc(c[0]))

    # ---------------------------------------------------------------- R1 ordering
    order = {"dirty-check": 0, "rewrite": 1, "pre-hook": 2, "stage": 3, "commit": 4, "post-hook": 5, "tag": 6, "push_tag": 7, "push_plain": 7}
    fn_steps: T.Dict[str, T.Set[str]] = {}
    for st, sites in by_step.items():
        for s in sites:
            fn_steps.setdefault(s.fn.fq, set()).add(st)
    # propagate to callers
    changed = True
    while changed:
        changed = False
        for fq in reach_fns:
            cur = fn_steps.setdefault(fq, set())
            for node, callee in effects.calls.get(fq, []) + effects.opaque_calls.get(fq, []):
                add = fn_steps.get(callee.fq, set()) - cur
                if add and callee.fq in reach_fns:
                    cur |= add
                    changed = True
    n_pairs = 0
    for fq in sorted(reach_fns):
        if len(fn_steps.get(fq, ())) < 2:
            continue
        fn = prog.function(fq)
        cfg = cfgs.get(fq)
        node_steps: T.Dict[int, T.Set[str]] = {}
        for s in effects.sites.get(fq, []):
            st = _step_of_site(s)
            if st:
                nid = cfg.node_containing(s.node)
                if nid is not None:
                    node_steps.setdefault(nid, set()).add(st)
        for node, callee in effects.calls.get(fq, []) + effects.opaque_calls.get(fq, []):
            if callee.fq in reach_fns and fn_steps.get(callee.fq):
                nid = cfg.node_containing(node)
                if nid is not None and not (callee.is_generator and cfg.nodes[nid].kind != "iter"):
                    node_steps.setdefault(nid, set()).update(fn_steps[callee.fq])
        live = cfg.reachable()
        for a, sa in node_steps.items():
            if a not in live:
                continue
            after = set()
            for dst, _l in cfg.succ[a]:
                after |= cfg.reachable(dst)
            for b, sb in node_steps.items():
                if b == a or b not in after:
                    continue
                # a runs before b on some path: every step of a must not be later than every step of b
                for x in sa:
                    for y in sb:
                        n_pairs += 1
                        if order[x] > order[y]:
                            ctx.bad("R1", f"{fq}: step '{x}' can run before step '{y}'",
                                    f"`{cfg.nodes[a].text()[:60]}` (L{cfg.nodes[a].lineno}, {x}) reaches `{cfg.nodes[b].text()[:60]}` (L{cfg.nodes[b].lineno}, {y})",
                                    loc=fn.loc(cfg.nodes[a].ast), what=f"{fq}: '{y}' never after '{x}'")
        ctx.ok("R1", f"{fq}: node order respects dirty-check < rewrite < pre-hook < stage < commit < post-hook < tag < push")
    ctx.floor("R1", "ordered step pairs examined", n_pairs, 20)

    # ---------------------------------------------------------------- R3
    callfn = prog.function("vcs.VCSAPI.__call__")
    procs = [s for s in effects.sites[callfn.fq] if s.effect == "PROC"]
    ctx.require(len(procs) == 1, "VCSAPI.__call__: expected one subprocess call")
    nm = prog.resolve_call(callfn, procs[0].node, count=False).name
    chk = [kw for kw in procs[0].node.keywords if kw.arg == "check"]
    raising = nm in ("subprocess.check_output", "subprocess.check_call") or (nm == "subprocess.run" and chk and isinstance(chk[0].value, ast.Constant) and chk[0].value.value is True)
    ctx.check("R3", raising, f"VCSAPI.__call__ runs commands with a raising API ({nm})", "vcs.VCSAPI.__call__: a failing VCS command does not raise",
              f"`{unparse(procs[0].node)[:80]}`: with {nm} a non-zero exit status is ignored and later steps still run", loc=callfn.loc(procs[0].node))
    # the CFG node must not be wrapped in a swallowing handler anywhere on the chain
    n_h = 0
    for fq in sorted(reach_fns | ({"cli._try_update"} if prog.has_function("cli._try_update") else {"cli.update"})):
        fn = prog.function(fq)
        cfg = cfgs.get(fq)
        neff = None
        for hid in shapes.handlers_catching(cfg, ["CalledProcessError", "SystemExit", "OSError"]):
            if neff is None:
                neff = shapes.node_effects_lazy(prog, effects, cfg, cfgs.types(fq))
            body = shapes.try_body_nodes(cfg, hid)
            guarded = sorted({k for nid in body for k in neff.get(nid, {}) if k.startswith("VCS_MUTATE") or k == "HOOK"})
            if not guarded:
                continue
            n_h += 1
            oc = shapes.handler_outcome(cfg, hid)["outcomes"]
            hn = cfg.nodes[hid]
            if fq == "vcs.VCSAPI.add" and "fallthrough" in oc:
                # named exception: hg reports 'already tracked!' for files it already knows; anything else is re-raised
                # (a handler that never completes quietly tolerates nothing and is judged like any other handler below)
                ok = "raise" in oc and any(isinstance(x, ast.Constant) and x.value == "already tracked!" for x in ast.walk(hn.ast))
                ctx.check("R3", ok, "VCSAPI.add: handler only tolerates hg's 'already tracked!' and re-raises otherwise",
                          "vcs.VCSAPI.add: a failed `add` is swallowed", f"outcomes {sorted(oc)}", loc=fn.loc(hn.ast))
                # ... and it is tolerated only under that message: every way out of the handler that is not a raise implies the message test
                apc = PathCond(cfg)
                hbody = {nid for st_ in ast.walk(hn.ast) for nid in cfg.stmt_nodes.get(id(st_), [])} | {hid}
                quiet: T.List[BF] = []
                for nid in hbody & cfg.reachable():
                    nd = cfg.nodes[nid]
                    if nd.kind == "stmt" and isinstance(nd.ast, ast.Raise):
                        continue
                    for dst, label in cfg.succ[nid]:
                        if label == ("exc",) or dst in hbody or cfg.nodes[dst].kind == "sysexit":
                            continue
                        quiet.append(apc.edge_cond(nid, dst, label))
                tol = BF.false()
                for q_ in quiet:
                    tol = tol | q_
                tol = tol.drop_unused()
                msg_atoms = [a_ for a_ in tol.atoms if "already tracked!" in a_]
                ok2 = len(msg_atoms) == 1 and tol.implies(BF.var(msg_atoms[0]))
                ctx.check("R3", ok2, "VCSAPI.add: the handler completes quietly only when the message contains 'already tracked!'",
                          "vcs.VCSAPI.add: a failed `add` is swallowed unless it is hg's 'already tracked!'",
                          f"the handler returns under `{tol.to_dnf()}`: a failing `git add` / `hg add` is ignored, commit and tag still run and the exit status is 0", loc=fn.loc(hn.ast))
                continue
            bad_exit = [o for o in oc if o in ("exit:0", "exit:None", "exit:False")]
            ctx.check("R3", "fallthrough" not in oc and not bad_exit,
                      f"{fq}: handler at L{hn.lineno} around {guarded[:2]} ends in {sorted(oc)}",
                      f"{fq}: a failed VCS step / hook is swallowed and later steps still run",
                      f"handler `except {hn.extra.get('types')}` at L{hn.lineno} guards {guarded} and ends in {sorted(oc)}", loc=fn.loc(hn.ast))
    ctx.floor("R3", "handlers around mutating steps", n_h, 2)
    hr = prog.function("hooks.run")
    hcfg = cfgs.get(hr.fq)
    hpc = PathCond(hcfg)
    rc = [a for a in hpc.atoms if "returncode" in a]
    ctx.require(len(rc) == 1, "hooks.run: no test of proc.returncode")
    tree = ast.parse(rc[0], mode="eval").body
    cs = shapes.compare_shape(tree)
    ok = cs is not None and cs[0] == "==" and isinstance(cs[2], ast.Constant) and cs[2].value == 0
    ex = hpc.reach(hcfg.exit)
    ctx.check("R3", ok and ex.implies(BF.var(rc[0])), "hooks.run returns normally only when the script's exit status is 0",
              "hooks.run: a failing hook does not stop the update", f"normal return when {ex.to_dnf()}", loc=hr.loc())
    for sid in hcfg.sysexits:
        if sid in hcfg.reachable():
            code = hcfg.nodes[sid].extra.get("code")
            ctx.check("R3", code not in (0, None, False, "?"), f"hooks.run: failure exit status {code}", "hooks.run: failure exits with status 0", f"{code}", loc=hr.loc(hcfg.nodes[sid].stmt))
    waits = [c for c in ast.walk(hr.node) if isinstance(c, ast.Call) and isinstance(c.func, ast.Attribute) and c.func.attr in ("wait", "communicate")]
    ctx.check("R3", bool(waits), "hooks.run waits for the hook process before reading its status", "hooks.run: exit status read without waiting for the process", "", loc=hr.loc())

    # ---------------------------------------------------------------- R4
    upd = prog.function("cli.update")
    ctx.visit(upd.fq)
    ucfg = cfgs.get(upd.fq)
    upc = PathCond(ucfg)
    ctx.require("dry" in upc.atoms, "update no longer branches on `dry`")
    uneff = shapes.node_effects_lazy(prog, effects, ucfg, cfgs.types(upd.fq))
    n_mut = 0
    for nid, effs in sorted(uneff.items()):
        mut = sorted(k for k in effs if k.startswith("VCS_MUTATE") or k == "HOOK" or k == "FS_WRITE" or k == "PROC" or k == "VCS_UNKNOWN")
        if not mut or nid not in ucfg.reachable():
            continue
        n_mut += 1
        r = upc.reach(nid)
        ctx.check("R4", r.implies(~BF.var("dry")), f"update: `{ucfg.nodes[nid].text()[:40]}` ({mut[0]}...) unreachable under --dry",
                  "cli.update: a mutating step is reachable under --dry",
                  f"`{ucfg.nodes[nid].text()[:60]}` (L{ucfg.nodes[nid].lineno}) has effects {mut} and is reached when {r.project(['dry']).to_dnf()}",
                  loc=upd.loc(ucfg.nodes[nid].ast), path=effs[mut[0]])
    ctx.floor("R4", "mutating call nodes in update", n_mut, 1)
    pd = effects.effects_of("cli._print_diff")
    bad = sorted(k for k in pd if k.startswith("VCS_MUTATE") or k in ("HOOK", "FS_WRITE", "PROC"))
    ctx.check("R4", not bad, "_print_diff (the dry path) has no mutating effect", "cli._print_diff: the diff path can change files or the repository", f"{bad}", loc="src/bumpver/cli.py",
              path=pd[bad[0]] if bad else None)

    # ---------------------------------------------------------------- R5
    fetch_sites = effects.all_sites("VCS_FETCH")
    ctx.floor("R5", "fetch sites", len(fetch_sites), 1)
    ip0 = ctx.interproc()
    for cmd_root in ("cli.update", "cli.show"):
        rf = prog.function(cmd_root)
        ctx.require("fetch" in rf.all_params, f"{cmd_root} lost its fetch option")
        for s in fetch_sites:
            f = ip0.site_condition(s.fn, s.node, cmd_root)
            ctx.check("R5", f.implies(BF.var("fetch")) and not f.is_false(), f"{cmd_root}: fetch at {s.loc} happens only with --fetch",
                      f"{cmd_root}: a fetch can happen under --no-fetch",
                      f"`{unparse(s.node)}` reached when {f.project([a for a in f.atoms if 'fetch' in a]).to_dnf()}", loc=s.loc)
    tsum = effects.effects_of("cli.test")
    # `test` never passes unique=True / fetch=True
    gate_calls = shapes.find_calls(prog, prog.function("cli._is_valid_version"), "vcs.get_tags")
    for c in gate_calls:
        fa = call_arg(c, prog.function("vcs.get_tags"), "fetch")
        ctx.check("R5", isinstance(fa, ast.Constant) and fa.value is False, "gate: get_tags(fetch=False)", "cli._is_valid_version: uniqueness lookup may fetch", unparse(c), loc="src/bumpver/cli.py")

    # ---------------------------------------------------------------- R6
    # the environment handed to the hook: a copy of os.environ plus the two documented variables, however it is assembled
    popen0 = [s.node for s in effects.sites[hr.fq] if s.effect == "PROC"]
    env_name = unparse(shapes.kwargs_of(popen0[0]).get("env", ast.Constant(0))) if len(popen0) == 1 else "env"
    env_defs = [v for _st, v in shapes.local_defs(hr, env_name) if v is not None]
    envd = env_defs[0] if len(env_defs) == 1 else None
    base_ok = isinstance(envd, ast.Call) and ((unparse(envd.func) == "dict" and envd.args and unparse(envd.args[0]) == "os.environ") or unparse(envd.func) == "os.environ.copy")
    entries: T.Dict[str, str] = {}
    if isinstance(envd, ast.Call) and unparse(envd.func) == "dict":
        entries.update({k: unparse(v) for k, v in shapes.kwargs_of(envd).items()})
    for n in walk_no_nested(hr.node):
        if isinstance(n, ast.Assign) and isinstance(n.targets[0], ast.Subscript) and unparse(n.targets[0].value) == env_name and const_str(n.targets[0].slice):
            entries[const_str(n.targets[0].slice)] = unparse(n.value)
        elif isinstance(n, ast.Call) and isinstance(n.func, ast.Attribute) and n.func.attr == "update" and unparse(n.func.value) == env_name:
            entries.update({k: unparse(v) for k, v in shapes.kwargs_of(n).items()})
            for a_ in n.args:
                if isinstance(a_, ast.Dict):
                    entries.update({const_str(k): unparse(v) for k, v in zip(a_.keys, a_.values) if k is not None and const_str(k)})
    if isinstance(envd, ast.Dict) and any(k is None and unparse(v) == "os.environ" for k, v in zip(envd.keys, envd.values)):
        # `{**os.environ, 'NAME': value}`: later entries win, the splat of the process environment comes first
        base_ok = envd.keys[0] is None and unparse(envd.values[0]) == "os.environ" and all(k is not None for k in envd.keys[1:])
        entries.update({const_str(k): unparse(v) for k, v in zip(envd.keys, envd.values) if k is not None and const_str(k)})
    ok = base_ok and entries.get("BUMPVER_OLD_VERSION") == hr.params[1] and entries.get("BUMPVER_NEW_VERSION") == hr.params[2]
    ctx.check("R6", ok, "hooks.run: env = os.environ + BUMPVER_OLD_VERSION=old_version, BUMPVER_NEW_VERSION=new_version",
              "hooks.run: hook environment does not carry the old/new version under the documented names", unparse(envd) if envd is not None else "", loc=hr.loc())
    popen = [s.node for s in effects.sites[hr.fq] if s.effect == "PROC"]
    ok = len(popen) == 1 and unparse(shapes.kwargs_of(popen[0]).get("env", ast.Constant(0))) == "env"
    ctx.check("R6", ok, "hooks.run passes env= to the hook process", "hooks.run: the prepared environment is not passed to the process", "", loc=hr.loc())
    ok = len(popen) == 1 and popen[0].args and shapes.flows_from(hr, popen[0].args[0], lambda e: isinstance(e, ast.Name) and e.id == hr.params[0])
    ctx.check("R6", ok, "hooks.run executes the configured hook path", "hooks.run: executes something else than the configured path", "", loc=hr.loc())
    shapes.check_passthrough(ctx, "R6", "vcs.commit", "hooks.run", {"old_version": "cfg.current_version", "new_version": "new_version"}, floor=2)
    # cfg.current_version down there is the old version only if the configuration handed down is the one the old version was resolved into (C01/R1: same values announced and passed on)
    from sa.report import run_prerequisite as _rp_c01
    _rp_c01(ctx, "C01", ("R1",), "R6", only=lambda key: "old_version" in key or "resolved" in key)

    # ---------------------------------------------------------------- R7
    pvo = prog.function("cli._parse_vcs_options")
    ctx.visit(pvo.fq)
    pcalls = shapes.find_calls(prog, upd, pvo.fq)
    ctx.require(len(pcalls) == 1, "update: expected one _parse_vcs_options call")
    pnode = ucfg.node_containing(pcalls[0])
    wo = ucfg.reachable(blocked_nodes=[pnode])
    for nid, effs in sorted(uneff.items()):
        bad_e = sorted(k for k in effs if k.startswith("VCS_") or k in ("HOOK", "FS_WRITE", "PROC"))
        if bad_e and nid != pnode:
            ctx.check("R7", nid not in wo, f"update: `{ucfg.nodes[nid].text()[:40]}` only after _parse_vcs_options",
                      "cli.update: VCS/file access before contradictory options are rejected", f"`{ucfg.nodes[nid].text()[:60]}` ({bad_e[:2]}) reachable before option validation",
                      loc=upd.loc(ucfg.nodes[nid].ast))
    hs = [h for h in shapes.handlers_catching(ucfg, ["ValueError"]) if pnode in shapes.try_body_nodes(ucfg, h)]
    ctx.require(len(hs) == 1, "update: ValueError handler around _parse_vcs_options not found")
    oc = shapes.handler_outcome(ucfg, hs[0])["outcomes"]
    ctx.check("R7", oc and all(o.startswith("exit:") and o not in ("exit:0", "exit:None") for o in oc), f"update: contradictory options end in {sorted(oc)}",
              "cli.update: contradictory options are not rejected with a non-zero exit", f"{sorted(oc)}", loc=upd.loc(ucfg.nodes[hs[0]].ast))
    shapes.check_passthrough(ctx, "R7", "cli.update", pvo.fq, {"cfg": "cfg", "commit": "commit", "tag_commit": "tag_commit", "push": "push", "tag_scope": "tag_scope",
                                                                 "pre_commit_hook": "pre_commit_hook", "post_commit_hook": "post_commit_hook"})
    pcfg = cfgs.get(pvo.fq)
    ppc = PathCond(pcfg)
    merges = {}
    for n in pcfg.nodes:
        if n.kind == "stmt" and isinstance(n.ast, ast.Assign) and isinstance(n.ast.value, ast.Call) and isinstance(n.ast.value.func, ast.Attribute) \
                and n.ast.value.func.attr == "_replace" and unparse(n.ast.targets[0]) == "cfg":
            for kw in n.ast.value.keywords:
                merges[kw.arg] = (unparse(kw.value), ppc.reach(n.id), n)
    want = {"commit": "commit", "tag": "tag_commit", "push": "push", "pre_commit_hook": "pre_commit_hook", "post_commit_hook": "post_commit_hook"}
    for field, par in want.items():
        ok = field in merges and merges[field][0] == par and f"{par} is None" in ppc.atoms and merges[field][1].project([f"{par} is None"]).equiv(~BF.var(f"{par} is None"))
        ctx.check("R7", ok, f"_parse_vcs_options: cfg.{field} := {par} exactly when {par} is not None", f"cli._parse_vcs_options: option {par} is not merged into cfg.{field} exactly when given",
                  f"{merges.get(field, ('-', BF.false()))[0]}", loc=pvo.loc())
    raises = [n for n in pcfg.nodes if n.kind == "stmt" and isinstance(n.ast, ast.Raise) and n.id in pcfg.reachable()]
    tot = BF.false()
    for n in raises:
        ctx.check("R7", (n.extra.get("raised") or "") == "ValueError", "_parse_vcs_options raises ValueError (the class update catches)", "cli._parse_vcs_options raises a class update does not catch",
                  f"{n.extra.get('raised')}", loc=pvo.loc(n.ast))
        tot = tot | ppc.reach(n.id)
    atoms = {a: BF.var(a) for a in ppc.atoms}
    ctx.require(all(k in atoms for k in ("commit is False", "tag_commit", "push", "cfg.commit")), f"_parse_vcs_options atoms changed: {ppc.atoms}")
    spec7 = (atoms["commit is False"] | ~atoms["cfg.commit"]) & (atoms["tag_commit"] | atoms["push"])
    keep = ["commit is False", "tag_commit", "push", "cfg.commit"]
    # cfg.commit after an explicit --commit/--no-commit is that flag: constrain the environment accordingly
    got7 = tot.project(keep)
    env7 = ~(atoms["commit is False"] & atoms["cfg.commit"])
    ctx.check("R7", (got7 & env7).equiv(spec7 & env7), "_parse_vcs_options raises iff (--no-commit or effective commit off) and (--tag-commit or --push)",
              "cli._parse_vcs_options: contradiction rules differ from the specification", f"raises iff {got7.to_dnf(8)}", loc=pvo.loc(), witness=(got7 & env7).diff_witness(spec7 & env7))
    # the commit merge happens between the two groups of checks
    if "commit" in merges:
        mnode = merges["commit"][2]
        later = [n for n in raises if n.id in pcfg.reachable(mnode.id)]
        ctx.check("R7", len(later) >= 2, "_parse_vcs_options: the effective-commit checks come after --commit/--no-commit was merged", "cli._parse_vcs_options: effective commit is tested before the flag is merged",
                  f"{len(later)} raise sites after the merge", loc=pvo.loc(mnode.ast))

    # ---------------------------------------------------------------- R8
    table = prog.const("vcs", "VCS_SUBCOMMANDS_BY_NAME")
    n_sites = 0
    for fn in prog.module("vcs").functions.values():
        for s in effects.sites[fn.fq]:
            if not s.effect.startswith("VCS_"):
                continue
            n_sites += 1
            cmd = s.detail.get("cmd")
            ctx.check("R8", cmd is not None and s.effect != "VCS_UNKNOWN", f"{fn.fq} L{s.node.lineno}: constant, classified command name '{cmd}'",
                      f"{fn.fq}: VCS command name is not a known constant", f"`{unparse(s.node)[:60]}`", loc=s.loc)
            if cmd is None:
                continue
            both = all(cmd in table[v] for v in ("git", "hg"))
            guard = None if s.detail.get("direct") else shapes.name_guard(ctx, fn, s.node)
            ctx.check("R8", both or (guard is not None and cmd in table.get(guard, {})), f"command '{cmd}' exists for git and hg" + ("" if both else f" (guarded: {guard} only)"),
                      f"vcs: command '{cmd}' is missing from a command table", f"git: {cmd in table['git']}, hg: {cmd in table['hg']}", loc=s.loc)
    ctx.floor("R8", "VCS command sites", n_sites, 14)
    # the steps are classified by command *name* (fetch, push, add_path ...): each table entry must run the verb its name stands for,
    # otherwise "--no-fetch never fetches" or "--dry issues no mutating command" are decided about the wrong commands
    import shlex as _shlex
    for vcs_name, verbs in VCS_VERBS.items():
        for key, want_verb in sorted(verbs.items()):
            tmpl = table.get(vcs_name, {}).get(key)
            if tmpl is None:
                continue
            try:
                toks = _shlex.split(tmpl.replace("{{", "{").replace("}}", "}"))
            except ValueError:
                toks = tmpl.split()
            ok_v = len(toks) >= 2 and toks[0] == vcs_name and toks[1] in ((want_verb,) if isinstance(want_verb, str) else want_verb)
            if ok_v and vcs_name == "git" and toks[1] == "tag":
                ok_v = ("--list" in toks or "-l" in toks) == key.startswith("ls_")
            ctx.check("R8", ok_v, f"{vcs_name} '{key}' runs `{vcs_name} {want_verb if isinstance(want_verb, str) else '|'.join(want_verb)}`",
                      f"vcs.VCS_SUBCOMMANDS_BY_NAME['{vcs_name}']['{key}'] runs another command than its name says",
                      f"`{tmpl}`: the step named '{key}' (classified {'mutating' if key in ('add_path', 'commit', 'tag', 'tag_light', 'push', 'push_tag') else 'fetch' if key == 'fetch' else 'read-only'}) "
                      f"executes `{' '.join(toks[:2])}`", loc="src/bumpver/vcs.py", witness={"vcs": vcs_name, "command": key})

            if key in ("add_path", "commit", "tag", "tag_light", "push", "push_tag"):
                # a mutating step does what was configured and no more: no flag that overwrites, widens or skips
                widening = {"--force", "-f", "--force-with-lease", "--amend", "--all", "-a", "-A", "--delete", "-d", "--mirror", "--tags", "--no-verify", "--prune"}
                bad_flags = [t_ for t_ in toks[2:] if t_ in widening]
                ctx.check("R8", not bad_flags, f"{vcs_name} '{key}': no overwriting / widening flag",
                          f"vcs.VCS_SUBCOMMANDS_BY_NAME['{vcs_name}']['{key}'] carries a flag that overwrites or widens the step ({' '.join(bad_flags)})",
                          f"`{tmpl}`: the step no longer fails on (or is no longer limited to) what was configured - e.g. an existing tag is moved instead of refused, other tags / files are pushed or staged",
                          loc="src/bumpver/vcs.py", witness={"vcs": vcs_name, "command": key, "flags": bad_flags})

    command_placeholders_rule(ctx, "R8")

    # ---------------------------------------------------------------- R7 (config side): tag / push without commit are refused when the config is read
    from sa.report import run_prerequisite
    run_prerequisite(ctx, "C18", ("R4",), "R7")

    # ---------------------------------------------------------------- R9
    maybe_empty = remote_lookup_rule(ctx, "R9")
    n_remote = 0
    for fq_ in sorted(effects.sites):
        if not fq_.startswith("vcs.VCSAPI."):
            continue
        fn_ = prog.function(fq_)
        for s_ in effects.sites[fq_]:
            if not (s_.effect.startswith("VCS_MUTATE:push") or s_.effect.startswith("VCS_FETCH")) or not isinstance(s_.node, ast.Call):
                continue
            kw = {k.arg: k.value for k in s_.node.keywords}
            c_ = cfgs.get(fq_)
            pc_ = PathCond(c_)
            r = pc_.reach(c_.node_containing(s_.node))
            if "remote" in kw:
                n_remote += 1
                val = unparse(kw["remote"])
                truthy = val in r.atoms and r.implies(BF.var(val))
            else:
                # fetch: guarded by the truthiness of get_remote() itself
                n_remote += 1
                bound = {t_.id for st_ in walk_no_nested(fn_.node) if isinstance(st_, ast.Assign) and "get_remote()" in unparse(st_.value)
                         for t_ in st_.targets if isinstance(t_, ast.Name)}
                bound = {b_ for b_ in bound if sum(1 for x_ in ast.walk(fn_.node) if isinstance(x_, ast.Name) and isinstance(x_.ctx, ast.Store) and x_.id == b_) == 1}
                truthy = any(("get_remote()" in a or a in bound) and r.implies(BF.var(a)) for a in r.atoms)
            ctx.check("R9", truthy, f"{fq_} L{s_.node.lineno}: runs only with a non-empty remote",
                      f"{fq_}: the {s_.detail.get('cmd')} command can run with an empty remote",
                      f"the site is reached when {r.drop_unused().to_dnf()} although get_remote() can be None" + (f" or an empty string (`{unparse(maybe_empty[0].ast)}`)" if maybe_empty else "") + ": "
                      f"without a configured remote `git push  --follow-tags <tag> HEAD` / `hg push` is issued", loc=fn_.loc(s_.node))
    ctx.floor("R9", "push / fetch sites", n_remote, 3)

    # ---------------------------------------------------------------- R10
    from checks.c12 import configured_message_rule
    configured_message_rule(ctx, "R10")


def get_remote_eval(ctx, rule: str) -> bool:
    """VCSAPI.get_remote evaluated with an abstract VCS: for git the remote of the first branch marked current (when it
    tracks one), otherwise the stripped remote listing, None when that is empty or any command fails - never ''.  Returns
    False when the function is outside what the evaluator handles (the structural rule decides then)."""
    import itertools
    from sa.model import Abstract, CannotFold, EvalError, Raised
    prog = ctx.prog
    fn = prog.function("vcs.VCSAPI.get_remote")
    ctx.visit(fn.fq)

    class M(Abstract):
        def __init__(self, cur: T.Optional[str], remote: T.Optional[str]):
            self.d = {"is_current": cur, "remote": remote, "local": "main", "refname": "main"}

        def groupdict(self) -> T.Dict[str, T.Optional[str]]:
            return dict(self.d)

        def group(self, *names: str) -> T.Any:
            return self.d[names[0]] if len(names) == 1 else tuple(self.d[n_] for n_ in names)

        def __getitem__(self, k: str) -> T.Optional[str]:
            return self.d[k]

    class Me(Abstract):
        def __init__(self, name: str):
            self.name = name
    listings = [[], [(None, "origin")], [(None, "origin"), ("*", "upstream")], [("*", None), (None, "origin")], [("*", "upstream"), ("*", "other")]]
    remotes = ["", "origin\n", "  \n", "origin\nupstream\n"]
    wrong: T.List[str] = []
    n = 0
    try:
        for name, listing, out, fail in itertools.product(("git", "hg"), listings, remotes, (None, "ls_branches", "show_remotes")):
            asked: T.List[str] = []

            def run(f: T.Any, node: ast.Call, fail: T.Optional[str] = fail, out: str = out, asked: T.List[str] = asked) -> str:
                cmd = f(node.args[0])
                asked.append(cmd)
                if cmd == fail:
                    raise Raised("CalledProcessError", ("SubprocessError",))
                if cmd == "ls_branches":
                    return "<branch listing>"
                if cmd == "show_remotes":
                    return out
                raise CannotFold(f"get_remote runs `{cmd}`")

            def finditer(f: T.Any, node: ast.Call, listing: T.List[T.Tuple[T.Optional[str], T.Optional[str]]] = listing) -> T.List[M]:
                if f(node.args[0]) != "<branch listing>":
                    raise CannotFold("BRANCH_RE is applied to something else than the branch listing")
                return [M(c_, r_) for c_, r_ in listing]
            env = {fn.params[0]: Me(name), "__strict__": True, "__stubs__": {fn.params[0]: run, "BRANCH_RE.finditer": finditer}}
            try:
                got, _ys = prog.run_body(fn, env)
            except Raised as ex:
                got = f"raises {ex.name}"
            except EvalError as ex:
                got = f"raises: {ex}"
            listed = out.strip() or None
            cur = [r_ for c_, r_ in listing if c_] if name == "git" else []
            if name == "git" and fail == "ls_branches":
                want = [None]
            elif cur and cur[0] is not None:
                want = [cur[0]]
            elif fail == "show_remotes":
                want = [None]
            elif cur:
                want = [None, listed]          # the current branch tracks nothing: None today; the listing would do as well
            else:
                want = [listed]
            n += 1
            if got not in want and len(wrong) < 4:
                wrong.append(f"{name}, branches {listing}, remotes {out!r}, failing command {fail}: get_remote() -> {got!r}, expected {want[0]!r}")
    except (CannotFold, TypeError, AttributeError, KeyError, ValueError, IndexError) as ex:
        ctx.observe(f"vcs.VCSAPI.get_remote not evaluated ({type(ex).__name__}: {str(ex)[:80]})")
        return False
    ctx.check(rule, not wrong, f"get_remote: tracked remote of the current branch, else the remote listing, None when empty or failing; never '' ({n} cases evaluated)",
              "vcs.VCSAPI.get_remote: the remote that fetch and push use is wrong",
              "; ".join(wrong[:2]) + ": with a wrong or empty remote the fetch/push steps are skipped or run against another remote", loc=fn.loc(),
              witness={"git branch": "* feature -> upstream/feature"})
    return True


def remote_lookup_rule(ctx, rule: str):
    """get_remote: never an empty string for a command, the tracked remote of the current branch for git, the remote listing
    as the fallback - for git too.  Returns the return nodes that may yield an empty string."""
    prog, cfgs, effects = ctx.prog, ctx.cfgs, ctx.effects
    if get_remote_eval(ctx, rule):
        return []
    # `{remote}` sites: the value comes from get_remote(); the command may only run when it is a non-empty string.
    # Either the site is guarded by the truthiness of the value, or get_remote never returns an empty string.
    gr = prog.function("vcs.VCSAPI.get_remote")
    ctx.visit(gr.fq)
    gcfg_ = cfgs.get(gr.fq)
    gpc_ = PathCond(gcfg_)
    maybe_empty = []
    for n in gcfg_.nodes:
        if n.kind == "stmt" and isinstance(n.ast, ast.Return) and n.ast.value is not None and n.id in gcfg_.reachable():
            v = shapes.inline(gr, n.ast.value, prog)
            if isinstance(v, ast.Constant) and (v.value is None or (isinstance(v.value, str) and v.value != "")):
                continue
            if isinstance(v, ast.Subscript):
                continue          # a regex group of the branch listing: present means non-empty (`\\S+`-like groups); not decided here
            r = gpc_.reach(n.id)
            txt = unparse(n.ast.value)
            guards = [a for a in r.atoms if a.replace('"', "'") in (f"{txt} == ''", f"{unparse(v)} == ''", txt, unparse(v))]
            ok_ = any((g.endswith("== ''") and r.implies(~BF.var(g))) or (not g.endswith("== ''") and r.implies(BF.var(g))) for g in guards)
            if not ok_:
                maybe_empty.append(n)
    # ... and an enabled push is performed: the remote listing (`show_remotes`) is handed on whenever it is not empty
    live = []
    for n in gcfg_.nodes:
        if n.kind == "stmt" and isinstance(n.ast, ast.Return) and n.ast.value is not None and n.id in gcfg_.reachable():
            v = shapes.inline(gr, n.ast.value, prog)
            if isinstance(v, (ast.Constant, ast.Subscript)):
                continue
            if isinstance(v, ast.BoolOp) and isinstance(v.op, ast.Or) and isinstance(v.values[-1], ast.Constant) and v.values[-1].value is None:
                live.append(n)          # `<listing> or None`
                continue
            if isinstance(v, ast.IfExp):
                live.append(n)          # conditional value: judged by the empty-string rule above
                continue
            if n not in maybe_empty:
                live.append(n)
    # ... and for git the remote the current branch tracks: a reachable `return <match>['remote']` under `<match>['is_current']`,
    # for the matches of BRANCH_RE.finditer over the branch listing
    tracked = []
    for n in gcfg_.nodes:
        if n.kind == "stmt" and isinstance(n.ast, ast.Return) and n.ast.value is not None and n.id in gcfg_.reachable():
            v = shapes.inline(gr, n.ast.value, prog)
            if isinstance(v, ast.Subscript) and const_str(v.slice) == "remote":
                r = gpc_.reach(n.id)
                cur = [a for a in r.atoms if a.replace('"', "'").endswith("['is_current']")]
                tracked.append((n, bool(cur) and r.implies(BF.var(cur[0])) and not r.is_false()))
    loops_ = [l_ for l_ in walk_no_nested(gr.node) if isinstance(l_, ast.For) and isinstance(l_.iter, ast.Call) and unparse(l_.iter.func) == "BRANCH_RE.finditer"]
    has_branch_listing = any(isinstance(c_, ast.Call) and c_.args and const_str(c_.args[0]) == "ls_branches" for c_ in ast.walk(gr.node))
    if has_branch_listing:
        ok_tr = len(tracked) == 1 and tracked[0][1] and len(loops_) == 1 and any(x is tracked[0][0].ast for x in ast.walk(loops_[0]))
        ctx.check(rule, ok_tr, "get_remote (git): the remote of the current branch is returned - `return m['remote']` under `m['is_current']` for m in BRANCH_RE.finditer(listing)",
                  "vcs.VCSAPI.get_remote: the remote that the current branch tracks is not returned",
                  f"returns of m['remote']: {[(unparse(n_.ast), ok_) for n_, ok_ in tracked]}, finditer loops: {len(loops_)}: with push enabled on a branch that tracks a remote not named origin "
                  "the push step is silently skipped", loc=gr.loc())
    # the listing is the fallback for git as well (a branch without upstream, a detached HEAD): it must be reachable when name == 'git'
    git_atoms = [a for a in gpc_.atoms if a.replace('"', "'") in ("self.name == 'git'",)]
    if live and git_atoms:
        reach_git = any(not (gpc_.reach(n.id) & BF.var(git_atoms[0])).is_false() for n in live)
        ctx.check(rule, reach_git, "get_remote: the remote listing is also consulted for git (branch without upstream, detached HEAD)",
                  "vcs.VCSAPI.get_remote: for git the remote listing is never consulted",
                  f"the returns of the listing are reached only when {[gpc_.reach(n.id).drop_unused().to_dnf() for n in live]}: on a branch that tracks nothing get_remote() is None, "
                  "`git fetch` is silently skipped (the bump starts from stale local tags) and an enabled push is skipped", loc=gr.loc(), witness={"git": "checkout -b feature (no upstream)"})
    ctx.check(rule, bool(live), "get_remote: a non-empty remote listing is returned (an enabled push is performed on a branch without upstream)",
              "vcs.VCSAPI.get_remote: a listed remote is never returned",
              "no return hands on the `show_remotes` output under a non-empty test: with push enabled and a remote configured the push step is silently skipped",
              loc=gr.loc())
    return maybe_empty


def dirty_check_handler_rule(ctx, rule: str) -> None:
    """The dirty check is the first step: a handler in cli._update whose try body holds the call of vcs.assert_not_dirty (a VCS
    command that can fail) must not complete normally - otherwise a failing `git status` is logged and the files are rewritten,
    committed and tagged anyway."""
    prog, cfgs = ctx.prog, ctx.cfgs
    upd = prog.function("cli._update")
    cfg = cfgs.get(upd.fq)
    calls = shapes.find_calls(prog, upd, "vcs.assert_not_dirty")
    ctx.floor(rule, "dirty check calls in cli._update", len(calls), 1)
    for c in calls:
        nid = cfg.node_containing(c)
        for hid in shapes.handlers_catching(cfg, ["CalledProcessError", "OSError"]):
            if nid not in shapes.try_body_nodes(cfg, hid):
                continue
            hn = cfg.nodes[hid]
            types_ = hn.extra.get("types")
            from sa.cfg import handler_can_catch
            if not handler_can_catch(types_, "CalledProcessError"):
                continue          # `except OSError` around the lookup: no VCS installed, nothing to check
            oc = shapes.handler_outcome(cfg, hid)["outcomes"]
            ctx.check(rule, "fallthrough" not in oc, f"cli._update: handler `except {types_}` around the dirty check ends in {sorted(oc)}",
                      "cli._update: a failing dirty check is swallowed and the update goes on",
                      f"handler `except {types_}` at L{hn.lineno} guards `{unparse(c)[:60]}` and can complete normally: when `git status` fails the files are rewritten, committed and tagged, exit status 0",
                      loc=upd.loc(hn.ast), witness={"git status": "exits 128"})
