"""C12 - messages, tag names and paths reach the VCS verbatim."""
from __future__ import annotations

import ast
import shlex
import string
import typing as T

from sa import shapes
from sa.boolfn import BF
from sa.model import AnalysisError, call_arg, const_str, unparse, walk_no_nested

TECHNIQUE = "taint analysis (values -> tokeniser) in VCSAPI.__call__, template tokenisation over the folded command tables, argument-wiring checks along the call chain"
EXPLANATION = (
    "Decides that no user-controlled value can change the argv bumpver hands to git/hg: (R1) in every function that "
    "builds a VCS command no value derived from the call's keyword arguments flows into shlex.split or a shell=True "
    "command (tokenise-then-substitute is the accepted idiom), (R2) in each of the folded command templates every "
    "placeholder is a whole token of its own, (R3) message / tag / path values are wired unmodified from update's "
    "formatted templates and the configured paths to those placeholders, and the documented message placeholders are "
    "all supplied."
)
LEVEL_NOTE = ("Decides argument integrity (one value = one argv element). Not decided: how git/hg interpret an argument "
              "that begins with '-', and that str.format of an arbitrary user template cannot raise.")

DOC_PLACEHOLDERS = {"new_version", "old_version", "NEW_VERSION", "OLD_VERSION", "new_version_pep440", "old_version_pep440"}


def _placeholders(tmpl: str) -> T.List[str]:
    out = []
    for _lit, field, _spec, _conv in string.Formatter().parse(tmpl):
        if field is not None:
            out.append(field)
    return out


def _substitution_mechanism(ctx, callfn) -> T.Tuple[str, str, str]:
    """('format', text, loc) when every token of the split template is filled by str.format(**kwargs) / format_map;
    ('sequential', description, loc) when a helper replaces one placeholder after the other."""
    prog = ctx.prog
    splits = [c for c, t in prog.calls_in(callfn) if t.kind == "ext" and t.name == "shlex.split"]
    ctx.require(len(splits) == 1, "VCSAPI.__call__: expected one shlex.split call")
    kw = callfn.kwarg
    cands: T.List[ast.AST] = []
    for n in ast.walk(callfn.node):
        if isinstance(n, (ast.ListComp, ast.GeneratorExp)) and len(n.generators) == 1:
            it = shapes.inline(callfn, n.generators[0].iter, prog)
            if any(isinstance(c, ast.Call) and unparse(c.func) == unparse(splits[0].func) for c in ast.walk(it)) and isinstance(n.generators[0].target, ast.Name):
                cands.append(n)
    if not cands:
        # the template is filled as a whole (and tokenised afterwards - the taint rule above reports that)
        whole = [c for c in ast.walk(callfn.node) if isinstance(c, ast.Call) and isinstance(c.func, ast.Attribute) and c.func.attr in ("format", "format_map")]
        ctx.require(len(whole) == 1, "VCSAPI.__call__: neither a per-token nor a whole-template substitution was found")
        return "format", unparse(whole[0]) + "  (whole template)", callfn.loc(whole[0])
    ctx.require(len(cands) == 1, "VCSAPI.__call__: several comprehensions over shlex.split")
    comp = cands[0]
    tok = comp.generators[0].target.id
    elt = shapes.inline_simple_calls(prog, callfn, comp.elt)
    if isinstance(elt, ast.Call) and isinstance(elt.func, ast.Attribute) and unparse(elt.func.value) == tok:
        if elt.func.attr == "format" and not elt.args and [unparse(k.value) for k in elt.keywords if k.arg is None] == [kw] and all(k.arg is None for k in elt.keywords):
            return "format", unparse(elt), callfn.loc(elt)
        if elt.func.attr == "format_map" and len(elt.args) == 1 and unparse(elt.args[0]) == kw:
            return "format", unparse(elt), callfn.loc(elt)
    if isinstance(elt, ast.Call):
        t = prog.resolve_call(callfn, elt, count=False)
        if t.kind == "func" and t.fn is not None:
            h = t.fn
            for loop in [n for n in walk_no_nested(h.node) if isinstance(n, ast.For)]:
                lvars = {x.id for x in ast.walk(loop.target) if isinstance(x, ast.Name)}
                for _st, tg, val in shapes.iter_assigns(loop):
                    if isinstance(val, ast.Call) and isinstance(val.func, ast.Attribute) and val.func.attr == "replace" and unparse(val.func.value) == unparse(tg) \
                            and any(isinstance(x, ast.Name) and x.id in lvars for a in val.args for x in ast.walk(a)):
                        return "sequential", f"{h.fq} rewrites `{unparse(tg)}` once per value (`{unparse(val)[:60]}`)", h.loc(val)
    raise AnalysisError(f"C12/R1: per-token substitution not enumerated: `{unparse(comp.elt)[:80]}`")


def configured_message_rule(ctx, rule: str) -> None:
    """A configured commit/tag message is what the config file says: INI values literal, only quotes/blanks stripped on the
    way into Config, and the default only when the key is absent (an empty message is a message: lightweight tag)."""
    prog = ctx.prog
    # (c'') a configured template is what the config file says: the INI reader takes values literally, and on the way into
    #       Config.commit_message / tag_message only surrounding quotes and blanks are stripped
    from checks.c07 import ini_verbatim_rule
    ini_verbatim_rule(ctx, rule)
    pcf = prog.function("config._parse_config")
    ctx.visit(pcf.fq)
    ctor = [c for c in ast.walk(pcf.node) if isinstance(c, ast.Call) and unparse(c.func) == "Config"]
    ctx.require(len(ctor) == 1, "_parse_config: Config(...) constructor not found")
    EDITING = {"replace", "format", "lower", "upper", "title", "expandtabs", "translate", "encode", "casefold", "capitalize", "swapcase", "lstrip", "rstrip",
               "removeprefix", "removesuffix", "zfill", "center", "ljust", "rjust", "splitlines", "split", "join"}
    for which in ("commit_message", "tag_message"):
        v = shapes.kwargs_of(ctor[0]).get(which)
        ctx.require(v is not None, f"Config({which}=...) not found")
        exprs: T.List[T.Tuple[T.Any, ast.AST]] = [(pcf, shapes.inline(pcf, v, prog))]
        if isinstance(v, ast.Name):
            # every definition of the local that carries the message (it is usually re-bound: read, then stripped)
            exprs += [(pcf, d_) for _st, d_ in shapes.local_defs(pcf, v.id) if d_ is not None]
        # helpers of the module that are called with the key of this message
        for c in ast.walk(pcf.node):
            if isinstance(c, ast.Call) and any(const_str(a_) == which for a_ in c.args):
                t = prog.resolve_call(pcf, c, count=False)
                if t.kind == "func" and t.fn is not None and t.fn.module is pcf.module:
                    exprs.append((t.fn, t.fn.node))
        defaulted = [b_ for _o, e_ in exprs for b_ in ast.walk(e_) if isinstance(b_, ast.BoolOp) and isinstance(b_.op, ast.Or)
                     and any(isinstance(x_, ast.Call) and isinstance(x_.func, ast.Attribute) and x_.func.attr == "get" and x_.args and const_str(x_.args[0]) == which for x_ in ast.walk(b_.values[0]))]
        defaulted += [i_ for _o, e_ in exprs for i_ in ast.walk(e_) if isinstance(i_, ast.IfExp) and unparse(i_.test).replace('"', "'") in (f"raw_cfg.get('{which}')", f"raw_cfg['{which}']")]
        ctx.check(rule, not defaulted, f"_parse_config: the default {which} is used only when the key is absent",
                  f"config._parse_config: an explicitly empty {which} is replaced by the default",
                  f"`{unparse(defaulted[0])[:80]}`: `tag_message = \"\"` (the documented way to ask for a lightweight tag) falls back to the default template and "
                  f"`git tag --annotate` is issued" if defaulted else "", loc=pcf.loc(defaulted[0]) if defaulted else pcf.loc(), witness={which: ""})
        edits = []
        for owner, e in exprs:
            for c in ast.walk(e):
                if not isinstance(c, ast.Call):
                    continue
                nm = unparse(c.func)
                if nm.startswith("os.path.") or nm.startswith("os.environ") or nm in ("os.getenv", "re.sub", "re.subn", "string.Template", "shlex.quote", "str.format"):
                    edits.append((owner, c))
                elif isinstance(c.func, ast.Attribute) and c.func.attr in EDITING:
                    edits.append((owner, c))
                elif isinstance(c.func, ast.Attribute) and c.func.attr == "strip":
                    chars_ = None
                    if c.args:
                        try:
                            chars_ = prog.fold(owner.module, c.args[0])
                        except AnalysisError:
                            chars_ = None
                    if not (isinstance(chars_, str) and set(chars_) <= set("'\" \t")):
                        edits.append((owner, c))
        ctx.check(rule, not edits, f"_parse_config: Config.{which} is the configured text, stripped of surrounding quotes / blanks only",
                  f"config._parse_config: the configured {which} is edited before it becomes the template",
                  f"`{unparse(edits[0][1])[:80]}` in {edits[0][0].fq}: e.g. `$HOME` / `~` in a configured message are expanded before the message reaches git" if edits else "",
                  loc=edits[0][0].loc(edits[0][1]) if edits else pcf.loc(), witness={which: "deploy to $HOME/releases: {new_version}"})



def run(ctx) -> None:
    prog, effects = ctx.prog, ctx.effects
    ctx.rule("R1", "tokenise before substituting: no kwargs-derived value reaches shlex.split / shell=True")
    ctx.rule("R2", "in every command template each placeholder is exactly one token")
    ctx.rule("R3", "values are wired unmodified: message/tag/path from update down to the placeholder")
    shapes.cli_option_rule(ctx, "R3", ["--commit-message", "--tag-message"])
    ctx.rule("R4", "prerequisite: 'each staged path exactly the configured path' - the keys of the file patterns (they are what is staged) are the configured paths as written (C03/R6)")
    from sa.report import run_prerequisite
    run_prerequisite(ctx, "C03", ("R6",), "R4")

    vcs = prog.module("vcs")
    callfn = prog.function("vcs.VCSAPI.__call__")
    ctx.visit(callfn.fq)
    ctx.require(callfn.kwarg is not None, "VCSAPI.__call__ no longer takes **kwargs (value channel moved)")

    # ------------------------------------------------------------ R1
    n_split = n_proc = 0
    for fn in vcs.functions.values():
        has_proc = any(s.effect == "PROC" or s.detail.get("direct") for s in effects.sites[fn.fq])
        split_calls = [c for c, t in prog.calls_in(fn) if t.kind == "ext" and t.name == "shlex.split"]
        if not has_proc and not split_calls:
            continue
        ctx.visit(fn.fq)
        sources = set()
        if fn.kwarg:
            sources.add(fn.kwarg)
        for p in fn.all_params:
            if p not in ("self", "cmd_name", "env", "name", "subcommands"):
                sources.add(p)
        tainted = shapes.tainted_names(fn, sources, {"shlex.quote"})
        for c in split_calls:
            n_split += 1
            arg = c.args[0] if c.args else None
            ctx.require(arg is not None, f"shlex.split without argument at {fn.loc(c)}")
            bad = shapes.expr_tainted(arg, tainted, {"shlex.quote"})
            ctx.check("R1", not bad,
                      f"{fn.fq} L{c.lineno}: shlex.split argument `{unparse(arg)}` carries no substituted value",
                      f"{fn.fq}: substituted values are re-tokenised by shlex.split",
                      f"`{unparse(c)}`: `{unparse(arg)}` derives from the call's keyword values ({', '.join(sorted(sources))}); "
                      f"a quote character in a message/tag/path changes the argument vector (format-then-split)",
                      loc=fn.loc(c), witness={"message": "it's a bump", "effect": "ValueError: No closing quotation / injected arguments"})
        # ... nor any other tokeniser: `<template>.format(**values).split()` splits a value that contains white space
        for c in walk_no_nested(fn.node):
            if isinstance(c, ast.Call) and isinstance(c.func, ast.Attribute) and c.func.attr in ("split", "rsplit", "splitlines", "partition") and unparse(c.func) != "shlex.split":
                recv_bad = shapes.expr_tainted(c.func.value, tainted, {"shlex.quote"}) or (unparse(c.func.value) == "re" and any(shapes.expr_tainted(a_, tainted, {"shlex.quote"}) for a_ in c.args[1:]))
                if recv_bad and has_proc:
                    ctx.bad("R1", f"{fn.fq}: substituted values are re-tokenised by str.split",
                            f"`{unparse(c)[:90]}`: the text that is split already contains the substituted message/tag/path; a value with white space in it "
                            f"(a version such as `rel 1.2.4` used as tag name, a path with a blank) becomes several arguments", loc=fn.loc(c),
                            witness={"tag": "rel 1.2.4", "command": "hg tag {tag}"}, what=f"{fn.fq}: no substituted value is split into tokens")
        for s in effects.sites[fn.fq]:
            if not (s.effect == "PROC" or s.detail.get("direct")):
                continue
            n_proc += 1
            call = s.node
            shell = [kw for kw in call.keywords if kw.arg == "shell"]
            is_shell = bool(shell) and not (isinstance(shell[0].value, ast.Constant) and not shell[0].value.value)
            ctx.check("R1", not is_shell, f"{fn.fq} L{call.lineno}: subprocess call without shell=True",
                      f"{fn.fq}: command run through a shell", f"`{unparse(call)[:80]}` uses shell=True", loc=fn.loc(call))
            # the command must be a token list: derived from shlex.split / str.split / list display
            cmd = call.args[0] if call.args else call_arg(call, None, "args")
            ctx.require(cmd is not None, f"no command argument at {fn.loc(call)}")

            def is_tokens(e: ast.AST) -> bool:
                if isinstance(e, (ast.List, ast.Tuple, ast.ListComp)):
                    return True
                if isinstance(e, ast.Call):
                    f = unparse(e.func)
                    return f == "shlex.split" or f.endswith(".split") or f in ("list", "tuple")
                return False
            ok = shapes.flows_from(fn, cmd, is_tokens)
            ctx.check("R1", ok, f"{fn.fq} L{call.lineno}: command `{unparse(cmd)}` is a token list",
                      f"{fn.fq}: command passed to subprocess is not a token list",
                      f"`{unparse(cmd)}` does not derive from a tokenised template", loc=fn.loc(call))
    # how a token's placeholders are filled: one simultaneous pass over the template token (str.format) - a substituted
    # value is never scanned again for placeholders
    from checks.c10 import command_placeholders_rule
    command_placeholders_rule(ctx, "R2")
    mech = _substitution_mechanism(ctx, callfn)
    if mech[0] == "format":
        ctx.ok("R1", f"VCSAPI.__call__: each token is filled in one pass by `{mech[1]}`")
    else:
        ctx.bad("R1", "vcs.VCSAPI.__call__: placeholders are filled one after the other, so a substituted value is scanned again",
                f"{mech[1]}: a value that contains the text of a later placeholder is altered (a tag message containing '{{tag}}' "
                f"reaches git with the tag name spliced in), i.e. the message is not passed verbatim",
                loc=mech[2], witness={"tag_message": "release {tag} notes", "tag": "v1.2.3", "argument seen by git": "release v1.2.3 notes"},
                what="VCSAPI.__call__: each token is filled in one pass")
    ctx.floor("R1", "shlex.split sites in vcs", n_split, 1)
    ctx.floor("R1", "subprocess sites in vcs", n_proc, 2)

    if mech[0] != "format":
        ctx.observe("templates are not filled by str.format: the brace-grammar rules R2/R3 (which assume it) are not evaluated")
        return
    # ------------------------------------------------------------ R2
    table = prog.const("vcs", "VCS_SUBCOMMANDS_BY_NAME")
    ctx.require(isinstance(table, dict) and {"git", "hg"} <= set(table), "VCS_SUBCOMMANDS_BY_NAME lost git/hg")
    n_tmpl = n_ph = 0
    for vcs_name, cmds in sorted(table.items()):
        for cmd_name, tmpl in sorted(cmds.items()):
            n_tmpl += 1
            phs = _placeholders(tmpl)
            sent = {p: f"\x01{p}\x02" for p in phs}
            try:
                rendered = tmpl.format(**sent)
                tokens = shlex.split(rendered)
                raw_tokens = shlex.split(tmpl)
            except ValueError as ex:
                ctx.bad("R2", f"vcs template {vcs_name}/{cmd_name} does not tokenise", str(ex), loc=vcs.relpath)
                continue
            ctx.check("R2", len(tokens) == len(raw_tokens) and len(tokens) >= 2,
                      f"template {vcs_name}/{cmd_name} tokenises to the same number of arguments before and after substitution",
                      f"vcs template {vcs_name}/{cmd_name}: token count depends on substitution",
                      f"{tmpl!r}: {raw_tokens} vs {tokens}", loc=vcs.relpath)
            for p in phs:
                n_ph += 1
                holders = [t for t in tokens if sent[p] in t]
                alone = len(holders) == 1 and holders[0] == sent[p]
                ctx.check("R2", alone,
                          f"template {vcs_name}/{cmd_name}: placeholder {{{p}}} is exactly one argument",
                          f"vcs template {vcs_name}/{cmd_name}: placeholder {{{p}}} is not a whole argument of its own",
                          f"{tmpl!r} tokenises to {[t.replace(chr(1), '{').replace(chr(2), '}') for t in tokens]}", loc=vcs.relpath)
            # executable stays the vcs binary
            ctx.check("R2", tokens[0] == vcs_name, f"template {vcs_name}/{cmd_name} runs `{vcs_name}`",
                      f"vcs template {vcs_name}/{cmd_name}: executable is not {vcs_name}", f"{tmpl!r}", loc=vcs.relpath)
    ctx.floor("R2", "command templates", n_tmpl, 25)
    ctx.floor("R2", "placeholders", n_ph, 13)

    # ------------------------------------------------------------ R3
    # (a) every self('<cmd>', k=v) site supplies exactly the placeholders of its template(s), from its own parameters
    n_sites = 0
    for fn in vcs.functions.values():
        if fn.cls is None or fn.cls.name != "VCSAPI":
            continue
        for s in effects.sites[fn.fq]:
            if not s.effect.startswith("VCS_") or s.detail.get("direct"):
                continue
            call = s.node
            cmd = s.detail.get("cmd")
            ctx.require(cmd is not None, f"non-constant command name at {fn.loc(call)}")
            n_sites += 1
            kws = {kw.arg: kw.value for kw in call.keywords if kw.arg not in (None, "env")}
            for vcs_name in ("git", "hg"):
                if cmd not in table[vcs_name]:
                    continue
                need = set(_placeholders(table[vcs_name][cmd]))
                # a site guarded by self.name == 'git' only needs to satisfy the git template (and vice versa)
                guard = shapes.name_guard(ctx, fn, call)
                if guard is not None and guard != vcs_name:
                    continue
                ctx.check("R3", need <= set(kws),
                          f"{fn.fq} L{call.lineno}: self('{cmd}') supplies {sorted(need)} for {vcs_name}",
                          f"{fn.fq}: self('{cmd}') does not supply every placeholder of the {vcs_name} template",
                          f"template needs {sorted(need)}, call passes {sorted(kws)}", loc=fn.loc(call))
            for k, v in kws.items():
                if k not in ("message", "tag", "path"):
                    continue      # {remote} is discovered from the repository, not user supplied
                v2 = shapes.resolve_alias(fn, v)
                plain = isinstance(v2, ast.Name) and v2.id in fn.all_params and not shapes.local_defs(fn, v2.id)
                tmpname = isinstance(v2, ast.Attribute) and v2.attr == "name" and k == "path"
                ctx.check("R3", plain or tmpname,
                          f"{fn.fq} L{call.lineno}: {k}= is the unmodified parameter `{unparse(v)}`",
                          f"{fn.fq}: value for placeholder {{{k}}} is modified before it reaches the command",
                          f"`{k}={unparse(v)}` is not a plain parameter of {fn.qualname}", loc=fn.loc(call))
    ctx.floor("R3", "self('<cmd>', ...) sites", n_sites, 12)

    # (b) vcs.commit wires new_version / messages / paths
    commit_fn = prog.function("vcs.commit")
    shapes.check_passthrough(ctx, "R3", "vcs.commit", "vcs.VCSAPI.tag", {"tag_name": "new_version", "tag_message": "tag_message"})
    shapes.check_passthrough(ctx, "R3", "vcs.commit", "vcs.VCSAPI.commit", {"message": "commit_message"})
    shapes.check_passthrough(ctx, "R3", "vcs.commit", "vcs.VCSAPI.push_tag", {"tag_name": "new_version"})
    # add(path): the loop variable of a loop over the filepaths parameter
    if not shapes.find_calls(prog, commit_fn, "vcs.VCSAPI.add"):
        ctx.bad("R3", "vcs.commit: the configured paths are not staged one by one (no add(<path>) call)",
                "vcs.commit no longer calls VCSAPI.add for the elements of `filepaths`: what is staged is not 'each staged path exactly the configured path' "
                "(a path-less `add --update` stages every modified tracked file)", loc=commit_fn.loc(), witness={"tree": "--allow-dirty with an unrelated modified tracked file"},
                what="vcs.commit: add() receives each element of `filepaths` unmodified")
    for call in shapes.find_calls(prog, commit_fn, "vcs.VCSAPI.add"):
        arg = call_arg(call, prog.function("vcs.VCSAPI.add"), "path")
        loops = [l for l in shapes.enclosing_loops(commit_fn, call) if isinstance(l, ast.For)]
        ok = bool(loops) and isinstance(arg, ast.Name) and isinstance(loops[-1].target, ast.Name) \
            and loops[-1].target.id == arg.id and unparse(shapes.resolve_alias(commit_fn, loops[-1].iter)) in ("filepaths", "sorted(filepaths)")
        ctx.check("R3", ok, f"vcs.commit L{call.lineno}: add() receives each element of `filepaths` unmodified",
                  "vcs.commit: staged path is not the configured path",
                  f"`{unparse(call)}` inside loops {[unparse(l.iter) for l in loops]}", loc=commit_fn.loc(call))
        if loops:
            gs = shapes.guards_between(loops[-1], call)
            ctx.check("R3", not gs, f"vcs.commit L{call.lineno}: every configured path is staged (no condition between the loop and add())",
                      "vcs.commit: a configured path is staged only under a condition",
                      f"`{unparse(call)}` runs only when `{' and '.join(unparse(g) for g in gs)}`: e.g. a comparison with the paths printed by `git status` fails for names that git quotes "
                      "(blanks, non-ASCII), the file is left out of the bump commit", loc=commit_fn.loc(call), witness={"file": "release notes.md"})
    # (c) chain update -> _try_update -> _update -> vcs.commit
    shapes.check_passthrough(ctx, "R3", "cli._update", "vcs.commit",
                             {"new_version": "new_version", "commit_message": "commit_message", "tag_message": "tag_message",
                              "filepaths": ("set(cfg.file_patterns.keys())", "set(cfg.file_patterns)")})
    upd = prog.function("cli.update")
    # the shorthand expander: the internal function that update applies to the --commit-message / --tag-message option
    sub_fns = set()
    for call, t in prog.calls_in(upd):
        if t.kind == "func" and t.fn is not None and len(call.args) == 1 and unparse(call.args[0]) in ("commit_message", "tag_message"):
            sub_fns.add(t.fn.fq)
    if not sub_fns:
        for call, t in prog.calls_in(upd):
            if t.kind == "func" and t.fn is not None and len(call.args) == 1 and not isinstance(call.args[0], ast.Name):
                inner = [x.id for x in ast.walk(call.args[0]) if isinstance(x, ast.Name) and x.id in ("commit_message", "tag_message")]
                if inner:
                    ctx.bad("R3", f"cli.update: the --{inner[0].replace('_', '-')} text is edited before it becomes the message template",
                            f"`{unparse(call)[:90]}`: the option value passes through `{unparse(call.args[0])[:60]}` on its way to the VCS; characters of the message as typed "
                            f"(backslashes, quotes, non-ASCII text) do not reach git/hg verbatim", loc=upd.loc(call), witness={"--commit-message": "see C:\\temp\\new"},
                            what=f"update: --{inner[0].replace('_', '-')} reaches the shorthand expander as given")
    ctx.require(len(sub_fns) == 1, f"update: shorthand expander for --commit-message/--tag-message not identified ({sorted(sub_fns)})")
    sub_fq = sub_fns.pop()
    sub_name = sub_fq.split(".", 1)[1]

    def formatted(which: str) -> T.Callable[[T.Any, ast.AST], bool]:
        def pred(fn, e: ast.AST) -> bool:
            # <template>.format(**kwargs) where the template comes from cfg.<which>_message or _sub_msg_template(<which>_message)
            if not (isinstance(e, ast.Call) and isinstance(e.func, ast.Attribute) and e.func.attr == "format"):
                return False
            tm = e.func.value

            def src(x: ast.AST) -> bool:
                txt = unparse(x)
                return txt == f"cfg.{which}_message" or (isinstance(x, ast.Call) and unparse(x.func) == sub_name
                                                         and unparse(x.args[0]) == f"{which}_message")
            return shapes.flows_from(fn, tm, src)
        pred.__doc__ = f"cfg.{which}_message / --{which}-message template .format(**kwargs)"
        return pred
    shapes.check_passthrough(ctx, "R3", "cli.update", "cli._update",
                             {"new_version": "new_version", "commit_message": formatted("commit"), "tag_message": formatted("tag")})
    # (c') which template: the command-line option whenever it was given (is not None) - expanded by the OLD/NEW shorthand -
    #      and the configured template, verbatim, otherwise
    from sa.pathcond import PathCond
    ucfg = ctx.cfgs.get(upd.fq)
    n_alt = 0
    for which in ("commit", "tag"):
        opt = f"{which}_message"
        ctx.require(opt in upd.all_params, f"update lost its --{which}-message option")
        a_none, a_true = f"{opt} is None", opt
        upc = PathCond(ucfg, extra_atoms=[a_none, a_true], only=lambda t, _o=opt: t in (f"{_o} is None", _o), max_atoms=4)
        N, Tr = BF.var(a_none), BF.var(a_true)
        env = ~N | ~Tr                      # None is falsy
        toward = shapes.calls_toward(ctx, upd, "cli._update")
        ctx.require(len(toward) == 1, "update: expected one call that leads to _update")
        tu_calls = [toward[0][0]]
        arg = call_arg(tu_calls[0], toward[0][1], opt)
        ctx.require(arg is not None, f"update: {toward[0][1].qualname}({opt}=...) not found")
        facts: T.List[T.Tuple[ast.AST, BF, ast.AST]] = []

        def expand(e: ast.AST, cond: BF, at: ast.AST, depth: int = 0) -> None:
            e = shapes.inline_simple_calls(prog, upd, e, skip=(sub_name,))
            if isinstance(e, ast.IfExp):
                t = upc.expr_bf(e.test)
                ctx.require(t is not None, f"update: condition `{unparse(e.test)}` selecting the {which} message template is not over the option")
                expand(e.body, cond & t, at, depth)
                expand(e.orelse, cond & ~t, at, depth)
                return
            if isinstance(e, ast.Call) and isinstance(e.func, ast.Attribute) and e.func.attr == "format" and any(kw.arg is None for kw in e.keywords):
                expand(e.func.value, cond, at, depth)
                return
            if isinstance(e, ast.Name) and e.id not in upd.all_params and depth < 6:
                found = False
                for n in ucfg.nodes:
                    if n.kind != "stmt" or n.id not in ucfg.reachable():
                        continue
                    st = n.ast
                    tg, val = (st.targets[0], st.value) if isinstance(st, ast.Assign) and len(st.targets) == 1 else \
                              ((st.target, st.value) if isinstance(st, ast.AnnAssign) and st.value is not None else (None, None))
                    if isinstance(tg, ast.Name) and tg.id == e.id:
                        found = True
                        expand(val, upc.reach(n.id), st, depth + 1)
                ctx.require(found, f"update: no assignment of `{e.id}` found")
                return
            facts.append((e, cond, at))
        expand(arg, BF.true(), tu_calls[0])
        n_alt += len(facts)
        cfg_txt = f"cfg.{opt}"
        for e, cond, at in facts:
            txt = unparse(e)
            has_cfg = cfg_txt in txt
            has_cli = any(isinstance(x, ast.Name) and x.id == opt for x in ast.walk(e))
            via_sub = [c for c in ast.walk(e) if isinstance(c, ast.Call) and unparse(c.func) == sub_name]
            c_env = (cond & env).project([a_none, a_true])
            if has_cfg and (via_sub or txt != cfg_txt):
                ctx.bad("R3", f"cli.update: the configured {which} message template is not used verbatim",
                        f"`{txt}`: the configured template passes through the OLD/NEW shorthand expander (documented for the command line only) or another edit; "
                        f"the words OLD / NEW in a configured {opt} are rewritten", loc=upd.loc(at), witness={opt: "Bump OLD school -> {new_version}"},
                        what=f"update: configured {which} template used verbatim")
            elif has_cfg:
                ctx.check("R3", c_env.equiv((N & env).project([a_none, a_true])), f"update: cfg.{opt} is used exactly when --{which}-message was not given (is None)",
                          f"cli.update: the configured {which} message is used although a message was given on the command line",
                          f"`{txt}` is chosen when {cond.to_dnf()}; required: exactly when `{opt} is None` (an empty --{which}-message '' is a given message)",
                          loc=upd.loc(at), witness={f"--{which}-message": ""})
            elif has_cli:
                ok_shape = len(via_sub) == 1 and e is via_sub[0] and len(e.args) + len(e.keywords) == 1 and unparse((e.args + [k.value for k in e.keywords])[0]) == opt
                ctx.check("R3", ok_shape, f"update: the command-line {which} message goes through {sub_name} only",
                          f"cli.update: the command-line {which} message is edited on its way to the VCS", f"`{txt}`", loc=upd.loc(at))
                ctx.check("R3", c_env.equiv((~N & env).project([a_none, a_true])), f"update: --{which}-message is used exactly when it was given (is not None)",
                          f"cli.update: a given --{which}-message is not always used",
                          f"`{txt}` is chosen when {cond.to_dnf()}; required: exactly when `{opt} is not None`", loc=upd.loc(at), witness={f"--{which}-message": ""})
            elif "cfg." in txt or any(isinstance(x, ast.Name) and x.id.endswith("_message") for x in ast.walk(e)):
                ctx.bad("R3", f"cli.update: the {which} message is built from another template", f"`{txt[:80]}` is neither cfg.{opt} nor the --{which}-message option",
                        loc=upd.loc(at), what=f"update: {which} message comes from its own template")
            else:
                raise AnalysisError(f"C12/R3: {which} message template alternative not enumerated: `{txt[:80]}`")

    ctx.floor("R3", "alternatives for the commit / tag message templates", n_alt, 2)
    configured_message_rule(ctx, "R3")

    # (d) documented placeholders are supplied, with the right values
    fmt_calls = [c for c in ast.walk(upd.node) if isinstance(c, ast.Call) and isinstance(c.func, ast.Attribute) and c.func.attr == "format"
                 and any(kw.arg is None for kw in c.keywords)]
    ctx.floor("R3", "template .format(**kwargs) calls in update", len(fmt_calls), 2)
    for c in fmt_calls:
        star = [kw.value for kw in c.keywords if kw.arg is None][0]
        d = shapes.resolve_alias(upd, star)
        ctx.require(isinstance(d, ast.Dict), f"format kwargs at {upd.loc(c)} is not a dict display")
        keys = {const_str(k): v for k, v in zip(d.keys, d.values)}
        ctx.check("R3", DOC_PLACEHOLDERS <= set(keys), f"update L{c.lineno}: all documented message placeholders supplied",
                  "cli.update: a documented message placeholder is not supplied",
                  f"missing {sorted(DOC_PLACEHOLDERS - set(keys))}", loc=upd.loc(c))
        for k, v in keys.items():
            if k is None:
                continue
            base = "new_version" if k.lower().startswith("new") else "old_version"
            txt = unparse(v)
            exp = f"version.to_pep440({base})" if k.endswith("pep440") else base
            ctx.check("R3", txt == exp, f"update L{c.lineno}: placeholder {{{k}}} = `{exp}`",
                      f"cli.update: message placeholder {{{k}}} carries the wrong value",
                      f"{{{k}}} is `{txt}`, expected `{exp}`", loc=upd.loc(c))
    # (e) OLD/NEW shorthand
    sub = prog.function(sub_fq)
    subs = [c for c in ast.walk(sub.node) if isinstance(c, ast.Call) and unparse(c.func) == "re.sub"]
    ctx.require(len(subs) == 1, f"{sub_name} no longer a single re.sub")
    sp = sub.params[0]
    rebound = [st for st, tg, _v in shapes.iter_assigns(sub.node) if unparse(tg) == sp]
    arg3 = subs[0].args[2] if len(subs[0].args) > 2 else None
    ctx.check("R3", not rebound and arg3 is not None and unparse(arg3) == sp, f"{sub_name}: the shorthand is expanded in the message as given (`{sp}`)",
              f"cli.{sub_name}: the command-line message is edited besides the OLD/NEW shorthand",
              f"`{unparse(rebound[0]) if rebound else unparse(subs[0])}`: e.g. quote characters or blanks at the ends of --commit-message / --tag-message are lost on the way to git",
              loc=sub.loc(rebound[0] if rebound else subs[0]), witness={"--commit-message": 'bump to "NEW"'})
    pat, rep = const_str(subs[0].args[0]), const_str(subs[0].args[1])
    ctx.check("R3", pat == r"\b(OLD|NEW)\b" and rep == r"{\1_VERSION}",
              "_sub_msg_template maps \\b(OLD|NEW)\\b to {\\1_VERSION}",
              "cli._sub_msg_template: OLD/NEW shorthand mapping changed", f"pattern={pat!r} replacement={rep!r}", loc=sub.loc(subs[0]))
    # (f) hg commit message file: utf-8 bytes of the message, path of that same file
    cm = prog.function("vcs.VCSAPI.commit")
    enc = [c for c in ast.walk(cm.node) if isinstance(c, ast.Call) and isinstance(c.func, ast.Attribute) and c.func.attr == "encode"]
    ok_enc = any(unparse(c.func.value) == "message" and c.args and const_str(c.args[0]) in ("utf-8", "utf8") for c in enc)
    ctx.check("R3", ok_enc, "VCSAPI.commit (hg): message written as UTF-8 bytes",
              "vcs.VCSAPI.commit: hg log file is not the UTF-8 encoding of the message", f"encode calls: {[unparse(c) for c in enc]}", loc=cm.loc())
    writes = [c for c in ast.walk(cm.node) if isinstance(c, ast.Call) and isinstance(c.func, ast.Attribute) and c.func.attr == "write"]
    ok_w = any(shapes.flows_from(cm, c.args[0], lambda e: isinstance(e, ast.Name) and e.id == "message") for c in writes if c.args)
    ctx.check("R3", ok_w, "VCSAPI.commit (hg): the log file content derives from `message`",
              "vcs.VCSAPI.commit: hg log file content does not derive from the message", f"writes: {[unparse(c) for c in writes]}", loc=cm.loc())
