"""C18 - the same configuration means the same thing in every config format (sibling readers)."""
from __future__ import annotations

import ast
import typing as T

from sa import shapes
from sa.boolfn import BF
from sa.model import AnalysisError, const_str, unparse, walk_no_nested
from sa.pathcond import PathCond

TECHNIQUE = "sibling cross-check of the INI and TOML readers (shared post-processing, key provenance, section names three ways), path conditions of the normaliser's invariants"
EXPLANATION = (
    "What the INI and TOML libraries make of a given text is not in the repository; equality of effective settings for all "
    "configurations is NOT decided.  Decided is that the two readers are siblings feeding one normaliser: (R1) both run the "
    "BOOL_OPTIONS defaulting loop over the same table and call _set_raw_config_defaults before returning, _parse_raw_config "
    "dispatches on the format and raises otherwise, and both results go through the single _parse_config; (R2) every key "
    "_parse_config consumes is copied wholesale from the section by both readers or produced by the reader-specific "
    "file_patterns step, and INI booleans are parsed by membership in a literal set containing the documented spellings; "
    "(R3) the section names accepted by the readers, recognised by the self-pattern parser and emitted by the init "
    "templates agree; (R4) after normalisation tag/push require commit, None booleans become False and tag_scope goes "
    "through TagScope."
)
LEVEL_NOTE = "PARTIAL: decides reader structure, not parser-library semantics. Observed, not armed: INI prefers [pycalver] over [bumpver], TOML the reverse (only matters for a file with both)."


def run(ctx) -> None:
    prog, cfgs = ctx.prog, ctx.cfgs
    ctx.rule("R1", "both readers share the BOOL_OPTIONS loop and _set_raw_config_defaults; dispatch on format; single _parse_config")
    ctx.rule("R2", "every key _parse_config consumes can come from both readers; INI boolean spellings")
    ctx.rule("R3", "section names agree: readers == self-pattern parser == init templates")
    ctx.rule("R6", "prerequisite: which file is read - a file holding a bumpver section is preferred, recognised by exactly the readers' headers (C19/R4)")
    from sa.report import run_prerequisite
    run_prerequisite(ctx, "C19", ("R4",), "R6")
    ctx.rule("R5", "INI file_patterns value: every non-blank line is one pattern (text on the key line included), none skipped by position")
    ctx.rule("R4", "normaliser invariants: tag/push require commit; None -> False; TagScope(...)")

    readers = {"cfg": prog.function("config._parse_cfg"), "toml": prog.function("config._parse_toml")}
    for name, fn in readers.items():
        ctx.visit(fn.fq)
        loops = [n for n in walk_no_nested(fn.node) if isinstance(n, ast.For) and unparse(n.iter) == "BOOL_OPTIONS.items()"]
        ctx.check("R1", len(loops) == 1, f"{fn.fq}: defaulting loop over BOOL_OPTIONS.items()", f"{fn.fq}: boolean options are not defaulted from the shared BOOL_OPTIONS table", "", loc=fn.loc())
        if loops:
            st = [s for s in ast.walk(loops[0]) if isinstance(s, ast.Assign) and unparse(s.targets[0]) == "raw_cfg[option]"]
            ctx.check("R1", len(st) == 1, f"{fn.fq}: raw_cfg[option] is set for every boolean option", f"{fn.fq}: boolean option not stored", "", loc=fn.loc())
            gets = [c for c in ast.walk(loops[0]) if isinstance(c, ast.Call) and unparse(c.func) == "raw_cfg.get" and [unparse(a) for a in c.args] == ["option", "default_val"]]
            ctx.check("R1", len(gets) == 1, f"{fn.fq}: value = raw_cfg.get(option, default_val)", f"{fn.fq}: boolean default not taken from the table", "", loc=fn.loc())
        g = cfgs.get(fn.fq)
        dc = shapes.find_calls(prog, fn, "config._set_raw_config_defaults")
        ok = len(dc) == 1 and g.exit not in g.reachable(blocked_nodes=[g.node_containing(dc[0])]) and unparse(dc[0].args[0]) == "raw_cfg"
        ctx.check("R1", ok, f"{fn.fq}: every return passes _set_raw_config_defaults(raw_cfg)", f"{fn.fq}: returns without _set_raw_config_defaults", "", loc=fn.loc())
        rets = [n for n in walk_no_nested(fn.node) if isinstance(n, ast.Return) and n.value is not None]
        ctx.check("R1", all(unparse(r.value) == "raw_cfg" for r in rets) and rets, f"{fn.fq}: returns raw_cfg", f"{fn.fq}: returns something else than the defaulted raw_cfg", "", loc=fn.loc())
    bo = prog.const("config", "BOOL_OPTIONS")
    ctx.check("R1", bo == {"commit": False, "tag": None, "push": None}, "BOOL_OPTIONS == {commit: False, tag: None, push: None}", "config.BOOL_OPTIONS changed", f"{bo}", loc="src/bumpver/config.py")
    prc = prog.function("config._parse_raw_config")
    ctx.visit(prc.fq)
    g = cfgs.get(prc.fq)
    pc = PathCond(g)
    fmt_atoms = {a: a for a in pc.atoms if a.startswith("ctx.config_format ==")}
    want = {"ctx.config_format == 'toml'": "config._parse_toml", "ctx.config_format == 'cfg'": "config._parse_cfg"}
    for atom, callee in want.items():
        cs = shapes.find_calls(prog, prc, callee)
        ok = atom in fmt_atoms and len(cs) == 1 and pc.reach(g.node_containing(cs[0])).implies(BF.var(atom))
        ctx.check("R1", ok, f"_parse_raw_config: {callee.split('.')[-1]} under `{atom}`", f"config._parse_raw_config: reader dispatch for {atom} changed", "", loc=prc.loc())
    raises = [n for n in g.nodes if n.kind == "stmt" and isinstance(n.ast, ast.Raise) and n.id in g.reachable()]
    ok = any(all(pc.reach(n.id).implies(~BF.var(a)) for a in want if a in pc.atoms) for n in raises)
    ctx.check("R1", ok, "_parse_raw_config raises for any other format", "config._parse_raw_config: unknown formats are not rejected", "", loc=prc.loc())
    pf = prog.function("config.parse")
    c1, c2 = shapes.find_calls(prog, pf, "config._parse_raw_config"), shapes.find_calls(prog, pf, "config._parse_config")
    ok = len(c1) == 1 and len(c2) == 1 and shapes.flows_from(pf, c2[0].args[0], lambda e: e is c1[0])
    ctx.check("R1", ok, "config.parse: _parse_config(_parse_raw_config(ctx)) for every format", "config.parse: raw config does not go through the single normaliser", "", loc=pf.loc())

    # ---------------------------------------------------------------- R2
    pcf = prog.function("config._parse_config")
    ctx.visit(pcf.fq)
    consumed: T.Set[str] = set()
    for fq in ("config._parse_config", "config._compile_v1_file_patterns", "config._compile_v2_file_patterns"):
        f = prog.function(fq)
        for n in ast.walk(f.node):
            if isinstance(n, ast.Subscript) and unparse(n.value) == "raw_cfg" and const_str(n.slice):
                consumed.add(const_str(n.slice))
            if isinstance(n, ast.Call) and unparse(n.func) == "raw_cfg.get" and n.args:
                k = const_str(n.args[0])
                if k:
                    consumed.add(k)
            if isinstance(n, ast.Call) and unparse(n.func) == "_parse_cfg_strings":
                helper = prog.function("config._parse_cfg_strings")
                from sa.model import call_arg as _call_arg
                ka = _call_arg(n, helper, helper.params[1], pos=1)
                k = const_str(ka) if ka is not None else None
                if k:
                    consumed.add(k)
    ctx.floor("R2", "keys consumed by the normaliser", len(consumed), 11)
    def whole_section_assigns(fn, recv_pred) -> T.Set[str]:
        out = set()
        for n in ast.walk(fn.node):
            if isinstance(n, ast.Assign) and unparse(n.targets[0]) == "raw_cfg":
                v = n.value
                if isinstance(v, ast.Call) and unparse(v.func) == "dict" and v.args and isinstance(v.args[0], ast.Call) and unparse(v.args[0].func) == "cfg_parser.items" \
                        and v.args[0].args and const_str(v.args[0].args[0]):
                    out.add(const_str(v.args[0].args[0]))
                elif isinstance(v, ast.Subscript):
                    path = []
                    e = v
                    while isinstance(e, ast.Subscript):
                        path.append(const_str(e.slice))
                        e = e.value
                    if unparse(e) in _toml_doc_vars(fn) and all(path):
                        out.add(".".join(reversed(path)))
        return out
    cfg_whole = whole_section_assigns(readers["cfg"], None)
    toml_whole = whole_section_assigns(readers["toml"], None)
    wholesale_cfg = cfg_whole == {"bumpver", "pycalver"}
    wholesale_toml = toml_whole == {"tool.bumpver", "bumpver", "pycalver"}
    ctx.check("R2", wholesale_cfg, "INI reader copies the whole section: dict(cfg_parser.items(section))", "config._parse_cfg: section keys are not copied wholesale", f"{sorted(cfg_whole)}", loc=readers["cfg"].loc())
    ctx.check("R2", wholesale_toml, "TOML reader takes the whole section table", "config._parse_toml: section keys are not taken wholesale", f"{sorted(toml_whole)}", loc=readers["toml"].loc())
    special = {"file_patterns", "commit", "tag", "push"}
    for k in sorted(consumed):
        if k in ("commit", "tag", "push"):
            ctx.ok("R2", f"key '{k}': set by the shared BOOL_OPTIONS loop in both readers")
        elif k == "file_patterns":
            fp_ini = [n for n in ast.walk(readers["cfg"].node) if isinstance(n, ast.Assign) and unparse(n.targets[0]).replace('"', "'") == "raw_cfg['file_patterns']"
                      and any(isinstance(c, ast.Call) and unparse(c.func) == "_parse_cfg_file_patterns" for c in ast.walk(n.value))]
            sdf = prog.function("config._set_raw_config_defaults")
            fp_def = [n for n in ast.walk(sdf.node) if isinstance(n, ast.Assign) and unparse(n.targets[0]).replace('"', "'") == "raw_cfg['file_patterns']" and isinstance(n.value, ast.Dict) and not n.value.keys]
            ok = len(fp_ini) == 1 and len(fp_def) == 1
            ctx.check("R2", ok, "key 'file_patterns': INI from the :file_patterns section, TOML from the nested table, default {}", "config: file_patterns not provided by both readers", "", loc="src/bumpver/config.py")
        else:
            ctx.ok("R2", f"key '{k}': copied wholesale from the section by both readers")
    # the test that turns an INI string into a boolean, decided by folding it for the documented spellings in three cases
    def _str_collection(e_: ast.AST) -> bool:
        try:
            v_ = prog.fold(readers["cfg"].module, e_)
        except AnalysisError:
            return False
        return isinstance(v_, (tuple, list, set, frozenset)) and bool(v_) and all(isinstance(x_, str) for x_ in v_)
    lits = [n for n in ast.walk(readers["cfg"].node) if isinstance(n, ast.Compare) and len(n.ops) == 1 and isinstance(n.ops[0], ast.In) and _str_collection(n.comparators[0])
            and any(isinstance(x_, ast.Name) for x_ in ast.walk(n.left))]
    ctx.require(len(lits) == 1, "_parse_cfg: boolean spelling test not found")
    vars_ = sorted({x.id for x in ast.walk(lits[0].left) if isinstance(x, ast.Name)})
    ctx.require(len(vars_) == 1, "_parse_cfg: boolean spelling test is not over one value")
    wrong = []
    for word, want in [(w_, True) for w_ in ("true", "yes", "1", "on")] + [(w_, False) for w_ in ("false", "no", "0", "off", "")]:
        for form in {word, word.upper(), word.capitalize()}:
            got = bool(prog.fold(readers["cfg"].module, lits[0], {vars_[0]: form}))
            if got != want:
                wrong.append((form, got))
    ctx.check("R2", not wrong, "INI booleans: yes/true/1/on in any case are true, false/no/0/off/'' are false", "config._parse_cfg: INI boolean spellings changed",
              f"`{unparse(lits[0])}` reads {wrong[:4]} (a TOML `true` has one spelling; the INI reader documents case-insensitive words)", loc=readers["cfg"].loc(lits[0]), witness=wrong[:2])
    isinst = [c for c in ast.walk(readers["cfg"].node) if isinstance(c, ast.Call) and unparse(c.func) == "isinstance" and "str" in unparse(c.args[1])]
    ctx.check("R2", len(isinst) == 1, "INI booleans: only string values are interpreted (defaults pass through)", "config._parse_cfg: default values are string-parsed", "", loc=readers["cfg"].loc())

    # "always including the config file's own current_version line" - format independent
    from checks.c03 import self_pattern_rule
    self_pattern_rule(ctx, "R2")
    from checks.c03 import section_scan_rule
    section_scan_rule(ctx, "R3")
    toml_section_eval(ctx, "R3")
    # ... and the set of (file, pattern) pairs: every file a configured glob finds is a configured file, whatever its name
    from checks.c03 import canonical_keys_rule
    canonical_keys_rule(ctx, "R2")
    # INI values are taken verbatim, like TOML strings: no %-interpolation, no inline-comment stripping
    cpk = prog.klass("config._ConfigParser")
    from checks.c07 import ini_verbatim_rule
    ini_verbatim_rule(ctx, "R2")
    opt = cpk.methods.get("optionxform")
    okx = opt is not None and any(isinstance(r, ast.Return) and unparse(r.value) == opt.params[1] for r in ast.walk(opt.node))
    ctx.check("R2", okx, "INI reader keeps option names (file names) case-sensitive, as TOML keys are", "config._ConfigParser.optionxform changes file-name keys", "", loc="src/bumpver/config.py")

    # ---------------------------------------------------------------- R3
    ini_sections = {c.args[0].value for c in ast.walk(readers["cfg"].node) if isinstance(c, ast.Call) and unparse(c.func) == "cfg_parser.has_section" and c.args and isinstance(c.args[0], ast.Constant)}
    fp = prog.function("config._parse_cfg_file_patterns")
    ini_fp = {c.args[0].value for c in ast.walk(fp.node) if isinstance(c, ast.Call) and unparse(c.func) == "cfg_parser.has_section" and c.args and isinstance(c.args[0], ast.Constant)}
    toml_sections = set()
    for n in ast.walk(readers["toml"].node):
        if isinstance(n, ast.Assign) and unparse(n.targets[0]) == "raw_cfg" and isinstance(n.value, ast.Subscript):
            path = []
            e = n.value
            while isinstance(e, ast.Subscript):
                path.append(const_str(e.slice))
                e = e.value
            toml_sections.add(".".join(reversed(path)))
    dp = prog.function("config._parse_current_version_default_pattern")
    from checks.c03 import header_literals_of_test
    hdr = set()
    for n in ast.walk(dp.node):
        if isinstance(n, ast.Compare):
            hdr |= {h_.strip("[]") for h_ in header_literals_of_test(prog, dp, n) if h_.endswith("]") and len(h_) > 2}
    ctx.check("R3", ini_sections == {"bumpver", "pycalver"}, "INI reader accepts [bumpver] and [pycalver]", "config._parse_cfg: accepted sections changed", f"{sorted(ini_sections)}", loc=readers["cfg"].loc())
    ctx.check("R3", ini_fp == {s + ":file_patterns" for s in ini_sections}, "INI file_patterns sections mirror the main sections", "config._parse_cfg_file_patterns: sections do not mirror the main sections", f"{sorted(ini_fp)}", loc=fp.loc())
    ctx.check("R3", toml_sections == {"tool.bumpver", "bumpver", "pycalver"}, "TOML reader accepts [tool.bumpver], [bumpver], [pycalver]", "config._parse_toml: accepted sections changed", f"{sorted(toml_sections)}", loc=readers["toml"].loc())
    ctx.check("R3", hdr == ini_sections | toml_sections, "self-pattern parser recognises exactly the headers the readers accept", "config._parse_current_version_default_pattern: header literals disagree with the readers",
              f"parser: {sorted(hdr)}; readers: {sorted(ini_sections | toml_sections)}", loc=dp.loc())
    tmpl_hdr = {"DEFAULT_CONFIGPARSER_BASE_TMPL": ("cfg", ini_sections), "DEFAULT_PYPROJECT_TOML_BASE_TMPL": ("toml", toml_sections), "DEFAULT_BUMPVER_TOML_BASE_TMPL": ("toml", toml_sections)}
    for name, (kind, accepted) in tmpl_hdr.items():
        t = prog.const("config", name)
        first = [l.strip() for l in t.splitlines() if l.strip().startswith("[")]
        ctx.require(first, f"{name}: no section header")
        sec = first[0].strip("[]")
        ctx.check("R3", sec in accepted and sec in hdr, f"{name}: header [{sec}] accepted by the {kind} reader and the self-pattern parser", f"config.{name}: init emits a section the {kind} reader does not accept",
                  f"[{sec}] vs {sorted(accepted)}", loc="src/bumpver/config.py")

    # ---------------------------------------------------------------- R4
    g = cfgs.get(pcf.fq)
    pc = PathCond(g, max_atoms=22)
    ex = pc.reach(g.exit)
    have = {a: (BF.var(a) if a in pc.atoms else None) for a in ("tag", "push", "commit")}
    for opt in ("tag", "push"):
        if have[opt] is None or have["commit"] is None:
            ctx.bad("R4", f"config._parse_config: `{opt}` without commit is accepted", f"_parse_config no longer branches on `{opt}` / `commit`: the invariant {opt} => commit is not enforced",
                    loc=pcf.loc(), what=f"_parse_config enforces {opt} => commit")
            continue
        exp = ex.project([opt, "commit"])
        inv = ~have[opt] | have["commit"]
        ctx.check("R4", exp.implies(inv), f"_parse_config returns only when {opt} => commit", f"config._parse_config: `{opt}` without commit is accepted",
                  f"returns when {exp.to_dnf()}", loc=pcf.loc(), witness=(exp & ~inv).models(1))
    for opt in ("tag", "push"):
        sets = [n for n in g.nodes if n.kind == "stmt" and isinstance(n.ast, ast.Assign) and any(unparse(t) == opt for t in n.ast.targets)
                and isinstance(n.ast.value, ast.Constant) and n.ast.value.value is False]
        ok = len(sets) == 1 and f"{opt} is None" in pc.atoms and pc.reach(sets[0].id).project([f"{opt} is None"]).equiv(BF.var(f"{opt} is None"))
        ctx.check("R4", ok, f"_parse_config: {opt} None -> False", f"config._parse_config: a missing `{opt}` is not normalised to False", "", loc=pcf.loc())
    ts = shapes.single_def(pcf, "tag_scope")
    ts_in = shapes.inline(pcf, ts, prog, consts=False) if ts is not None else None
    ok_ts = isinstance(ts_in, ast.Call) and unparse(ts_in.func).endswith("TagScope") and len(ts_in.args) == 1 and \
        any(isinstance(c_, ast.Constant) and c_.value == "tag_scope" for c_ in ast.walk(ts_in.args[0])) and \
        any(isinstance(x_, ast.Name) and x_.id == pcf.params[0] for x_ in ast.walk(ts_in.args[0]))
    ctx.check("R4", ok_ts, "_parse_config: tag_scope = TagScope(<configured string or default>)",
              "config._parse_config: tag_scope is not normalised through TagScope", unparse(ts) if ts is not None else "", loc=pcf.loc())
    ctor = [c for c in ast.walk(pcf.node) if isinstance(c, ast.Call) and unparse(c.func) == "Config"]
    ctx.require(len(ctor) == 1, "_parse_config: Config constructor not found")
    kws = shapes.kwargs_of(ctor[0])
    cfields = prog.klass("config.Config").fields
    for f in cfields:
        ctx.check("R4", f in kws and unparse(kws[f]) == f, f"Config({f}={f})", f"config._parse_config: Config.{f} is filled from another value", unparse(kws.get(f, ast.Constant(None))), loc=pcf.loc(ctor[0]))
    # strings are stripped identically for both formats (quotes in INI values)
    for k in ("commit_message", "tag_message", "current_version", "version_pattern"):
        def _chars(e: ast.AST) -> T.Optional[str]:
            try:
                v = prog.fold(pcf.module, e)
            except AnalysisError:
                return None
            return v if isinstance(v, str) else None
        ok = any(isinstance(c, ast.Call) and isinstance(c.func, ast.Attribute) and c.func.attr == "strip" and unparse(c.func.value) == k and c.args
                 and _chars(c.args[0]) is not None and {"'", '"'} <= set(_chars(c.args[0])) for c in ast.walk(pcf.node))
        ctx.check("R4", ok, f"_parse_config strips quotes/spaces from {k} (INI values keep their quotes)", f"config._parse_config: {k} is not quote-stripped (INI and TOML would differ)", "", loc=pcf.loc())

    # ---------------------------------------------------------------- R5
    # `path = pattern` on the key line and continuation lines below it mean the same list a TOML array would give
    fpf = prog.function("config._parse_cfg_file_patterns")
    ctx.visit(fpf.fq)
    ys = [n for n in walk_no_nested(fpf.node) if isinstance(n, ast.Yield) and isinstance(n.value, ast.Tuple) and len(n.value.elts) == 2]
    ctx.floor("R5", "yield (filepath, patterns) sites in _parse_cfg_file_patterns", len(ys), 1)
    for y in ys:
        pe = y.value.elts[1]
        lc = shapes.loop_as_listcomp(fpf, pe.id, prog) if isinstance(pe, ast.Name) else None
        expr = shapes.inline(fpf, lc if lc is not None else pe, prog)
        txt = unparse(expr)
        splits = [c for c in ast.walk(expr) if isinstance(c, ast.Call) and isinstance(c.func, ast.Attribute) and c.func.attr in ("splitlines", "split")]
        ctx.require(len(splits) >= 1, f"_parse_cfg_file_patterns: the value is not split into lines: `{txt[:80]}`")
        positional = [n for n in ast.walk(expr) if (isinstance(n, ast.Subscript) and (isinstance(n.slice, ast.Slice) or isinstance(n.slice, ast.Constant) and isinstance(n.slice.value, int)))
                      or (isinstance(n, ast.Call) and unparse(n.func).split(".")[-1] in ("islice", "next", "pop", "enumerate"))]
        # the same list a TOML array gives: a list, not a one-shot iterator (the glob expansion hands the object to every matched file)
        top = shapes.resolve_alias(fpf, pe) if lc is None else lc
        one_shot = isinstance(top, ast.GeneratorExp) or (isinstance(top, ast.Call) and unparse(top.func) in ("filter", "map", "iter", "zip", "reversed", "itertools.chain"))
        ctx.check("R5", not one_shot, "_parse_cfg_file_patterns: the patterns of an entry are a list (can be read once per matched file)",
                  "config._parse_cfg_file_patterns: the patterns of an entry are a one-shot iterator",
                  f"`{unparse(top)[:80]}`: for a glob entry that matches several files only the first file gets the patterns, the others an exhausted iterator - the same entry in a TOML config gives every file its patterns",
                  loc=fpf.loc(y), witness={"setup.cfg": "[bumpver:file_patterns]\nsrc/mod_*/__init__.py =\n    __version__ = \"{version}\""})
        edits = [c for c in ast.walk(expr) if isinstance(c, ast.Call) and isinstance(c.func, ast.Attribute)
                 and (c.func.attr in ("replace", "removeprefix", "removesuffix", "translate", "lower", "upper", "casefold", "expandtabs")
                      or (c.func.attr in ("strip", "rstrip", "lstrip") and (c.args or c.keywords)))]
        ctx.check("R5", not edits, "_parse_cfg_file_patterns: a line is trimmed of white space only (its text is the pattern, as a TOML string would be)",
                  "config._parse_cfg_file_patterns: the text of a pattern line is edited beyond trimming white space",
                  f"`{unparse(edits[0])[:80] if edits else ''}`: the pattern read from setup.cfg differs from the same text in a TOML array (e.g. a trailing comma or quote that belongs to the pattern is lost)",
                  loc=fpf.loc(y), witness={"setup.cfg": "[bumpver:file_patterns]\nsetup.py =\n    version=\"{version}\","})
        ctx.check("R5", not positional, "_parse_cfg_file_patterns: all lines of a value are candidates (no positional selection)",
                  "config._parse_cfg_file_patterns: lines of a file_patterns value are selected by position",
                  f"`{txt[:120]}`: with `{unparse(positional[0]) if positional else ''}` a pattern written on the key line (`README.md = version {{version}}`) is dropped, "
                  f"while the same entry in a TOML config is honoured", loc=fpf.loc(y), witness={"setup.cfg": "[bumpver:file_patterns]\nREADME.md = version {version}"})


def _toml_doc_vars(fn) -> T.Set[str]:
    """Locals bound to the parsed TOML document (`x = toml.load(...)`); `raw_full_cfg` on the pinned tree."""
    out = {unparse(tg) for _st, tg, v in shapes.iter_assigns(fn.node) if isinstance(v, ast.Call) and unparse(v.func) in ("toml.load", "toml.loads", "tomllib.load", "tomllib.loads")}
    return out or {"raw_full_cfg"}


def toml_section_eval(ctx, rule: str) -> None:
    """_parse_toml evaluated on six parsed documents: the section table is [tool.bumpver], else [bumpver], else [pycalver],
    else empty - and a document with other [tool.*] tables (pyproject.toml of any project) is read without a KeyError."""
    from sa.model import CannotFold, EvalError
    prog = ctx.prog
    fn = prog.function("config._parse_toml")
    ctx.visit(fn.fq)
    sec = {"current_version": "1.2.3", "version_pattern": "MAJOR.MINOR.PATCH"}
    docs = [
        ("empty document", {}, {}),
        ("[tool.black] only", {"tool": {"black": {"line-length": 100}}}, {}),
        ("[tool.bumpver]", {"tool": {"black": {}, "bumpver": dict(sec)}}, sec),
        ("[bumpver]", {"bumpver": dict(sec)}, sec),
        ("[pycalver]", {"pycalver": dict(sec)}, sec),
        ("[tool.bumpver] and [bumpver]", {"tool": {"bumpver": dict(sec, current_version="2.0.0")}, "bumpver": dict(sec)}, dict(sec, current_version="2.0.0")),
    ]
    bools = prog.const("config", "BOOL_OPTIONS")

    def defaults(f: T.Any, node: ast.Call) -> None:
        """_set_raw_config_defaults, abstracted: the keys it guarantees exist afterwards."""
        d = f(node.args[0])
        if isinstance(d, dict):
            d.setdefault("file_patterns", {})
    wrong: T.List[str] = []
    n = 0
    try:
        for name, doc, want in docs:
            import copy
            env = {fn.params[0]: "BUFFER", "__strict__": True,
                   "__stubs__": {"toml.load": lambda f, node, doc=doc: copy.deepcopy(doc), "_set_raw_config_defaults": defaults}}
            try:
                got, _ys = prog.run_body(fn, env)
            except EvalError as ex:
                got = f"raises: {ex}"
            n += 1
            if isinstance(got, dict):
                core = {k: v for k, v in got.items() if k not in bools and k != "file_patterns"}
                if core != want:
                    wrong.append(f"{name}: section {core}, expected {want}")
            else:
                wrong.append(f"{name}: {got}")
    except (CannotFold, TypeError, AttributeError, KeyError, ValueError, IndexError) as ex:
        ctx.observe(f"_parse_toml not evaluated ({type(ex).__name__}: {str(ex)[:80]})")
        return
    ctx.check(rule, not wrong, f"_parse_toml: [tool.bumpver] > [bumpver] > [pycalver] > nothing, no lookup without a membership test ({n} documents evaluated)",
              "config._parse_toml: the bumpver section of a TOML document is not found / a document without one raises", "; ".join(wrong[:2]), loc=fn.loc(),
              witness={"pyproject.toml": "[tool.black]\nline-length = 100\n"})
