"""C03 - after an update no configured occurrence is left stale."""
from __future__ import annotations

import ast
import typing as T

from sa import shapes
from sa.boolfn import BF
from sa.model import AnalysisError, call_arg, const_str, unparse, walk_no_nested
from sa.pathcond import PathCond, norm_atom

TECHNIQUE = "def-use (lost-update) rule on the line store, path-condition check of the 'all patterns found' gate, structural enumeration/wiring rules"
EXPLANATION = (
    "Decides the structural necessary conditions for 'every matched occurrence shows the new version': (R1) in each "
    "rewrite_lines the value stored into the result line data-depends on the *accumulated* line (a store built only from "
    "the old line loses the first replacement when two patterns match one line) and spans are applied right-to-left or "
    "shifted; (R2) rewrite_lines returns normally only under 'every pattern was found'; (R3) match enumeration visits all "
    "patterns x all lines with no early exit and the overlap test is the interval-overlap predicate on the same line; "
    "(R4) the replacement is rendered from the match's own pattern and the new version info, and {version} / "
    "{pep440_version} are expanded from the configured version pattern; (R5) the config file always carries a pattern "
    "for its own current_version line."
)
LEVEL_NOTE = ("Not decided: occurrences dropped by overlap suppression on a different line than the one that satisfied "
              "the found-patterns gate (value dependent); rendering correctness itself is C02/C15.")

ENGINES = ("v2rewrite", "v1rewrite")


def _stores(fn, list_name: str) -> T.List[ast.Assign]:
    out = []
    for n in walk_no_nested(fn.node):
        if isinstance(n, ast.Assign):
            for t in n.targets:
                if isinstance(t, ast.Subscript) and isinstance(t.value, ast.Name) and t.value.id == list_name:
                    out.append(n)
    return out


def run(ctx) -> None:
    prog, cfgs = ctx.prog, ctx.cfgs
    ctx.rule("R1", "replacements accumulate: the stored line depends on a read of the result list; spans right-to-left or shifted")
    ctx.rule("R2", "rewrite_lines returns normally only when every pattern was found")
    ctx.rule("R3", "iter_matches enumerates all patterns x all lines, no early exit; overlap test is same-line interval overlap")
    ctx.rule("R4", "replacement rendered from the match's own pattern with the new version; placeholders expanded from the configured version pattern")
    ctx.rule("R5", "the config file's own current_version line is always a configured pattern (taken from a bumpver section only)")
    ctx.rule("R7", "prerequisite: every pattern written in a setup.cfg reaches the rewrite - the INI reader hands on every non-blank line of a file_patterns value (C18/R5)")
    from sa.report import run_prerequisite
    run_prerequisite(ctx, "C18", ("R5",), "R7")
    ctx.rule("R6", "one file, one entry: file keys are canonical paths and equal keys are merged; merged lists are freshly built per file")

    for eng in ENGINES:
        fq = f"{eng}.rewrite_lines"
        fn = prog.function(fq)
        ctx.visit(fq)
        ctx.require(len(fn.params) >= 3, f"{fq} signature changed")
        p_patterns, p_vinfo, p_old = fn.params[0], fn.params[1], fn.params[2]
        # result list: a copy of old_lines that is returned
        rets = [n for n in walk_no_nested(fn.node) if isinstance(n, ast.Return) and n.value is not None]
        ctx.require(rets and all(isinstance(r.value, ast.Name) for r in rets), f"{fq} does not return a list variable")
        res = rets[0].value.id
        init = shapes.single_def(fn, res)
        ctx.require(init is not None, f"{fq}: result list `{res}` is not initialised exactly once")
        init_txt = unparse(init)
        ctx.check("R1", init_txt in (f"{p_old}[:]", f"list({p_old})", f"{p_old}.copy()", f"{p_old}[::]"),
                  f"{fq}: result starts as a copy of {p_old}",
                  f"{fq}: result list does not start as a copy of the old lines", f"`{res} = {init_txt}`", loc=fn.loc(init))
        stores = _stores(fn, res)
        ctx.floor("R1", f"stores into the result list of {fq}", len(stores), 1)
        for st in stores:
            reads_acc = shapes.flows_from(fn, st.value, lambda e: isinstance(e, ast.Subscript) and isinstance(e.value, ast.Name)
                                          and e.value.id == res and isinstance(e.ctx, ast.Load))
            what = f"{fq}: value stored at L{st.lineno} derives from the accumulated line `{res}[...]`"
            if not reads_acc:
                ctx.bad("R1", f"{fq}: replacement is built from the old line (lost update when two patterns match one line)",
                        f"`{unparse(st)}` with `{unparse(shapes.resolve_alias(fn, st.value))[:90]}` never reads `{res}`: a second match on the "
                        f"same line overwrites the first replacement, the function returns normally and a stale version stays in the file",
                        loc=fn.loc(st), what=what,
                        witness={"line": 'ver="1.0" pep="1.0"', "patterns": ['ver="{version}"', 'pep="{pep440_version}"'],
                                 "effect": "only the second pattern's occurrence is updated"})
                continue
            ctx.ok("R1", what)
            loops = shapes.enclosing_loops(fn, st)
            ctx.require(loops, f"{fq}: accumulating store is not inside a loop")
            it = shapes.resolve_alias(fn, loops[-1].iter) if isinstance(loops[-1], ast.For) else None
            rtl = False
            idx_var = None
            descending_index = False
            if isinstance(loops[-1], ast.While):
                # `i = len(L) - 1; while i >= 0: x = L[i]; i -= 1; ...`  walks L backwards
                cs_w = shapes.compare_shape(loops[-1].test)
                if cs_w and isinstance(cs_w[1], ast.Name) and isinstance(cs_w[2], ast.Constant) and ((cs_w[0] == ">=" and cs_w[2].value == 0) or (cs_w[0] == ">" and cs_w[2].value == -1)):
                    idx_var = cs_w[1].id
                    dec = [n_ for n_ in ast.walk(loops[-1]) if isinstance(n_, ast.AugAssign) and unparse(n_.target) == idx_var and isinstance(n_.op, ast.Sub)
                           and isinstance(n_.value, ast.Constant) and n_.value.value == 1]
                    inc = [n_ for n_ in ast.walk(loops[-1]) if isinstance(n_, (ast.AugAssign, ast.Assign)) and n_ not in dec
                           and any(isinstance(t_, ast.Name) and t_.id == idx_var for t_ in ([n_.target] if isinstance(n_, ast.AugAssign) else n_.targets))]
                    start = [v_ for _s, v_ in shapes.local_defs(fn, idx_var) if v_ is not None and not isinstance(_s, ast.AugAssign)]
                    subs = [x_ for x_ in ast.walk(loops[-1]) if isinstance(x_, ast.Subscript) and unparse(x_.slice) == idx_var and isinstance(x_.value, ast.Name)]
                    if len(dec) == 1 and not inc and len(start) == 1 and subs and len({x_.value.id for x_ in subs}) == 1 \
                            and unparse(start[0]).replace(" ", "") == f"len({subs[0].value.id})-1":
                        it = shapes.resolve_alias(fn, subs[0].value)
                        descending_index = True
            if isinstance(it, ast.Call):
                f = unparse(it.func)
                if f == "sorted":
                    rev = [kw for kw in it.keywords if kw.arg == "reverse"]
                    rtl = bool(rev) and isinstance(rev[0].value, ast.Constant) and rev[0].value.value is True
                    if descending_index:
                        rtl = not rtl          # an ascending list walked from its end
                    key = [kw.value for kw in it.keywords if kw.arg == "key"]
                    if key:
                        # a key that looks at the line number only keeps matches of one line in match order (stable sort)
                        k = key[0]
                        uses_span = isinstance(k, ast.Lambda) and any(
                            (isinstance(x, ast.Subscript) and isinstance(x.slice, ast.Constant) and x.slice.value == 1) or
                            (isinstance(x, ast.Subscript) and isinstance(x.slice, ast.Slice)) or
                            (isinstance(x, ast.Attribute) and x.attr == "span") for x in ast.walk(k.body)) or (isinstance(k, ast.Lambda) and unparse(k.body) == k.args.args[0].arg)
                        rtl = rtl and uses_span
                elif f == "reversed":
                    rtl = not descending_index
            shifted = any(isinstance(n, ast.AugAssign) and unparse(n.target) != idx_var for n in ast.walk(loops[-1]))
            ctx.check("R1", rtl or shifted,
                      f"{fq}: spans are applied right-to-left (or shifted by an offset) on the accumulated line",
                      f"{fq}: spans of the old line are applied to an already modified line in match order",
                      f"the loop at L{loops[-1].lineno} iterates `{unparse(loops[-1].iter if isinstance(loops[-1], ast.For) else loops[-1].test)[:60]}`; after the first replacement on a line the spans "
                      f"of later matches on that line are stale unless processed right-to-left or shifted",
                      loc=fn.loc(loops[-1]))
            # the replaced span must be the match's own span
        # shape of the spliced value: B[:l] + replacement + B[r:]
        all_patterns_found_rule(ctx, eng, "R2")

        # ---------------- R4
        match_loops = [n for n in walk_no_nested(fn.node) if isinstance(n, ast.For) and "iter_matches" in unparse(n.iter)]
        ctx.require(len(match_loops) == 1 and isinstance(match_loops[0].target, ast.Name), f"{fq}: match loop shape changed")
        mvar = match_loops[0].target.id
        im = match_loops[0].iter
        ctx.check("R3", isinstance(im, ast.Call) and [unparse(a) for a in im.args] == [p_old, p_patterns],
                  f"{fq}: iter_matches({p_old}, {p_patterns}) - all lines, all patterns",
                  f"{fq}: matches are not enumerated over all old lines and all patterns", f"`{unparse(im)}`", loc=fn.loc(im))
        # the consumer must take every match: no break / return inside the loop over iter_matches, and the replacement
        # is recorded on every iteration
        early = [n for n in ast.walk(match_loops[0]) if isinstance(n, (ast.Break, ast.Return)) and getattr(n, "_inline_exit", None) is None]
        ctx.check("R3", not early, f"{fq}: the loop over iter_matches consumes every match (no break / return)",
                  f"{fq}: matches after an early exit of the collection loop are ignored",
                  f"`{unparse(early[0]) if early else ''}` at L{early[0].lineno if early else 0} leaves the loop over iter_matches: occurrences on later lines stay at the old version "
                  f"although the update succeeds", loc=fn.loc(early[0]) if early else fn.loc(), witness={"file": "two lines that both match the last pattern"})
        ver_mod = "v2version" if eng == "v2rewrite" else "v1version"
        fmt_calls = shapes.find_calls(prog, fn, f"{ver_mod}.format_version")
        ctx.floor("R4", f"format_version calls in {fq}", len(fmt_calls), 1)
        fmt_fn = prog.function(f"{ver_mod}.format_version")
        for c in fmt_calls:
            a_v = call_arg(c, fmt_fn, "vinfo")
            a_p = call_arg(c, fmt_fn, "raw_pattern")
            ctx.check("R4", a_v is not None and unparse(a_v) == p_vinfo, f"{fq}: format_version renders `{p_vinfo}`",
                      f"{fq}: replacement is not rendered from the new version info", f"`{unparse(c)}`", loc=fn.loc(c))
            from_match = a_p is not None and shapes.flows_from(fn, a_p, lambda e: isinstance(e, ast.Attribute) and unparse(e) in (f"{mvar}.pattern.raw_pattern",))
            ctx.check("R4", from_match, f"{fq}: the rendered pattern derives from `{mvar}.pattern.raw_pattern`",
                      f"{fq}: replacement is not rendered from the match's own pattern", f"`{unparse(c)}`", loc=fn.loc(c))
        # the spliced span is the match's span and the store index is the match's line
        for st in stores:
            tgt = st.targets[0]
            idx_ok = shapes.flows_from(fn, tgt.slice, lambda e: isinstance(e, ast.Attribute) and e.attr == "lineno") or \
                shapes.flows_from(fn, tgt.slice, lambda e: isinstance(e, ast.Name) and e.id == "lineno")
            ctx.check("R4", idx_ok, f"{fq}: store index is the match's line number",
                      f"{fq}: replacement is stored at a line other than the match's", f"`{unparse(st)}`", loc=fn.loc(st))

    # ---------------------------------------------------------------- R3 (parse module)
    im = prog.function("parse.iter_matches")
    # the per-pattern line search is a generator of its own in the pinned tree; merged into iter_matches it is the inner loop
    merged = not prog.has_function("parse._iter_for_pattern")
    ifp = im if merged else prog.function("parse._iter_for_pattern")
    # the overlap test is a helper of its own in the pinned tree; inlined into iter_matches it is decided by evaluating iter_matches
    ho = prog.function("parse._has_overlap") if prog.has_function("parse._has_overlap") else None
    ctx.visit(im.fq, ifp.fq, *([ho.fq] if ho else []))
    im_evaluated = None if merged else iter_matches_eval(ctx, "R3")
    if ho is None:
        ctx.require(im_evaluated is not None, "parse._has_overlap is gone and parse.iter_matches cannot be evaluated")
        overlap_order_types_eval(ctx, "R3")
    for fn in ((im,) if merged else (im, ifp)):
        if fn is im and im_evaluated is not None:
            continue          # which matches are yielded is decided by the evaluation (several matches per pattern, several patterns)
        bad = [n for n in walk_no_nested(fn.node) if isinstance(n, (ast.Break, ast.Return)) and not (isinstance(n, ast.Return) and n.value is None and False)]
        ctx.check("R3", not bad, f"{fn.fq}: no break / early return in the enumeration",
                  f"{fn.fq}: enumeration can stop early", f"{[unparse(b) for b in bad]}", loc=fn.loc(bad[0]) if bad else fn.loc())
        ctx.check("R3", fn.is_generator, f"{fn.fq} yields its matches", f"{fn.fq}: no longer a generator", "", loc=fn.loc())
    loops = [n for n in walk_no_nested(im.node) if isinstance(n, ast.For)]
    ctx.require(len(loops) == 2 or (im_evaluated is not None and len(loops) >= 2), "parse.iter_matches loop nest changed")
    outer, inner = sorted(loops, key=lambda l: l.lineno)[:2]
    ctx.check("R3", unparse(outer.iter) == im.params[1], f"iter_matches: outer loop over all of `{im.params[1]}`",
              "parse.iter_matches: not all patterns are enumerated", f"`for ... in {unparse(outer.iter)}`", loc=im.loc(outer))
    if merged:
        in_ok = unparse(inner.iter) == f"enumerate({im.params[0]})"
        l2 = [inner]
    else:
        in_ok = isinstance(inner.iter, ast.Call) and [unparse(a) for a in inner.iter.args] == [im.params[0], unparse(outer.target)]
        l2 = [n for n in walk_no_nested(ifp.node) if isinstance(n, ast.For)]
    ctx.check("R3", in_ok, "iter_matches: inner loop over all lines for the pattern",
              "parse.iter_matches: inner enumeration does not cover all lines for the pattern", f"`{unparse(inner.iter)}`", loc=im.loc(inner))
    folded_search = None if merged else line_search_fold(ctx, ifp)
    if folded_search is not None:
        ctx.check("R3", not folded_search, f"{ifp.name}: every line is searched once, as it is, and yields (zero-based line number, line, pattern, span, text) iff the match is not empty "
                  "(24 orders of no match / empty / one character / longer match folded)",
                  f"parse.{ifp.name}: not every line is searched / matches are dropped (or empty matches kept) by the per-line test",
                  "; ".join(folded_search[:2]), loc=ifp.loc(), witness={"cases": folded_search[:3]})
    else:
        ctx.require(len(l2) == 1, "parse._iter_for_pattern loop shape changed")
        it_txt = unparse(l2[0].iter)
        ctx.check("R3", it_txt in (f"enumerate({ifp.params[0]})",), f"{ifp.name}: loop over enumerate({ifp.params[0]}) (every line, zero based)",
                  f"parse.{ifp.name}: not every line is searched", f"`for ... in {it_txt}`", loc=ifp.loc(l2[0]))
    # helper form: a line yields a match iff the search found something non-empty (an empty match would splice the new
    # version in at a position that matched nothing; dropping one-character matches would leave them stale)
    if not merged and folded_search is None:
        iys = [n for n in ast.walk(ifp.node) if isinstance(n, ast.Yield)]
        ctx.require(len(iys) == 1, "parse._iter_for_pattern yield count changed")
        icfg_ = cfgs.get(ifp.fq)
        ipc_ = PathCond(icfg_)
        yc = ipc_.reach(icfg_.node_containing(iys[0])).drop_unused()
        svars = {unparse(tg) for _s, tg, v in shapes.iter_assigns(ifp.node) if isinstance(v, ast.Call) and isinstance(v.func, ast.Attribute) and v.func.attr == "search"}
        found_atoms = [a for a in yc.atoms if a in svars]
        def _inl(a_: str) -> str:
            e_ = ast.parse(a_, mode="eval").body
            if isinstance(e_, ast.Name) and e_.id in svars:
                return a_
            # inline locals but keep the search variable itself
            import copy as _cp
            defs_ = {unparse(tg): v for _s, tg, v in shapes.iter_assigns(ifp.node) if isinstance(tg, ast.Name) and unparse(tg) not in svars}

            class _T(ast.NodeTransformer):
                def visit_Name(self, n_: ast.Name) -> ast.AST:
                    return _cp.deepcopy(defs_[n_.id]) if n_.id in defs_ and isinstance(n_.ctx, ast.Load) else n_
            return unparse(_T().visit(e_)).replace(" ", "")
        nonempty_atoms = [a for a in yc.atoms if a not in svars and any(_inl(a) in (f"{v_}.group(0)", f"{v_}.group()", f"{v_}[0]", f"{v_}.end()>{v_}.start()", f"{v_}.start()<{v_}.end()",
                                                                               f"{v_}.start()!={v_}.end()") for v_ in svars)]
        ok = len(found_atoms) == 1 and len(nonempty_atoms) == 1 and yc.equiv(BF.var(found_atoms[0]) & BF.var(nonempty_atoms[0]))
        ctx.check("R3", ok, "_iter_for_pattern yields a line's match iff the search found a non-empty text",
                  "parse._iter_for_pattern: matches are dropped (or empty matches kept) by the per-line test",
                  f"yields when {yc.to_dnf()}; required: <search result> & <matched text non-empty>: e.g. with `> 1` a one-character occurrence (MAJOR `1`) is never rewritten", loc=ifp.loc(iys[0]))
    # yield only suppressed by overlap: decided by evaluation when the body can be evaluated (helper form)
    if im_evaluated is not None:
        ys = []
    else:
        ys = [n for n in ast.walk(inner) if isinstance(n, ast.Yield)]
        ctx.require(len(ys) == 1, "iter_matches yield count changed")
    if ys:
        cfg = cfgs.get(im.fq)
        pc = PathCond(cfg)
        ynode = cfg.node_containing(ys[0])
        ycond = pc.reach(ynode).drop_unused()

        search_vars = {unparse(tg) for _s, tg, v in shapes.iter_assigns(im.node) if isinstance(v, ast.Call) and isinstance(v.func, ast.Attribute) and v.func.attr == "search"}

        def ycls(leaf: ast.AST) -> T.Tuple[str, bool]:
            if isinstance(leaf, ast.Call) and unparse(leaf.func).endswith("_has_overlap"):
                return "OVERLAP", True
            if merged and isinstance(leaf, ast.Name) and leaf.id in search_vars:
                return "FOUND", True
            cs_ = shapes.compare_shape(leaf)
            if merged and cs_ and cs_[0] in (">", "!=") and isinstance(cs_[2], ast.Constant) and cs_[2].value == 0 and any(unparse(cs_[1]) == f"len({v_}.group(0))" for v_ in search_vars):
                return "NONEMPTY", True
            if merged and isinstance(leaf, ast.Call) and isinstance(leaf.func, ast.Attribute) and leaf.func.attr == "search" and unparse(leaf.func.value).endswith(".regexp"):
                return "FOUND", True             # the search result, inlined
            if merged and isinstance(leaf, ast.Call) and isinstance(leaf.func, ast.Attribute) and leaf.func.attr == "group" and (not leaf.args or unparse(leaf.args[0]) == "0"):
                return "NONEMPTY", True          # norm_atom reads `len(x) > 0` as the truth of x
            raise AnalysisError(f"C03/R3: yield condition leaf not enumerated: {unparse(leaf)[:60]}")
        try:
            ysem = shapes.semantic_bf(ycond, im, ycls, prog)
            y_ok = ysem.equiv(~BF.var("OVERLAP")) if not merged else ysem.equiv(BF.var("FOUND") & BF.var("NONEMPTY") & ~BF.var("OVERLAP"))
        except AnalysisError:
            ysem, y_ok = ycond, False
        ctx.check("R3", y_ok,
                  f"iter_matches: a match is yielded iff it does not overlap an earlier match  [{ysem.to_dnf()}]",
                  "parse.iter_matches: matches are suppressed by something other than the overlap test",
                  f"yield condition: {ycond.to_dnf()}", loc=im.loc(ys[0]))
    # overlap predicate
    if ho is not None:
        overlap_predicate_rule(ctx, ho)
    every_file_rule(ctx, "R2")

    # ---------------------------------------------------------------- R4 (placeholder expansion)
    placeholder_rules(ctx)
    return


def every_file_rule(ctx, rule: str) -> None:
    """<eng>.iter_rewritten hands on a record for every configured file: in the loop over the configured files no path leads
    from the start of an iteration to the next one (or to the end) without passing the `yield` - no `continue`, no skipped
    file.  (A file whose patterns happen to render the same text for the old and the new version may still be out of date.)"""
    prog, cfgs = ctx.prog, ctx.cfgs
    n_loops = 0
    for eng in ("v2rewrite", "v1rewrite"):
        it = prog.function(f"{eng}.iter_rewritten")
        ctx.visit(it.fq)
        cfg = cfgs.get(it.fq)
        ynodes = {cfg.node_containing(y) for y in ast.walk(it.node) if isinstance(y, (ast.Yield, ast.YieldFrom))}
        for n in cfg.nodes:
            if n.kind != "iter" or n.id not in cfg.reachable():
                continue
            body_entries = [dst for dst, label in cfg.succ[n.id] if label == ("iter", "next")]
            if not body_entries:
                continue
            n_loops += 1
            skipping = any(n.id in cfg.reachable(start=b, blocked_nodes=ynodes, skip_exc=True) or cfg.exit in cfg.reachable(start=b, blocked_nodes=ynodes | {n.id}, skip_exc=True)
                           for b in body_entries if b not in ynodes)
            ctx.check(rule, not skipping, f"{it.fq}: every iteration over the configured files yields its record",
                      f"{it.fq}: a configured file can be skipped by the rewrite", "an iteration of the loop over the configured files can end without a `yield`: that file is not rewritten although "
                      "its patterns match (a partial pattern such as a copyright year in a file that is already out of date stays stale on every update)", loc=it.loc(n.ast),
                      witness={"file_patterns": {"LICENSE": ["Copyright (c) 2018-YYYY"]}})
            # ... and that record is computed in this iteration, from this file's patterns and content: no path from the start of an
            # iteration to the `yield` avoids the call that matches the patterns against the content (a cache in front of it answers
            # for another file whose patterns differ)
            vnodes = {cfg.node_containing(c) for c in ast.walk(it.node)
                      if isinstance(c, ast.Call) and unparse(c.func).split(".")[-1] in ("rfd_from_content", "rewrite_lines", "iter_matches")}
            ctx.floor(rule, f"{it.fq}: calls that match this file's patterns against its content", len(vnodes), 1)
            bypass = any(y in cfg.reachable(start=b, blocked_nodes=vnodes | {n.id}, skip_exc=True) for b in body_entries if b not in vnodes for y in ynodes)
            ctx.check(rule, not bypass, f"{it.fq}: the record of every file is computed from its own patterns and content in its iteration",
                      f"{it.fq}: a record can be yielded without matching this file's patterns against its content",
                      "a path through the loop body reaches the `yield` without the call that validates and rewrites this file (e.g. a result cached under the content alone): "
                      "a file that is byte-identical to an earlier one but configured with other patterns gets the other file's rendering, and its own non-matching pattern is never reported",
                      loc=it.loc(n.ast), witness={"file_patterns": {"a.txt": ["{version}"], "b.txt": ["{pep440_version}"]}, "content": "identical"})
    ctx.floor(rule, "loops over the configured files in iter_rewritten", n_loops, 2)


def overlap_predicate_rule(ctx, ho) -> None:
    prog, cfgs = ctx.prog, ctx.cfgs
    rets = [n for n in ast.walk(ho.node) if isinstance(n, ast.Return) and isinstance(n.value, ast.Constant) and n.value.value is True]
    needle = ho.params[0]
    any_form = None
    if not rets:
        # `return any(<test> for span in haystack)`
        r_all = [n for n in walk_no_nested(ho.node) if isinstance(n, ast.Return) and n.value is not None]
        if len(r_all) == 1:
            v = shapes.inline(ho, r_all[0].value, prog)
            if isinstance(v, ast.Call) and unparse(v.func) == "any" and len(v.args) == 1 and isinstance(v.args[0], (ast.GeneratorExp, ast.ListComp)) \
                    and len(v.args[0].generators) == 1 and isinstance(v.args[0].generators[0].target, ast.Name) and not v.args[0].generators[0].ifs \
                    and unparse(v.args[0].generators[0].iter) == ho.params[1]:
                any_form = v.args[0]
    if any_form is not None:
        sv = any_form.generators[0].target.id
        test_expr = any_form.elt
        cond = None
    else:
        ctx.require(len(rets) == 1, "_has_overlap shape changed")
        hcfg = cfgs.get(ho.fq)
        hpc = PathCond(hcfg)
        rn = hcfg.node_containing(rets[0].value)
        cond = hpc.reach(rn)
        span_var = [n for n in walk_no_nested(ho.node) if isinstance(n, ast.For)]
        ctx.require(len(span_var) == 1 and isinstance(span_var[0].target, ast.Name), "_has_overlap loop shape changed")
        sv = span_var[0].target.id
        test_expr = rets[0]

    # The predicate touches the two spans only through comparisons of (lineno, start, end): it is decided for every
    # order type of the four endpoints (values 0..3, start <= end on both sides) and same / different line.
    TERMS = {f"{needle}.start": "ns", f"{needle}.end": "ne", f"{sv}.start": "ss", f"{sv}.end": "se", f"{needle}.lineno": "nl", f"{sv}.lineno": "sl"}

    def classify(leaf: ast.AST) -> T.Tuple[str, bool]:
        cs = shapes.compare_shape(leaf)
        if cs is None or unparse(cs[1]) not in TERMS or unparse(cs[2]) not in TERMS:
            raise AnalysisError(f"C03/R3: overlap leaf is not a comparison of span fields: {unparse(leaf)}")
        return f"{TERMS[unparse(cs[1])]} {cs[0]} {TERMS[unparse(cs[2])]}", True
    ov = shapes.semantic_bf(cond, ho, classify, prog) if cond is not None else shapes.bool_expr_bf(test_expr, classify)
    import itertools
    import operator as _op
    OPS = {"<": _op.lt, "<=": _op.le, ">": _op.gt, ">=": _op.ge, "==": _op.eq, "!=": _op.ne}
    wrong = None
    n_cases = 0
    for ns, ne, ss, se in itertools.product(range(4), repeat=4):
        if ns > ne or ss > se:
            continue
        for same in (True, False):
            env = {"ns": ns, "ne": ne, "ss": ss, "se": se, "nl": 7, "sl": 7 if same else 8}
            f = ov
            for a in list(ov.atoms):
                l_, o_, r_ = a.split(" ")
                f = f.restrict(a, OPS[o_](env[l_], env[r_]))
            got = f.drop_unused().is_true()
            want = same and ns <= se and ne >= ss
            n_cases += 1
            if got != want and wrong is None:
                wrong = {"needle": (ns, ne), "span": (ss, se), "same line": same, "predicate": got, "intervals intersect": want}
    ctx.check("R3", wrong is None, f"_has_overlap: true iff same line and the closed intervals intersect  [{n_cases} order types]",
              "parse._has_overlap: predicate is not 'same line and intervals intersect'",
              f"extracted {ov.to_dnf()}; differs for {wrong}: e.g. a later match that fully contains an earlier one is not recognised as overlapping, "
              f"both replacements are applied and text outside the matches is eaten" if wrong else "", loc=ho.loc(test_expr), witness=wrong)



def placeholder_rules(ctx) -> None:
    prog, cfgs = ctx.prog, ctx.cfgs
    # ---------------------------------------------------------------- R4 (placeholder expansion)
    np_fn = prog.function("v2patterns.normalize_pattern")
    ctx.visit(np_fn.fq)
    vp, rp = np_fn.params[0], np_fn.params[1]
    reps = [c for c in ast.walk(np_fn.node) if isinstance(c, ast.Call) and isinstance(c.func, ast.Attribute) and c.func.attr == "replace" and len(c.args) == 2]
    def _cs(fn_, e: ast.AST) -> T.Optional[str]:
        try:
            v = prog.fold(fn_.module, e)
        except AnalysisError:
            return None
        return v if isinstance(v, str) else None
    by_ph = {_cs(np_fn, c.args[0]): c for c in reps}
    ok_v = "{version}" in by_ph and unparse(by_ph["{version}"].args[1]) == vp
    ctx.check("R4", ok_v, "normalize_pattern: {version} -> the configured version pattern",
              "v2patterns.normalize_pattern: {version} is not expanded to the version pattern", f"{[unparse(c) for c in reps]}", loc=np_fn.loc())
    ok_p = "{pep440_version}" in by_ph and shapes.flows_from(np_fn, by_ph["{pep440_version}"].args[1],
                                                              lambda e: isinstance(e, ast.Call) and unparse(e.func) == "_convert_to_pep440" and unparse(e.args[0]) == vp)
    ctx.check("R4", ok_p, "normalize_pattern: {pep440_version} -> _convert_to_pep440(version pattern)",
              "v2patterns.normalize_pattern: {pep440_version} is not expanded from the version pattern", f"{[unparse(c) for c in reps]}", loc=np_fn.loc())
    # ... both, wherever they occur: normalize_pattern evaluated on raw patterns that name one, the other, both (in either order, repeated) or none
    from sa.model import CannotFold as _CF, EvalError as _EE
    wrong_np: T.List[str] = []
    samples_np = ["{version}", "{pep440_version}", "a {version} b {pep440_version} c", "x-{pep440_version}/{version}/{pep440_version}", "no placeholder", "{version}{version}"]
    try:
        for raw_ in samples_np:
            env_ = {vp: "<VP>", rp: raw_, "__strict__": True, "__stubs__": {"_convert_to_pep440": lambda f, node: "<PEP>"}}
            try:
                got_, _ys = prog.run_body(np_fn, env_)
            except _EE as ex_:
                got_ = f"raises {ex_}"
            want_ = raw_.replace("{version}", "<VP>").replace("{pep440_version}", "<PEP>")
            if got_ != want_:
                wrong_np.append(f"{raw_!r} -> {got_!r}, expected {want_!r}")
        ctx.check("R4", not wrong_np, f"normalize_pattern expands every occurrence of both placeholders ({len(samples_np)} raw patterns evaluated)",
                  "v2patterns.normalize_pattern: a placeholder is left unexpanded for some raw patterns", "; ".join(wrong_np[:2]), loc=np_fn.loc(),
                  witness={"pattern": "dist/{version}/pkg-{pep440_version}.tar.gz"})
    except (_CF, TypeError, AttributeError, KeyError, ValueError, IndexError) as ex_:
        ctx.observe(f"v2patterns.normalize_pattern not evaluated ({type(ex_).__name__}: {str(ex_)[:80]})")
    n1 = prog.function("v1patterns._normalized_pattern")
    ctx.visit(n1.fq)
    reps1 = [c for c in ast.walk(n1.node) if isinstance(c, ast.Call) and isinstance(c.func, ast.Attribute) and c.func.attr == "replace" and len(c.args) == 2]
    ok1 = any(_cs(n1, c.args[0]) == "{version}" and unparse(c.args[1]) == n1.params[0] for c in reps1)
    ctx.check("R4", ok1, "_normalized_pattern (v1): {version} -> the configured version pattern",
              "v1patterns._normalized_pattern: {version} is not expanded to the version pattern", f"{[unparse(c) for c in reps1][:3]}", loc=n1.loc())
    # compile_pattern goes through the normaliser; config passes the configured version_pattern
    for modname, norm in (("v2patterns", "v2patterns.normalize_pattern"), ("v1patterns", "v1patterns._normalized_pattern")):
        cp = prog.function(f"{modname}.compile_pattern")
        calls = shapes.find_calls(prog, cp, norm)
        ctx.check("R4", len(calls) == 1 and unparse(calls[0].args[0]) == cp.params[0],
                  f"{modname}.compile_pattern normalises with its version_pattern argument",
                  f"{modname}.compile_pattern: search pattern is not normalised with the version pattern", f"{[unparse(c) for c in calls]}", loc=cp.loc())
        cps = prog.function(f"{modname}.compile_patterns")
        calls = shapes.find_calls(prog, cps, f"{modname}.compile_pattern")
        ctx.check("R4", len(calls) == 1 and unparse(calls[0].args[0]) == cps.params[0],
                  f"{modname}.compile_patterns passes version_pattern on", f"{modname}.compile_patterns: version pattern not passed on", "", loc=cps.loc())
    for which, modname in (("_compile_v2_file_patterns", "v2patterns"), ("_compile_v1_file_patterns", "v1patterns")):
        f = prog.function(f"config.{which}")
        ctx.visit(f.fq)
        calls = shapes.find_calls(prog, f, f"{modname}.compile_patterns")
        good = len(calls) >= 1 and all(
            unparse(shapes.resolve_alias(f, c.args[0])) == "raw_cfg['version_pattern']" for c in calls)
        ctx.check("R4", good, f"config.{which}: patterns compiled with raw_cfg['version_pattern']",
                  f"config.{which}: file patterns are not compiled with the configured version pattern",
                  f"{[unparse(c) for c in calls]}", loc=f.loc())

    default_calendar_rule(ctx, "R4")
    shapes.memo_rule(ctx, "R4")
    shapes.config_version_validated_rule(ctx, "R5")

    # ---------------------------------------------------------------- R5
    self_pattern_rule(ctx, "R5")
    section_scan_rule(ctx, "R5")

    # ---------------------------------------------------------------- R6
    canonical_keys_rule(ctx, "R6")
    cf = prog.function("config._compile_file_patterns")
    ctx.visit(cf.fq)
    g6 = cfgs.get(cf.fq)
    ext = [n for n in g6.nodes if n.kind == "stmt" and "extend(" in n.text()]
    sto = [n for n in g6.nodes if n.kind == "stmt" and isinstance(n.ast, ast.Assign) and isinstance(n.ast.targets[0], ast.Subscript) and unparse(n.ast.targets[0].value) == "file_patterns"]
    ctx.check("R6", len(ext) == 1 and len(sto) == 1, "_compile_file_patterns: patterns of entries with the same key are merged (extend) instead of replaced",
              "config._compile_file_patterns: repeated file entries replace each other", "", loc=cf.loc())
    for prod, modname in (("config._compile_v2_file_patterns", "v2patterns"), ("config._compile_v1_file_patterns", "v1patterns")):
        pf2 = prog.function(prod)
        ys2 = [n for n in ast.walk(pf2.node) if isinstance(n, ast.Yield)]
        ctx.require(ys2 and all(isinstance(y.value, ast.Tuple) and len(y.value.elts) == 2 for y in ys2), f"{prod}: yield shape changed")
        for y2 in ys2:
            lst = shapes.resolve_alias(pf2, y2.value.elts[1])
            fresh = isinstance(lst, ast.Call) and prog.resolve_call(pf2, lst, count=False).name == f"{modname}.compile_patterns"
            ctx.check("R6", fresh, f"{prod}: the yielded pattern list is a fresh compile_patterns(...) result (the consumer extends it in place)",
                      f"{prod}: yielded pattern lists can be shared between files although _compile_file_patterns extends them in place",
                      f"yielded `{unparse(y2.value.elts[1])}` = `{unparse(lst)[:60]}`: patterns of one entry leak into every file that shares the list", loc=pf2.loc(y2))
        cps2 = prog.function(f"{modname}.compile_patterns")
        rv = [n for n in walk_no_nested(cps2.node) if isinstance(n, ast.Return)]
        fresh_list = len(rv) == 1 and (isinstance(rv[0].value, (ast.ListComp, ast.List))
                                       or (isinstance(rv[0].value, ast.Name) and shapes.loop_as_listcomp(cps2, rv[0].value.id, prog) is not None)
                                       or (isinstance(rv[0].value, ast.Call) and unparse(rv[0].value.func) in ("list", "sorted")))
        ctx.check("R6", fresh_list, f"{modname}.compile_patterns builds a new list", f"{modname}.compile_patterns may return a shared list", "", loc=cps2.loc())


def header_literals_of_test(prog, fn, tree: ast.AST) -> T.Set[str]:
    """Header strings that make an exact test true: `x == "[bumpver]"` or `x in ("[bumpver]", ...)` (collection folded)."""
    cs = shapes.compare_shape(tree)
    if cs and cs[0] == "==" and isinstance(cs[2], ast.Constant) and isinstance(cs[2].value, str) and cs[2].value.startswith("["):
        return {cs[2].value}
    if cs and cs[0] == "==" and isinstance(cs[1], ast.Constant) and isinstance(cs[1].value, str) and cs[1].value.startswith("["):
        return {cs[1].value}
    if isinstance(tree, ast.Compare) and len(tree.ops) == 1 and isinstance(tree.ops[0], ast.In):
        try:
            coll = prog.fold(fn.module, tree.comparators[0])
        except AnalysisError:
            return set()
        if isinstance(coll, (tuple, list, set, frozenset, dict)) and coll and all(isinstance(x, str) and x.startswith("[") for x in coll):
            return set(coll)
    return set()


def all_patterns_found_rule(ctx, eng: str, rule: str) -> None:
    """rewrite_lines of `eng` returns normally only when every pattern was found."""
    prog, cfgs = ctx.prog, ctx.cfgs
    fq = f"{eng}.rewrite_lines"
    fn = prog.function(fq)
    ctx.visit(fq)
    p_patterns = fn.params[0]
    cfg = cfgs.get(fq)
    pc = PathCond(cfg)
    complete = None
    found_sets: T.Set[str] = set()
    for a in pc.atoms:
        tree = ast.parse(a, mode="eval").body
        names = {x.id for x in ast.walk(tree) if isinstance(x, ast.Name)}
        if isinstance(tree, ast.Compare) and isinstance(tree.ops[0], (ast.Eq, ast.LtE, ast.GtE)) and p_patterns in names and len(names) >= 2:
            other = (names - {p_patterns, "set", "frozenset", "len"})
            if other:
                complete = BF.var(a) if complete is None else complete | BF.var(a)
                found_sets |= other
        elif isinstance(tree, ast.Name):
            d = shapes.single_def(fn, tree.id)
            if d is not None and isinstance(d, ast.BinOp) and isinstance(d.op, ast.Sub) and p_patterns in {x.id for x in ast.walk(d.left) if isinstance(x, ast.Name)}:
                complete = ~BF.var(a) if complete is None else complete | ~BF.var(a)
    if complete is None:
        # no test compares the configured patterns with the found ones at all
        ex0 = pc.reach(cfg.exit)
        ctx.require(not ex0.is_false(), f"{fq}: no normal return")
        ctx.bad(rule, f"{fq}: returns normally although a pattern was not found",
                f"no test relates `{p_patterns}` to the set of found patterns (normal return when {ex0.drop_unused().to_dnf()}): a file in which one configured pattern has no match is "
                f"rewritten and the update succeeds", loc=fn.loc(), what=f"{fq}: normal return implies every pattern was found")
        return
    ex = pc.reach(cfg.exit)
    ctx.check(rule, ex.implies(complete) and not ex.is_false(),
              f"{fq}: normal return implies every pattern was found  [exit iff {ex.to_dnf()}]",
              f"{fq}: returns normally although a pattern was not found",
              f"normal return is reachable when {(ex & ~complete).to_dnf()}", loc=fn.loc(), witness=(ex & ~complete).models(1))
    # the found set belongs to this call: patterns found in another file must not count here
    for fs in sorted(found_sets):
        shared = fs in fn.all_params or any(isinstance(v, ast.Name) and v.id in fn.all_params for _st, v in shapes.local_defs(fn, fs) if v is not None)
        ctx.check(rule, not shared, f"{fq}: the found-patterns set `{fs}` is local to the call",
                  f"{fq}: the found-patterns set can be shared between files",
                  f"`{fs}` is (or aliases) a parameter: a pattern that matched in an earlier file counts as found in a later file where it does not match, "
                  f"so that file's fault is not reported and the other files are rewritten", loc=fn.loc(), witness={"files": "two files configured with the same pattern, the second one stale"})
    # found set is filled from the matches actually applied
    adds = [c for c in ast.walk(fn.node) if isinstance(c, ast.Call) and isinstance(c.func, ast.Attribute) and c.func.attr == "add"
            and c.args and unparse(c.args[0]).endswith(".pattern")]
    ctx.check(rule, len(adds) == 1 and bool(shapes.enclosing_loops(fn, adds[0])),
              f"{fq}: found set is filled with `<match>.pattern` inside the match loop",
              f"{fq}: the found-patterns set is not filled from the applied matches", f"adds: {[unparse(a) for a in adds]}", loc=fn.loc())
    # other paths raise NoPatternMatch
    raises = [n for n in cfg.nodes if n.kind == "stmt" and isinstance(n.ast, ast.Raise) and n.id in cfg.reachable()]
    ctx.check(rule, bool(raises) and all((n.extra.get("raised") or "").endswith("NoPatternMatch") for n in raises),
              f"{fq}: every other outcome raises NoPatternMatch ({len(raises)} raise sites)",
              f"{fq}: incomplete match does not raise NoPatternMatch", f"raise sites: {[n.extra.get('raised') for n in raises]}", loc=fn.loc())


def canonical_keys_rule(ctx, rule: str) -> None:
    """File keys produced by the glob expansion are canonical: str(<pathlib glob match>); the raw configured
    string is used only when nothing matched."""
    prog, cfgs = ctx.prog, ctx.cfgs
    ge = prog.function("config._iter_glob_expanded_file_patterns")
    ctx.visit(ge.fq)
    g = cfgs.get(ge.fq)
    pc = PathCond(g)
    ys = [n for n in ast.walk(ge.node) if isinstance(n, ast.Yield)]
    ctx.floor(rule, "yields of _iter_glob_expanded_file_patterns", len(ys), 2)
    n_glob = 0
    glob_vars = set()
    for n in walk_no_nested(ge.node):
        if isinstance(n, ast.Assign) and isinstance(n.targets[0], ast.Name) and any(
                isinstance(c, ast.Call) and isinstance(c.func, ast.Attribute) and c.func.attr in ("glob", "rglob") and isinstance(c.func.value, ast.Call)
                and unparse(c.func.value.func).endswith("Path") for c in ast.walk(n.value)):
            glob_vars.add(n.targets[0].id)
    # the files of an entry are those its text names: the glob is matched with pathlib's defaults (no case folding, no extra roots)
    for c in ast.walk(ge.node):
        if isinstance(c, ast.Call) and isinstance(c.func, ast.Attribute) and c.func.attr in ("glob", "rglob", "iglob"):
            widened = [kw for kw in c.keywords if kw.arg in ("case_sensitive", "recurse_symlinks", "include_hidden", "recursive", "root_dir")
                       and not (kw.arg == "case_sensitive" and isinstance(kw.value, ast.Constant) and kw.value.value in (None, True))]
            ctx.check(rule, not widened, f"_iter_glob_expanded_file_patterns L{c.lineno}: glob with default matching", "config._iter_glob_expanded_file_patterns: the configured glob is matched with widened rules",
                      f"`{unparse(c)[:80]}`: files whose names differ from the configured text (letter case, other roots) are configured too and get rewritten although the configuration does not name them",
                      loc=ge.loc(c), witness={"file_patterns": {"version.txt": ["{version}"]}, "also rewritten": "VERSION.txt"})
    for y in ys:
        ctx.require(isinstance(y.value, ast.Tuple) and len(y.value.elts) == 2, "glob expansion yield shape changed")
        key = y.value.elts[0]
        canonical = False
        if isinstance(key, ast.Call) and unparse(key.func) == "str" and len(key.args) == 1:
            inner = key.args[0]
            canonical = shapes.flows_from(ge, inner, lambda e: isinstance(e, ast.Call) and isinstance(e.func, ast.Attribute) and e.func.attr in ("glob", "rglob")
                                          and isinstance(e.func.value, ast.Call) and unparse(e.func.value.func).endswith("Path"))
            canonical = canonical or shapes.flows_from(ge, inner, lambda e: isinstance(e, ast.Call) and unparse(e.func) in ("os.path.normpath", "pl.Path", "pathlib.Path"))
        elif isinstance(key, ast.Call) and unparse(key.func) == "os.path.normpath":
            canonical = True
        if canonical:
            n_glob += 1
            ctx.ok(rule, f"glob expansion L{y.lineno}: key is str(<pathlib path>) - the canonical relative spelling")
            continue
        r = pc.reach(g.node_containing(y)).drop_unused()
        empty_only = any(v in r.atoms and r.implies(~BF.var(v)) for v in glob_vars)
        ctx.check(rule, empty_only, f"glob expansion L{y.lineno}: the raw configured string is used as key only when no file matched",
                  "config._iter_glob_expanded_file_patterns: an existing file can be keyed by its raw configured spelling (e.g. './README.md'): entries for one file are not merged and the key does not equal the path git reports",
                  f"`{unparse(y)}` reached when {r.to_dnf()}", loc=ge.loc(y), witness={"entries": ["docs/*.md", "./docs/install.md"]})
    if n_glob == 0 and not any(f.rule.endswith("/" + rule) for f in ctx.findings):
        ctx.floor(rule, "canonical glob-match yields", n_glob, 1)
    # every file the glob finds is configured: the hit list is not filtered between the glob call and the yield
    for gv in sorted(glob_vars):
        defs = [(st, v) for st, v in shapes.local_defs(ge, gv)]
        refilter = [st for st, v in defs if v is not None and not any(isinstance(c, ast.Call) and isinstance(c.func, ast.Attribute) and c.func.attr in ("glob", "rglob") for c in ast.walk(v))]
        removing = [c for c in ast.walk(ge.node) if isinstance(c, ast.Call) and isinstance(c.func, ast.Attribute) and unparse(c.func.value) == gv and c.func.attr in ("remove", "pop", "clear")]
        globdef = [v for st, v in defs if v is not None and st not in refilter]
        filtered_at_source = [v for v in globdef if isinstance(shapes.inline(ge, v, ctx.prog), (ast.ListComp, ast.GeneratorExp, ast.SetComp)) and shapes.inline(ge, v, ctx.prog).generators[0].ifs]
        culprit = (refilter or removing or filtered_at_source or [None])[0]
        ctx.check(rule, culprit is None, f"glob expansion: every hit of `{gv}` is yielded (the hit list is not filtered)",
                  "config._iter_glob_expanded_file_patterns: files found by a configured glob are dropped before they are configured",
                  (f"`{unparse(culprit)[:100]}`: files matched by the configured glob (e.g. below a dot-directory such as .github/, or the hidden "
                   f"config file .bumpver.toml itself) silently keep the old version while the update succeeds") if culprit is not None else "",
                  loc=ge.loc(culprit) if culprit is not None else ge.loc(), witness={"glob": "**/*.md", "dropped": ".github/PULL_REQUEST_TEMPLATE.md"})
    # ... and the yield itself is unconditional inside the loop over the hits
    for y in ys:
        lps = shapes.enclosing_loops(ge, y)
        inner = [l for l in lps if isinstance(l, ast.For) and isinstance(l.iter, ast.Name) and l.iter.id in glob_vars]
        if inner:
            conds = [n for n in ast.walk(inner[-1]) if isinstance(n, (ast.If, ast.Continue, ast.Break)) and any(x is y for x in ast.walk(inner[-1]))]
            skipping = [n for n in conds if isinstance(n, (ast.Continue, ast.Break)) or (isinstance(n, ast.If) and any(x is y for x in ast.walk(n)))]
            ctx.check(rule, not skipping, "glob expansion: each hit is yielded unconditionally",
                      "config._iter_glob_expanded_file_patterns: a file found by a configured glob can be skipped",
                      f"`{unparse(skipping[0])[:80]}`" if skipping else "", loc=ge.loc(skipping[0]) if skipping else ge.loc())


def self_pattern_rule(ctx, rule: str) -> None:
    """_parse_raw_config: every return has the config file among file_patterns, guarded by exact key membership."""
    prog, cfgs = ctx.prog, ctx.cfgs
    prc = prog.function("config._parse_raw_config")
    ctx.visit(prc.fq)
    cfg = cfgs.get(prc.fq)
    stores = [n for n in walk_no_nested(prc.node) if isinstance(n, ast.Assign) and isinstance(n.targets[0], ast.Subscript)
              and unparse(n.targets[0]).replace('"', "'") == "raw_cfg['file_patterns'][ctx.config_rel_path]"]
    if not stores:
        ctx.bad(rule, "config._parse_raw_config: the config file's own current_version pattern is never inserted",
                "no store `raw_cfg['file_patterns'][ctx.config_rel_path] = ...`: after an update the config keeps the old current_version", loc=prc.loc(),
                what="_parse_raw_config inserts the self pattern")
        return
    blocked = [nid for st in stores for nid in cfg.nodes_of(st)]
    pc = PathCond(cfg, blocked_nodes=blocked)
    norm = lambda a: a.replace('"', "'").replace(".keys()", "").replace("set(", "").replace("list(", "").replace(")", "")
    memb = [a for a in pc.atoms if norm(a) == "ctx.config_rel_path in raw_cfg['file_patterns']"]
    ex = pc.reach(cfg.exit)
    if len(memb) != 1:
        guards = [a for a in ex.drop_unused().atoms]
        ctx.bad(rule, "config._parse_raw_config: the self pattern is not guarded by exact membership of the config path among the file keys",
                f"the insertion is skipped under {guards}: another entry (e.g. a nested file with the same base name) can suppress the config file's own current_version pattern",
                loc=prc.loc(), what="_parse_raw_config: insertion guarded by `ctx.config_rel_path not in raw_cfg['file_patterns']`", witness={"entries": ["packages/core/setup.cfg"], "config": "setup.cfg"})
    else:
        ctx.check(rule, ex.implies(BF.var(memb[0])),
                  "_parse_raw_config: every return either found the config file among file_patterns or inserted it",
                  "config._parse_raw_config: the config file's own current_version pattern can be missing",
                  f"without the insertion, return is reachable when {(ex & ~BF.var(memb[0])).to_dnf()}", loc=prc.loc())
    for st in stores:
        is_pcv = lambda e: isinstance(e, ast.Call) and unparse(e.func) == "_parse_current_version_default_pattern"
        ok = shapes.flows_from(prc, st.value, is_pcv)
        # ... on every path: each definition of the stored name is that call (a per-format constant is not)
        if ok and isinstance(st.value, ast.List) and len(st.value.elts) == 1 and isinstance(st.value.elts[0], ast.Name):
            defs = [v for _s, tg, v in shapes.iter_assigns(prc.node) if unparse(tg) == st.value.elts[0].id]
            ok = bool(defs) and all(is_pcv(v) or shapes.flows_from(prc, v, is_pcv) for v in defs)
        ctx.check(rule, ok and isinstance(st.value, ast.List) and len(st.value.elts) == 1,
                  "_parse_raw_config: inserted pattern is [_parse_current_version_default_pattern(...)]",
                  "config._parse_raw_config: inserted self pattern does not come from the current_version line",
                  f"`{unparse(st)}`: a fixed text such as 'current_version = \"{{version}}\"' does not match a config that writes the value with other quotes or spacing "
                  f"(TOML allows single quotes), so that file's own current_version is never updated", loc=prc.loc(st), witness={"pyproject.toml": "current_version = '1.2.3'"})


CAL_LOCALS = ("date", "year_y", "year_g", "month", "dom", "doy", "week_w", "week_u", "week_v")


def default_calendar_rule(ctx, rule: str) -> None:
    """The new version is re-read from its text before the files are rewritten; a version without calendar parts must read
    back with today's calendar (all or nothing), otherwise a date-only file pattern (`Copyright 2019-YYYY`) is rendered
    from empty fields.  The guard of `date = version.TODAY` is folded: true when nothing was parsed, false as soon as one
    calendar value - a week number 0 included - was parsed."""
    from sa.model import CannotFold
    prog = ctx.prog
    pf = prog.function("v2version.parse_field_values_to_cinfo")
    ctx.visit(pf.fq)
    body = pf.node.body
    guards = [st for st in body if isinstance(st, ast.If) and any(isinstance(a, ast.Assign) and unparse(a.value).endswith("TODAY") and unparse(a.targets[0]) == "date" for a in st.body)]
    inline = [st for st in body if isinstance(st, ast.Assign) and unparse(st.targets[0]) == "date" and isinstance(st.value, ast.IfExp) and unparse(st.value.body).endswith("TODAY")]
    ctx.require(len(guards) + len(inline) == 1, "parse_field_values_to_cinfo: the place where today's date is substituted for an empty calendar was not found")
    g = guards[0] if guards else inline[0]
    test = g.test if guards else g.value.test
    gi = body.index(g)
    # backward slice: the statements before the guard that bind a name the guard reads (flag loops included); the
    # calendar locals themselves are supplied, so their parsing statements are not part of it
    need = {n.id for n in ast.walk(test) if isinstance(n, ast.Name)} - set(CAL_LOCALS)
    pre: T.List[ast.stmt] = []
    for st in reversed(body[:gi]):
        binds = {n.id for n in ast.walk(st) if isinstance(n, ast.Name) and isinstance(n.ctx, ast.Store)}
        if isinstance(st, (ast.Assign, ast.AnnAssign, ast.AugAssign, ast.For, ast.If)) and binds & need and not (binds & set(CAL_LOCALS)):
            pre.insert(0, st)
            need |= {n.id for n in ast.walk(st) if isinstance(n, ast.Name) and isinstance(n.ctx, ast.Load)} - set(CAL_LOCALS)
    wrong: T.List[str] = []
    try:
        for k in [None] + list(CAL_LOCALS):
            env: T.Dict[str, T.Any] = {n: None for n in CAL_LOCALS}
            if k is not None:
                env[k] = "D" if k == "date" else 0
            prog._propagate(pf.module, pre, env, pf.fq)
            got = bool(prog.fold(pf.module, test, env))
            if got != (k is None):
                wrong.append("nothing parsed -> today's calendar is NOT used" if k is None else f"{k} parsed (0) -> mixed with today's calendar")
    except CannotFold as ex:
        raise AnalysisError(f"parse_field_values_to_cinfo: guard of the today default not foldable: {ex}")
    ctx.check(rule, not wrong, "parse_field_values_to_cinfo: today's calendar is used exactly when no calendar value was parsed (folded for 10 cases)",
              "v2version.parse_field_values_to_cinfo: the today default is applied under the wrong condition",
              f"`{unparse(test)}`: {'; '.join(wrong[:3])} - the re-read new version has empty calendar fields, date-only file patterns are rendered from them", loc=pf.loc(g),
              witness={"cases": wrong[:4]})


def self_pattern_eval(ctx, rule: str) -> None:
    """The scanner evaluated on small config texts: each of the three headers with and without blanks around it opens the
    section, a foreign section's current_version line is skipped, the section ends at the next header, and the result is
    the current_version line with the version replaced by the pattern."""
    from sa.model import CannotFold, EvalError
    prog = ctx.prog
    dp = prog.function("config._parse_current_version_default_pattern")
    raw = {"current_version": "1.2.3", "version_pattern": "MAJOR.MINOR.PATCH"}
    cv, want = 'current_version = "1.2.3"', 'current_version = "MAJOR.MINOR.PATCH"'
    cases: T.List[T.Tuple[str, T.List[str], T.Optional[str]]] = []
    for h in ("[pycalver]", "[bumpver]", "[tool.bumpver]"):
        for pre, post in (("", ""), ("", "  "), ("  ", ""), ("\t", " ")):
            cases.append((f"header {pre + h + post!r}", [pre + h + post, 'version_pattern = "MAJOR.MINOR.PATCH"', cv, "commit = true"], want))
        cases.append((f"foreign section before {h}", ["[metadata]", 'current_version = "0.0.1"', "", h, cv], want))
        cases.append((f"{h} without the key, a later section with it", [h, "commit = true", "[other]", cv], None))
    wrong: T.List[str] = []
    n = 0
    try:
        for name, lines, expect in cases:
            env = {dp.params[0]: dict(raw), dp.params[1]: "\n".join(lines) + "\n", "__strict__": True}
            try:
                got, _ys = prog.run_body(dp, env)
            except EvalError as ex:
                got = None if getattr(ex, "raised", None) == "ValueError" else f"raises: {ex}"
            n += 1
            if got != expect:
                wrong.append(f"{name}: {got!r}, expected {expect!r}")
    except (CannotFold, TypeError, AttributeError, KeyError, ValueError, IndexError) as ex:
        ctx.observe(f"_parse_current_version_default_pattern not evaluated ({type(ex).__name__}: {str(ex)[:80]}); decided by the path-condition rules alone")
        return
    ctx.check(rule, not wrong, f"self-pattern parser: evaluated on {n} small config texts (headers with blanks around them, foreign sections, section end)",
              "config._parse_current_version_default_pattern: the config file's own current_version line is not found / taken from the wrong section",
              "; ".join(wrong[:3]), loc=dp.loc(), witness={"cases": wrong[:4]})


def section_scan_rule(ctx, rule: str) -> None:
    """The self-pattern parser scans the config text: the current_version line is taken only inside a bumpver section,
    the section starts at an exact header and ends at the next `[...]` header line."""
    prog, cfgs = ctx.prog, ctx.cfgs
    self_pattern_eval(ctx, rule)
    prc = prog.function("config._parse_raw_config")
    dp = prog.function("config._parse_current_version_default_pattern")
    ctx.visit(dp.fq)
    rets = [n for n in walk_no_nested(dp.node) if isinstance(n, ast.Return)]
    ctx.require(len(rets) >= 1, "_parse_current_version_default_pattern has no return")
    for r in rets:
        v = r.value
        ok = isinstance(v, ast.Call) and isinstance(v.func, ast.Attribute) and v.func.attr == "replace" and len(v.args) == 2 \
            and unparse(shapes.resolve_alias(dp, v.args[0])).replace('"', "'") == "raw_cfg['current_version']" \
            and unparse(shapes.resolve_alias(dp, v.args[1])).replace('"', "'") == "raw_cfg['version_pattern']"
        ctx.check(rule, ok, "_parse_current_version_default_pattern: returns the line with current_version replaced by version_pattern",
                  "config._parse_current_version_default_pattern: self pattern is not the current_version line with the pattern substituted",
                  f"`{unparse(r)}`", loc=dp.loc(r))

    # section headers: only exact bumpver/pycalver headers switch the section flag on
    dcfg = cfgs.get(dp.fq)
    dpc = PathCond(dcfg)
    # the line is taken only inside the section: return <=> flag and the line starts with `current_version`
    flag_names = {unparse(t_) for n_ in dcfg.nodes if n_.kind == "stmt" and isinstance(n_.ast, ast.Assign) and isinstance(n_.ast.value, ast.Constant) and isinstance(n_.ast.value.value, bool)
                  for t_ in n_.ast.targets}
    for r in rets:
        rc = dpc.reach(dcfg.node_containing(r.value) if r.value is not None else dcfg.nodes_of(r)[0]).drop_unused()
        fl = [a for a in rc.atoms if a in flag_names]
        st = [a for a in rc.atoms if "startswith('current_version" in a.replace('"', "'")]
        ok = len(fl) == 1 and len(st) == 1 and rc.project(fl + st).equiv(BF.var(fl[0]) & BF.var(st[0]))
        ctx.check(rule, ok, "self-pattern parser: the current_version line is taken only inside a bumpver section",
                  "config._parse_current_version_default_pattern: a current_version line outside the bumpver section can be taken as the self pattern",
                  f"returns when {rc.to_dnf()}; required: <in section> & <line starts with current_version>", loc=dp.loc(r), witness={"file": "[metadata]\ncurrent_version = 0.1\n[bumpver]\ncurrent_version = 1.2.3"})
    # ... and any other section header ends the section: the flag is cleared exactly for a non-empty line that starts with '[' and ends with ']'
    off = [n for n in dcfg.nodes if n.kind == "stmt" and isinstance(n.ast, ast.Assign) and isinstance(n.ast.value, ast.Constant) and n.ast.value.value is False and n.id in dcfg.reachable()
           and any(unparse(t_) in flag_names for t_ in n.ast.targets) and shapes.enclosing_loops(dp, n.ast)]
    ctx.floor(rule, "section-end assignments in the self-pattern parser", len(off), 1)
    for n in off:
        ro = dpc.reach(n.id).drop_unused()
        lv = None
        for lp_ in shapes.enclosing_loops(dp, n.ast):
            if isinstance(lp_, ast.For) and isinstance(lp_.target, ast.Name):
                lv = lp_.target.id
        opens = [a for a in ro.atoms if a.replace('"', "'") in (f"{lv}[0] == '['", f"{lv}.startswith('[')", f"{lv}.strip().startswith('[')", f"{lv}.strip()[0] == '['")]
        closes = [a for a in ro.atoms if a.replace('"', "'") in (f"{lv}[-1] == ']'", f"{lv}.endswith(']')", f"{lv}.strip().endswith(']')", f"{lv}.strip()[-1] == ']'")]
        nonempty = [a for a in ro.atoms if a in (lv, f"{lv}.strip()")]
        ok = len(opens) == 1 and len(closes) == 1
        if ok:
            want = BF.var(opens[0]) & BF.var(closes[0])
            keep = [opens[0], closes[0]]
            if nonempty and not opens[0].endswith("startswith('[')"):
                want = want & BF.var(nonempty[0])
                keep.append(nonempty[0])
            ok = ro.project(keep).equiv(want)
        ctx.check(rule, ok, "self-pattern parser: the section ends at the next `[...]` header line",
                  "config._parse_current_version_default_pattern: the end of the bumpver section is not recognised by a `[...]` header line",
                  f"the section flag is cleared when {ro.to_dnf()}; required: the line is non-empty, starts with '[' and ends with ']' (and is not a bumpver header): otherwise a "
                  f"current_version line of a later section is taken as the config's own pattern", loc=dp.loc(n.ast))
    on = [n for n in dcfg.nodes if n.kind == "stmt" and isinstance(n.ast, ast.Assign) and isinstance(n.ast.value, ast.Constant) and n.ast.value.value is True and n.id in dcfg.reachable()]
    ctx.floor(rule, "section-start assignments in the self-pattern parser", len(on), 1)
    headers = set()
    exact = True
    for n in on:
        r = dpc.reach(n.id).drop_unused()
        pos = [a for a in r.atoms if r.implies(BF.var(a))]
        hit = False
        for a in pos:
            hs = header_literals_of_test(prog, dp, ast.parse(a, mode="eval").body)
            if hs:
                headers |= hs
                hit = True
        exact = exact and hit
    want_h = {"[pycalver]", "[bumpver]", "[tool.bumpver]"}
    ctx.check(rule, exact and headers == want_h, "self-pattern parser: the section flag is set only by the exact headers [pycalver] / [bumpver] / [tool.bumpver]",
              "config._parse_current_version_default_pattern: section detection is not an exact header match (a foreign section's current_version line can be picked)",
              f"exact={exact}, headers={sorted(headers)}", loc=dp.loc(), witness={"section": "[tool.bumpversion]"})


def line_search_fold(ctx, ifp) -> T.Optional[T.List[str]]:
    """Decide parse._iter_for_pattern by evaluating its body with the folder on four abstract lines whose search results are
    {no match, empty match, one-character match, longer match} in all 24 orders.  Expected: one PatternMatch(lineno, line,
    pattern, span, text) per line with a non-empty match, in line order, lineno zero based, the line passed to `search`
    unchanged.  Returns the deviations, or None if the body cannot be evaluated."""
    import itertools
    from sa.model import Abstract, CannotFold
    prog = ctx.prog

    class Match(Abstract):
        def __init__(self, start: int, text: str):
            self._s, self._t = start, text

        def group(self, i: int = 0) -> str:
            return self._t

        def span(self, i: int = 0) -> T.Tuple[int, int]:
            return (self._s, self._s + len(self._t))

        def start(self, i: int = 0) -> int:
            return self._s

        def end(self, i: int = 0) -> int:
            return self._s + len(self._t)

        def __getitem__(self, i: int) -> str:
            return self._t

    class Line(Abstract):
        """An opaque line: any str method or slice gives a different (edited) text."""
        def __init__(self, name: str, edited: bool = False):
            self.name, self.edited = name, edited

        def __getattr__(self, attr: str) -> T.Any:
            if attr.startswith("_"):
                raise AttributeError(attr)
            return lambda *a, **k: Line(f"{self.name}.{attr}(...)", True)

        def __getitem__(self, i: T.Any) -> T.Any:
            return Line(f"{self.name}[...]", True)

        def __repr__(self) -> str:
            return self.name

    class Regexp(Abstract):
        def __init__(self, table: T.Dict[T.Any, T.Any]):
            self.table = table
            self.asked: T.List[T.Any] = []

        def search(self, line: T.Any, *a: T.Any) -> T.Any:
            self.asked.append(line)
            if not isinstance(line, Line) or line.edited:
                return Match(0, "EDITED")
            return self.table[line]

    class Pat(Abstract):
        def __init__(self, rx: Regexp):
            self.regexp = rx
            self.raw_pattern = "RAW"

    fields = ["lineno", "line", "pattern", "span", "match"]

    def ctor(f: T.Any, node: ast.Call) -> T.Any:
        vals = dict(zip(fields, [f(a) for a in node.args]))
        for k in node.keywords:
            if k.arg is None:
                raise CannotFold("PatternMatch(**...)")
            vals[k.arg] = f(k.value)
        return tuple(vals.get(k) for k in fields)
    kinds = {"none": None, "empty": ("", 2), "one": ("7", 3), "long": ("1.2.3", 1)}
    wrong: T.List[str] = []
    if len(ifp.params) < 2:
        return None
    try:
        for order in itertools.permutations(kinds):
            lines = [Line(f"line{i}<{k}>") for i, k in enumerate(order)]
            table = {ln: (None if kinds[k] is None else Match(kinds[k][1], kinds[k][0])) for ln, k in zip(lines, order)}
            rx = Regexp(table)
            pat = Pat(rx)
            env: T.Dict[str, T.Any] = {ifp.params[0]: list(lines), ifp.params[1]: pat, "__stubs__": {"PatternMatch": ctor}}
            ret, ys = prog.run_body(ifp, env)
            if ret is not None and not ys:
                ys = list(ret)
            want = [(i, ln, pat, table[ln].span(), table[ln].group(0)) for i, ln in enumerate(lines) if table[ln] is not None and table[ln].group(0) != ""]
            if list(ys) != want:
                got_txt = [(y[0], y[4]) if isinstance(y, tuple) and len(y) == 5 else y for y in ys]
                wrong.append(f"lines with {list(order)}: yields {got_txt}, expected {[(w[0], w[4]) for w in want]}")
            elif len(rx.asked) != len(lines) or any(a_ is not l_ for a_, l_ in zip(rx.asked, lines)):
                wrong.append(f"lines with {list(order)}: search called with {rx.asked!r} (each line must be searched once, unchanged)")
    except (CannotFold, TypeError, AttributeError, KeyError, ValueError, IndexError):
        return None
    return wrong


def overlap_order_types_eval(ctx, rule: str) -> None:
    """The overlap test inlined into parse.iter_matches: iter_matches is evaluated with two patterns of one match each, for
    every order type of the four endpoints (values 0..3) on the same and on different lines; the second match is yielded iff it
    is on another line or its closed span does not meet the first one's."""
    import itertools
    import types
    from sa.model import Abstract, CannotFold, EvalError
    prog = ctx.prog
    im = prog.function("parse.iter_matches")

    class M(Abstract):
        def __init__(self, name: str, lineno: int, span: T.Tuple[int, int]):
            self.name, self.lineno, self.span = name, lineno, span
            self.line, self.match, self.pattern = f"line{lineno}", name, None

    def linespan(f: T.Any, node: ast.Call) -> T.Any:
        vals: T.List[T.Any] = []
        for a in node.args:
            vals.extend(f(a.value)) if isinstance(a, ast.Starred) else vals.append(f(a))
        d = dict(zip(["lineno", "start", "end"], vals))
        d.update({k.arg: f(k.value) for k in node.keywords if k.arg})
        return types.SimpleNamespace(**d)
    wrong = None
    n_cases = 0
    try:
        for ns, ne, ss, se in itertools.product(range(4), repeat=4):
            if ns > ne or ss > se:
                continue
            for same in (True, False):
                plan = {"P0": [M("first", 7, (ss, se))], "P1": [M("second", 7 if same else 8, (ns, ne))]}

                def ifp(f: T.Any, node: ast.Call, plan: T.Dict[str, T.List[M]] = plan) -> T.List[M]:
                    pat = f(node.args[1]) if len(node.args) > 1 else f([k.value for k in node.keywords if k.arg == "pattern"][0])
                    return list(plan[pat])
                env = {im.params[0]: ["l"] * 9, im.params[1]: ["P0", "P1"], "__strict__": True, "__calls__": True, "__stubs__": {"_iter_for_pattern": ifp, "LineSpan": linespan}}
                try:
                    _ret, ys = prog.run_body(im, env)
                    got = [getattr(y, "name", y) for y in ys]
                except EvalError as ex:
                    got = [f"raises: {ex}"]
                want = ["first"] + ([] if same and ns <= se and ne >= ss else ["second"])
                n_cases += 1
                if got != want and wrong is None:
                    wrong = {"first": (ss, se), "second": (ns, ne), "same line": same, "yielded": got, "expected": want}
    except (CannotFold, TypeError, AttributeError, KeyError, ValueError, IndexError) as ex:
        raise AnalysisError(f"C03/R3: the inlined overlap test of parse.iter_matches cannot be evaluated ({type(ex).__name__}: {str(ex)[:80]})")
    ctx.check(rule, wrong is None, f"iter_matches (inlined overlap test): a match is suppressed iff same line and the closed intervals intersect  [{n_cases} order types evaluated]",
              "parse._has_overlap: predicate is not 'same line and intervals intersect'",
              f"differs for {wrong}: e.g. a later match that fully contains an earlier one is not recognised as overlapping, both replacements are applied and text outside the matches is eaten"
              if wrong else "", loc=im.loc(), witness=wrong)


def iter_matches_eval(ctx, rule: str) -> T.Optional[bool]:
    """parse.iter_matches evaluated with six patterns whose matches (abstracted per-pattern lists) lie on two lines: a match is
    yielded iff its closed span meets no span of an earlier match on the same line - whether that one was yielded or not - and
    every match is remembered.  In particular a later pattern between two earlier ones on the same line is yielded."""
    import types
    from sa.model import Abstract, CannotFold, EvalError
    prog = ctx.prog
    im = prog.function("parse.iter_matches")

    class M(Abstract):
        def __init__(self, name: str, lineno: int, span: T.Tuple[int, int]):
            self.name, self.lineno, self.span = name, lineno, span
            self.line, self.match, self.pattern = f"line{lineno}", name, None

        def __repr__(self) -> str:
            return self.name
    plan = [[M("A", 0, (0, 5))], [M("C", 0, (20, 25))], [M("B", 0, (10, 15)), M("B1", 1, (0, 5))], [M("D", 0, (4, 11)), M("D1", 1, (6, 9))], [M("E", 0, (5, 8))], [M("F", 0, (16, 19)), M("F1", 1, (9, 12))]]
    pats = [f"P{i}" for i in range(len(plan))]

    def ifp(f: T.Any, node: ast.Call) -> T.List[M]:
        pat = f(node.args[1]) if len(node.args) > 1 else f([k.value for k in node.keywords if k.arg == "pattern"][0])
        return list(plan[pats.index(pat)])

    def linespan(f: T.Any, node: ast.Call) -> T.Any:
        vals: T.List[T.Any] = []
        for a in node.args:
            if isinstance(a, ast.Starred):
                vals.extend(f(a.value))
            else:
                vals.append(f(a))
        kw = {k.arg: f(k.value) for k in node.keywords if k.arg}
        names = ["lineno", "start", "end"]
        d = dict(zip(names, vals))
        d.update(kw)
        return types.SimpleNamespace(**d)
    seen: T.List[M] = []
    want: T.List[M] = []
    for group in plan:
        for m in group:
            if not any(o.lineno == m.lineno and m.span[0] <= o.span[1] and m.span[1] >= o.span[0] for o in seen):
                want.append(m)
            seen.append(m)
    try:
        env = {im.params[0]: ["line0", "line1"], im.params[1]: list(pats), "__strict__": True, "__calls__": True,
               "__stubs__": {"_iter_for_pattern": ifp, "LineSpan": linespan}}
        try:
            _ret, ys = prog.run_body(im, env)
        except EvalError as ex:
            ys = [f"raises: {ex}"]
    except (CannotFold, TypeError, AttributeError, KeyError, ValueError, IndexError) as ex:
        ctx.observe(f"parse.iter_matches not evaluated ({type(ex).__name__}: {str(ex)[:80]})")
        return None
    ok = [getattr(y, "name", y) for y in ys] == [m.name for m in want]
    ctx.check(rule, ok, f"iter_matches: a match is yielded iff it meets no earlier match on its line (evaluated: {len(seen)} matches of 6 patterns on 2 lines -> {[m.name for m in want]})",
              "parse.iter_matches: a match that overlaps nothing is dropped (or an overlapping one kept)",
              f"yields {[getattr(y, 'name', y) for y in ys]}, expected {[m.name for m in want]}: e.g. the occurrence of the pattern listed last that stands between two others on the line stays stale",
              loc=im.loc(), witness={"line": "name=1.3.0-rc; pep=1.2.3b0; tag=v1.3.0-rc"})
    return ok
