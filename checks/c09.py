"""C09 - the current version is the greatest matching tag in scope."""
from __future__ import annotations

import ast
import typing as T

from sa import shapes
from sa.boolfn import BF
from sa.escape import Escapes
from sa.model import AnalysisError, call_arg, const_str, unparse, walk_no_nested
from sa.pathcond import PathCond
from sa import relang

TECHNIQUE = "path-condition extraction for the scope rules, selection-idiom matching for 'newest', exception-escape analysis for is_valid, finite-language inclusion for table lookups"
EXPLANATION = (
    "Decides the structure behind 'greatest matching tag in scope': (R1) get_tags lists branch-reachable tags exactly for "
    "scope BRANCH and all tags otherwise (templates checked), and _update_cfg_from_vcs keeps the config version exactly when "
    "no tag matched or (scope DEFAULT and tag <= config under version.parse_version), else replaces it; (R2) the newest tag "
    "is selected as the maximum under version.parse_version; (R3) tags are filtered by <engine>.is_valid with the engine of "
    "the pattern; (R4) no exception other than the one is_valid catches can escape parse_version_info for any tag text "
    "(explicit raises, datetime.date on parsed fields, table lookups keyed by recognised text); (R5) the uniqueness check is "
    "requested whenever the old version was not derived from all tags or the new version is user supplied, and it compares "
    "against all tags of all branches."
)
LEVEL_NOTE = "The order laws of version.parse_version are imported from C16 (R6). Not decided: what a real git/hg prints for `tag --list`."


def _is_parse_version(prog, fn, e: ast.AST) -> bool:
    t = prog.resolve_name(fn.module, e, fn, prog.local_types(fn))
    return t.kind == "func" and t.fn is not None and t.fn.fq == "version.parse_version"


def _keyed(prog, fn, e: ast.AST) -> T.Optional[ast.AST]:
    """If e is version.parse_version(X) return X."""
    if isinstance(e, ast.Call) and len(e.args) == 1 and _is_parse_version(prog, fn, e.func):
        return e.args[0]
    return None


def run(ctx) -> None:
    prog, cfgs, effects = ctx.prog, ctx.cfgs, ctx.effects
    ctx.rule("R1", "scope -> listing command; default-scope comparison keeps the greater of config and tag")
    ctx.rule("R2", "newest tag = maximum under version.parse_version")
    ctx.rule("R3", "tags filtered by <engine>.is_valid(tag, pattern) with the engine of the pattern")
    ctx.rule("R4", "no exception escapes is_valid for any tag text")
    ctx.rule("R5", "uniqueness check requested for branch scope / --set-version, against all tags")
    ctx.rule("R7", "--ignore-vcs-tag is a flag that is off unless given; --tag-scope is unset unless given")
    shapes.cli_option_rule(ctx, "R7", ["--ignore-vcs-tag", "--tag-scope"])
    ctx.rule("R6", "prerequisite: 'greatest' is taken under a total order that follows PEP 440 (C16/R1-R4, R8)")
    from sa.report import run_prerequisite
    run_prerequisite(ctx, "C16", ("R1", "R2", "R3", "R4", "R7", "R8", "R9"), "R6")

    # ---------------------------------------------------------------- R1 get_tags
    gt = prog.function("vcs.get_tags")
    ctx.visit(gt.fq)
    cfg = cfgs.get(gt.fq)
    pc = PathCond(cfg)
    p_fetch, p_scope = gt.params[0], gt.params[1]
    calls_b = shapes.find_calls(prog, gt, "vcs.VCSAPI.ls_tags_branch")
    calls_a = shapes.find_calls(prog, gt, "vcs.VCSAPI.ls_tags")
    ctx.floor("R1", "ls_tags / ls_tags_branch call sites in get_tags", len(calls_a) + len(calls_b), 2)

    def branch_atom_bf() -> BF:
        """BF (over get_tags' atoms) that is true iff scope == BRANCH."""
        for a in pc.atoms:
            tree = shapes.inline(gt, ast.parse(a, mode="eval").body, prog)
            cs = shapes.compare_shape(tree)
            if cs and cs[0] in ("==", "!="):
                sides = {unparse(cs[1]), unparse(cs[2])}
                if p_scope in sides and any(s.endswith("TagScope.BRANCH") for s in sides):
                    return BF.var(a) if cs[0] == "==" else ~BF.var(a)
        raise AnalysisError("C09/R1: get_tags does not branch on scope == TagScope.BRANCH")
    B = branch_atom_bf()
    for c in calls_b:
        r = pc.reach(cfg.node_containing(c)).project(B.atoms)
        ctx.check("R1", r.equiv(B), "get_tags: ls_tags_branch() exactly when scope == BRANCH",
                  "vcs.get_tags: branch-restricted listing is not tied to scope BRANCH", f"reached iff {r.to_dnf()}", loc=gt.loc(c))
    for c in calls_a:
        r = pc.reach(cfg.node_containing(c)).project(B.atoms)
        ctx.check("R1", r.equiv(~B), "get_tags: ls_tags() exactly when scope != BRANCH",
                  "vcs.get_tags: all-branches listing is not tied to scope != BRANCH", f"reached iff {r.to_dnf()}", loc=gt.loc(c))
    # the listing results are what get_tags returns
    for c in calls_a + calls_b:
        nid = cfg.node_containing(c)
        ctx.check("R1", isinstance(cfg.nodes[nid].ast, ast.Return) or shapes.flows_from(gt, ast.Name(id="__ret__", ctx=ast.Load()), lambda e: False) or
                  any(isinstance(n, ast.Return) and n.value is not None and shapes.flows_from(gt, n.value, lambda e: e is c) for n in walk_no_nested(gt.node)),
                  f"get_tags returns the result of `{unparse(c)}`", "vcs.get_tags: listing result is not what is returned", "", loc=gt.loc(c))
    # methods -> command names -> templates
    tmpl = prog.const("vcs", "VCS_SUBCOMMANDS_BY_NAME")
    for meth, cmd in (("ls_tags", "ls_tags"), ("ls_tags_branch", "ls_tags_branch")):
        m = prog.function(f"vcs.VCSAPI.{meth}")
        ctx.visit(m.fq)
        cmds = [s.detail.get("cmd") for s in effects.sites[m.fq] if s.effect.startswith("VCS_")]
        ctx.check("R1", cmds == [cmd], f"VCSAPI.{meth} runs the '{cmd}' command", f"vcs.VCSAPI.{meth}: runs {cmds} instead of '{cmd}'", "", loc=m.loc())
    restrict = {"git": "--merged", "hg": "--branch"}
    for v in ("git", "hg"):
        tb, ta = tmpl[v].get("ls_tags_branch", ""), tmpl[v].get("ls_tags", "")
        ctx.check("R1", restrict[v] in tb.split(), f"{v} ls_tags_branch template restricts to the current branch ({restrict[v]})",
                  f"vcs template {v}/ls_tags_branch does not restrict to the current branch", repr(tb), loc="src/bumpver/vcs.py")
        ctx.check("R1", restrict[v] not in ta.split() and "--contains" not in ta and "--points-at" not in ta,
                  f"{v} ls_tags template lists tags of all branches", f"vcs template {v}/ls_tags is restricted", repr(ta), loc="src/bumpver/vcs.py")

    listing_failure_rule(ctx, "R1")
    # no tag is seen at all where the VCS is not detected
    from checks.c11 import vcs_marker_rule
    vcs_marker_rule(ctx, "R1")

    # ---------------------------------------------------------------- R1 _update_cfg_from_vcs
    uc = prog.function("cli._update_cfg_from_vcs")
    ctx.visit(uc.fq)
    ucfg = cfgs.get(uc.fq)
    upc = PathCond(ucfg)
    p_cfg = uc.params[0]
    tagvar = None
    for st, tg, val in shapes.iter_assigns(uc.node):
        if isinstance(val, ast.Call) and isinstance(tg, ast.Name):
            t = prog.resolve_call(uc, val, count=False)
            if t.fn is not None and t.fn.fq == "cli.get_latest_vcs_version_tag":
                tagvar = tg.id
                ctx.check("R1", [unparse(a) for a in val.args] == [p_cfg, uc.params[1]],
                          "_update_cfg_from_vcs: latest tag looked up with (cfg, fetch)", "cli._update_cfg_from_vcs: tag lookup arguments changed",
                          unparse(val), loc=uc.loc(st))
    ctx.require(tagvar is not None, "_update_cfg_from_vcs no longer calls get_latest_vcs_version_tag")
    NONE = LE = None
    TAG = shapes.inline_text(uc, ast.Name(id=tagvar, ctx=ast.Load()), prog)
    scope_atoms: T.Dict[str, T.Tuple[str, bool]] = {}        # atom -> (member, polarity: atom true means scope == member)
    for a in upc.atoms:
        tree = ast.parse(a, mode="eval").body
        if a == f"{tagvar} is None":
            NONE = BF.var(a)
            continue
        tree = shapes.inline(uc, tree, prog)
        cs = shapes.compare_shape(tree)
        if cs is None:
            continue
        op, l, r = cs
        sides = {unparse(l), unparse(r)}
        member = [m for m in ("DEFAULT", "GLOBAL", "BRANCH") if any(x.endswith("TagScope." + m) for x in sides)]
        if f"{p_cfg}.tag_scope" in sides and member and op in ("==", "!="):
            scope_atoms[a] = (member[0], op == "==")
            continue
        kl, kr = _keyed(prog, uc, l), _keyed(prog, uc, r)
        if kl is not None and kr is not None:
            def _same_version(e: ast.AST) -> str:
                # under parse_version a version text and its PEP 440 form are the same key: to_pep440(v) is str(parse_version(v))
                # (C15/R5) and the canonical string parses to an equal key (C16/R7)
                e = shapes.inline(uc, e, prog)
                if isinstance(e, ast.Call) and unparse(e.func) in ("version.to_pep440", "to_pep440") and len(e.args) == 1 and not e.keywords:
                    return unparse(e.args[0])
                if isinstance(e, ast.Attribute) and e.attr == "pep440_version":
                    return unparse(e.value) + ".current_version"
                return unparse(e)
            tl, tr = unparse(kl), unparse(kr)
            if tl not in (tagvar, TAG, f"{p_cfg}.current_version"):
                tl = _same_version(kl)
            if tr not in (tagvar, TAG, f"{p_cfg}.current_version"):
                tr = _same_version(kr)
            if tl == f"{p_cfg}.current_version" and tr in (tagvar, TAG):
                op, tl, tr = shapes.mirror(op), tr, tl
            if tl in (tagvar, TAG) and tr == f"{p_cfg}.current_version":
                if op in ("<=", "<"):
                    LE = BF.var(a)
                elif op in (">", ">="):
                    LE = ~BF.var(a)
                strict = op in ("<", ">=")          # tag < cfg  /  not (tag >= cfg): a tag that is PEP 440-equal to the config value is adopted
                ctx.check("R1", not strict, "_update_cfg_from_vcs: the config value is kept when the newest tag is not greater (tag <= config)",
                          "cli._update_cfg_from_vcs: a tag that is only equal to the config value replaces it",
                          f"`{a}`: on the default scope the current version is the greater of config value and newest tag; with a tag that is PEP 440-equal but spelled differently "
                          f"(`1.04.0` vs `1.4.0`) `show` and the `Old Version` line report the tag's spelling instead of the configured one", loc=uc.loc(), witness={"config": "1.4.0", "tag": "1.04.0"})
        elif any("version" in x for x in sides) and op in ("<", "<=", ">", ">="):
            ctx.bad("R1", "cli._update_cfg_from_vcs: default-scope comparison is not under version.parse_version",
                    f"`{a}` orders version texts as strings ('1.10.0' < '1.9.0'): the newest tag is ignored / the version runs backwards", loc=uc.loc(),
                    witness={"config": "1.9.0", "tag": "1.10.0"})
    ctx.require(NONE is not None, f"_update_cfg_from_vcs does not test `{tagvar} is None`")
    ctx.require(scope_atoms, "_update_cfg_from_vcs does not branch on cfg.tag_scope")
    if LE is None:
        ctx.bad("R1", "cli._update_cfg_from_vcs: no parse_version comparison of tag and config version on the default scope",
                "the default scope must keep the greater of config value and newest tag", loc=uc.loc())
    else:
        keep = BF.false()
        repl = BF.false()
        n_ret = 0
        for n in ucfg.nodes:
            if n.kind == "stmt" and isinstance(n.ast, ast.Return) and n.id in ucfg.reachable():
                n_ret += 1
                v = n.ast.value
                if isinstance(v, ast.Name) and v.id == p_cfg:
                    keep = keep | upc.reach(n.id)
                elif isinstance(v, ast.Call) and isinstance(v.func, ast.Attribute) and v.func.attr == "_replace" and unparse(v.func.value) == p_cfg:
                    kws = shapes.kwargs_of(v)
                    ok = unparse(kws.get("current_version", ast.Constant(None))) in (tagvar, TAG)
                    ctx.check("R1", ok, f"_update_cfg_from_vcs: replaced current_version is the newest tag `{tagvar}`",
                              "cli._update_cfg_from_vcs: replacement version is not the newest tag", unparse(v), loc=uc.loc(v))
                    pv = kws.get("pep440_version")
                    ok2 = pv is not None and shapes.flows_from(uc, pv, lambda e: isinstance(e, ast.Call) and unparse(e.func) == "version.to_pep440" and unparse(e.args[0]) == tagvar)
                    ctx.check("R1", ok2, "_update_cfg_from_vcs: pep440_version derived from the same tag",
                              "cli._update_cfg_from_vcs: pep440_version not derived from the newest tag", unparse(v), loc=uc.loc(v))
                    repl = repl | upc.reach(n.id)
                else:
                    raise AnalysisError(f"C09/R1: return shape not enumerated: {unparse(n.ast)}")
        ctx.floor("R1", "returns of _update_cfg_from_vcs", n_ret, 3)
        base_atoms = sorted(set(NONE.atoms) | set(LE.atoms))
        # decide per scope value: substitute the truth of every scope atom
        for scope in ("DEFAULT", "GLOBAL", "BRANCH"):
            k, rp = keep, repl
            for atom, (member, pol) in scope_atoms.items():
                val = (member == scope) == pol
                k = k.restrict(atom, val)
                rp = rp.restrict(atom, val)
            k, rp = k.project(base_atoms), rp.project(base_atoms)
            want_keep = NONE | LE if scope == "DEFAULT" else NONE
            ctx.check("R1", k.equiv(want_keep) and rp.equiv(~want_keep),
                      f"_update_cfg_from_vcs, scope {scope}: config kept iff {'no tag or tag <= config' if scope == 'DEFAULT' else 'no tag matches'}; otherwise the newest tag is adopted",
                      f"cli._update_cfg_from_vcs: scope {scope.lower()} does not follow its rule",
                      f"config kept iff {k.to_dnf()}; required {want_keep.to_dnf()}", loc=uc.loc(), witness=k.diff_witness(want_keep))
    # the lookup must see the effective tag scope: option merge before the tag lookup
    updf = prog.function("cli.update")
    ug = cfgs.get(updf.fq)
    pvo_calls = shapes.find_calls(prog, updf, "cli._parse_vcs_options")
    look = shapes.find_calls(prog, updf, "cli._update_cfg_from_vcs")
    if pvo_calls and look:
        pn = ug.node_containing(pvo_calls[0])
        ln = ug.node_containing(look[0])
        ctx.check("R1", ln not in ug.reachable(blocked_nodes=[pn]), "update: --tag-scope is merged into cfg before the tag lookup",
                  "cli.update: the tag lookup runs before --tag-scope is merged (the newest tag is chosen with the config file's scope)",
                  "_update_cfg_from_vcs is reachable without passing _parse_vcs_options", loc=updf.loc(look[0]))
        merged = [n for n in ast.walk(prog.function("cli._parse_vcs_options").node) if isinstance(n, ast.keyword) and n.arg == "tag_scope"]
        ctx.check("R1", bool(merged), "_parse_vcs_options merges tag_scope into cfg", "cli._parse_vcs_options: --tag-scope is not merged", "", loc="src/bumpver/cli.py")
        # ... exactly when the option was given, as the TagScope member of that name
        pvo_fn = prog.function("cli._parse_vcs_options")
        pg_ = cfgs.get(pvo_fn.fq)
        ppc_ = PathCond(pg_, extra_atoms=["tag_scope is None"], only=lambda t_: t_ == "tag_scope is None", max_atoms=2)
        sites_ = [n for n in pg_.nodes if n.kind == "stmt" and isinstance(n.ast, ast.Assign) and isinstance(n.ast.value, ast.Call) and any(kw.arg == "tag_scope" for kw in n.ast.value.keywords)]
        ok_m = len(sites_) == 1 and sites_[0].id in pg_.reachable() and ppc_.reach(sites_[0].id).project(["tag_scope is None"]).equiv(~BF.var("tag_scope is None"))
        if ok_m:
            v_ = [kw.value for kw in sites_[0].ast.value.keywords if kw.arg == "tag_scope"][0]
            ok_m = unparse(v_) in ("config.TagScope(tag_scope)", "tag_scope")
        ctx.check("R1", ok_m, "_parse_vcs_options: cfg.tag_scope := TagScope(--tag-scope) exactly when the option was given",
                  "cli._parse_vcs_options: --tag-scope is not merged into the configuration exactly when given",
                  f"{[(unparse(n_.ast)[:60], ppc_.reach(n_.id).project(['tag_scope is None']).to_dnf()) for n_ in sites_]}: the newest tag is chosen with the config file's scope although "
                  "--tag-scope was given", loc=pvo_fn.loc(), witness={"command": "bumpver update --tag-scope branch"})

    tag_listing_rule(ctx, "R1")
    # "the greatest tag": fetched first when fetching is on - the remote lookup that decides whether `fetch` runs (C10's rule)
    from checks.c10 import remote_lookup_rule
    remote_lookup_rule(ctx, "R1")
    # ... and listed by the commands their names stand for (`git tag --list [--merged]`, `hg tags`, `git fetch`): C10's command table rule
    from sa.report import run_prerequisite as _rp
    _rp(ctx, "C10", ("R8",), "R1", only=lambda key: "['ls_tags" in key or "['fetch']" in key)

    # ---------------------------------------------------------------- R2
    gl = prog.function("cli.get_latest_vcs_version_tag")
    ctx.visit(gl.fq)
    p_cfg2 = gl.params[0]
    gtc = shapes.find_calls(prog, gl, "vcs.get_tags")
    ctx.floor("R2", "get_tags calls in get_latest_vcs_version_tag", len(gtc), 1)
    for c in gtc:
        ctx.check("R2", unparse(call_arg(c, gt, "scope") or ast.Constant(None)) == f"{p_cfg2}.tag_scope" and unparse(call_arg(c, gt, "fetch") or ast.Constant(None)) == gl.params[1],
                  "get_latest_vcs_version_tag: get_tags(fetch=fetch, scope=cfg.tag_scope)",
                  "cli.get_latest_vcs_version_tag: tag listing not wired to the configured scope / fetch option", unparse(c), loc=gl.loc(c))
    pvt = shapes.find_calls(prog, gl, "cli._parse_version_tags")
    ctx.floor("R2", "_parse_version_tags calls in get_latest_vcs_version_tag", len(pvt), 1)
    for c in pvt:
        args = [unparse(a) for a in c.args]
        ctx.check("R3", len(args) == 3 and args[1] == f"{p_cfg2}.version_pattern" and args[2] == f"{p_cfg2}.is_new_pattern"
                  and shapes.flows_from(gl, c.args[0], lambda e: isinstance(e, ast.Call) and e in gtc),
                  "get_latest_vcs_version_tag: tags filtered with (cfg.version_pattern, cfg.is_new_pattern)",
                  "cli.get_latest_vcs_version_tag: tag filter not wired to the configured pattern and engine", unparse(c), loc=gl.loc(c))
    # selection idiom
    sel_ok = False
    sel_desc = ""
    rets = [n for n in walk_no_nested(gl.node) if isinstance(n, ast.Return) and n.value is not None and not (isinstance(n.value, ast.Constant) and n.value.value is None)]
    ev = latest_tag_eval(ctx)
    ctx.require(ev is not None or len(rets) == 1, "get_latest_vcs_version_tag: expected one non-None return")
    rv = rets[0].value if rets else None

    def key_of(call: ast.Call) -> T.Optional[bool]:
        k = [kw.value for kw in call.keywords if kw.arg == "key"]
        if not k:
            return None
        e = k[0]
        if _is_parse_version(prog, gl, e):
            return True
        if isinstance(e, ast.Lambda) and _keyed(prog, gl, e.body) is not None and unparse(_keyed(prog, gl, e.body)) == e.args.args[0].arg:
            return True
        return False

    def is_rev(call: ast.Call) -> bool:
        r = [kw.value for kw in call.keywords if kw.arg == "reverse"]
        return bool(r) and isinstance(r[0], ast.Constant) and r[0].value is True

    lst = pvt and shapes.single_def(gl, "version_tags") is not None
    if ev is not None:
        sel_ok, sel_desc = not ev, "evaluated: " + ("; ".join(ev[:2]) if ev else "every order of three version tags and a non-version tag")
    elif isinstance(rv, ast.Call) and unparse(rv.func) == "max":
        sel_ok = key_of(rv) is True
        sel_desc = unparse(rv)
    elif isinstance(rv, ast.Subscript) and isinstance(rv.slice, (ast.Constant, ast.UnaryOp)):
        idx = rv.slice.value if isinstance(rv.slice, ast.Constant) else (-rv.slice.operand.value if isinstance(rv.slice.op, ast.USub) else None)
        base = rv.value
        if isinstance(base, ast.Call) and unparse(base.func) == "sorted":
            sel_ok = key_of(base) is True and ((idx == 0 and is_rev(base)) or (idx == -1 and not is_rev(base)))
            sel_desc = unparse(rv)
        elif isinstance(base, ast.Name):
            sorts = [c for c in ast.walk(gl.node) if isinstance(c, ast.Call) and isinstance(c.func, ast.Attribute) and c.func.attr == "sort"
                     and unparse(c.func.value) == base.id]
            sel_desc = f"{[unparse(s) for s in sorts]} then {unparse(rv)}"
            if len(sorts) == 1:
                sel_ok = key_of(sorts[0]) is True and ((idx == 0 and is_rev(sorts[0])) or (idx == -1 and not is_rev(sorts[0])))
                # the sort must dominate the return
                g = cfgs.get(gl.fq)
                sn, rn = g.node_containing(sorts[0]), g.node_containing(rv)
                sel_ok = sel_ok and sn is not None and rn not in g.reachable(blocked_nodes=[sn])
    ctx.check("R2", sel_ok, f"get_latest_vcs_version_tag selects the maximum under version.parse_version  [{sel_desc}]",
              "cli.get_latest_vcs_version_tag: newest tag is not the maximum under version.parse_version",
              f"selection: {sel_desc or unparse(rv)}", loc=gl.loc(rv))

    # ---------------------------------------------------------------- R3
    pv = prog.function("cli._parse_version_tags")
    ctx.visit(pv.fq)
    rets = [n for n in walk_no_nested(pv.node) if isinstance(n, ast.Return)]
    decided_pvt = parse_version_tags_eval(ctx, "R3")
    ctx.require(decided_pvt or len(rets) == 1, "_parse_version_tags has several return statements")
    lc = rets[0].value
    if not decided_pvt:
        if isinstance(lc, ast.Name):
            lc = shapes.loop_as_listcomp(pv, lc.id, prog) or shapes.resolve_alias(pv, lc)
        ctx.require(isinstance(lc, ast.ListComp) and len(lc.generators) == 1, "_parse_version_tags is neither a list comprehension nor an accumulator loop")
        g = lc.generators[0]
        p_tags, p_pat, p_new = pv.params[0], pv.params[1], pv.params[2]
        ctx.check("R3", unparse(g.iter) == p_tags and isinstance(g.target, ast.Name) and unparse(lc.elt) == g.target.id,
                  "_parse_version_tags returns the tags themselves, taken from all_tags", "cli._parse_version_tags: result elements are not the listed tags",
                  unparse(lc), loc=pv.loc(lc))
        if not g.ifs:
            ctx.bad("R3", "cli._parse_version_tags: tags are not filtered by the version pattern",
                    f"`{unparse(lc)[:80]}` keeps every tag: tags that do not match the pattern take part in the comparison (and can break it)", loc=pv.loc(lc),
                    what="_parse_version_tags: filter is (v2version if is_new_pattern else v1version).is_valid")
        valid_calls = [c_ for t_ in g.ifs for c_ in ast.walk(t_) if isinstance(c_, ast.Call) and isinstance(c_.func, ast.Attribute) and c_.func.attr == "is_valid"]
        if g.ifs and not (len(g.ifs) == 1 and isinstance(g.ifs[0], ast.Call)):
            # a compound filter: it must be equivalent to the validity test alone
            ctx.require(len(valid_calls) == 1, "_parse_version_tags filter shape changed")

            def _cls(leaf: ast.AST) -> T.Tuple[str, bool]:
                if leaf is valid_calls[0]:
                    return "VALID", True
                raise AnalysisError(f"C09/R3: filter leaf not enumerated: {unparse(leaf)[:60]}")
            fbf = BF.true()
            for t_ in g.ifs:
                fbf = fbf & shapes.bool_expr_bf(t_, _cls)
            ctx.check("R3", fbf.equiv(BF.var("VALID")), "_parse_version_tags keeps a tag iff it is valid for the pattern",
                      "cli._parse_version_tags: tags are not filtered by the version pattern", f"kept iff {fbf.to_dnf()}", loc=pv.loc(lc))
            g = ast.comprehension(target=g.target, iter=g.iter, ifs=[valid_calls[0]], is_async=0)
        if g.ifs:
            fc = g.ifs[0]
            eng = fc.func.value if isinstance(fc.func, ast.Attribute) else None
            eng_def = shapes.resolve_alias(pv, eng) if eng is not None else None
            eng_ok = isinstance(fc.func, ast.Attribute) and fc.func.attr == "is_valid" and isinstance(eng_def, ast.IfExp) \
                and unparse(eng_def.test) == p_new and unparse(eng_def.body) == "v2version" and unparse(eng_def.orelse) == "v1version"
            ctx.check("R3", eng_ok, "_parse_version_tags: filter is (v2version if is_new_pattern else v1version).is_valid",
                      "cli._parse_version_tags: tags are not filtered by the pattern's own engine", unparse(fc), loc=pv.loc(fc))
            ctx.check("R3", [unparse(a) for a in fc.args] == [g.target.id if isinstance(g.target, ast.Name) else "?", p_pat],
                      "_parse_version_tags: is_valid(tag, version_pattern)", "cli._parse_version_tags: is_valid arguments changed", unparse(fc), loc=pv.loc(fc))

    from checks.c01 import full_match_rule
    for eng in ("v2version", "v1version"):
        full_match_rule(ctx, eng, "R3")
    # "tags that do not match the pattern never influence the result": a part recognises nothing beyond its documented shape
    from checks.c02 import part_language_band_rule, V2_PART_REF, V2_PART_REF_MAX
    part_language_band_rule(ctx, "R3", "v2patterns", V2_PART_REF, V2_PART_REF_MAX)

    # ---------------------------------------------------------------- R4
    esc = Escapes(prog)
    for modname in ("v2version", "v1version"):
        iv = prog.function(f"{modname}.is_valid")
        ctx.visit(iv.fq, f"{modname}.parse_version_info")
        pvi = shapes.find_calls(prog, iv, f"{modname}.parse_version_info")
        pvi_fn = prog.function(f"{modname}.parse_version_info")
        ctx.check("R4", len(pvi) == 1 and [unparse(call_arg(pvi[0], pvi_fn, p_) or ast.Constant(None)) for p_ in pvi_fn.params[:2]] == iv.params[:2]
                  and len(pvi[0].args) + len(pvi[0].keywords) == 2,
                  f"{modname}.is_valid parses (version_str, raw_pattern) with parse_version_info",
                  f"{modname}.is_valid: does not validate by parsing with the given pattern", "", loc=iv.loc())
        if len(pvi) == 1:
            icfg_ = cfgs.get(iv.fq)
            pn_ = icfg_.node_containing(pvi[0])
            wo_ = icfg_.reachable(blocked_nodes=[pn_]) if pn_ is not None else set()
            loose = [n for n in icfg_.nodes if n.kind == "stmt" and isinstance(n.ast, ast.Return) and n.id in wo_ and not (isinstance(n.ast.value, ast.Constant) and n.ast.value.value is False)]
            ctx.check("R4", not loose, f"{modname}.is_valid answers True only after parse_version_info accepted the text (every other return is False)",
                      f"{modname}.is_valid: a text can be declared valid without the full parse",
                      f"`{unparse(loose[0].ast) if loose else ''}` is reachable without passing `{unparse(pvi[0])}`: a prefix match (`1.0.1-1` for MAJOR.MINOR.PATCH) counts as a version tag, "
                      "becomes the start version and every further update fails", loc=iv.loc(loose[0].ast) if loose else iv.loc(), witness={"tag": "1.0.1-1", "pattern": "MAJOR.MINOR.PATCH"})
        out = esc.escapes(iv.fq)
        if not out:
            ctx.ok("R4", f"{modname}.is_valid: no exception class escapes (explicit raises, datetime.date, callee escapes)")
        for exc, chain in sorted(out.items()):
            ctx.bad("R4", f"{modname}.is_valid: {exc} escapes for some tag text",
                    f"{exc} can propagate out of is_valid (it only catches what its handlers name): one such tag breaks show/update. "
                    f"e.g. a calendar-impossible date like 'v20210230' for 'vYYYY0M0D'",
                    loc=iv.loc(), path=chain, witness={"tag": "v20210230", "pattern": "vYYYY0M0D"} if modname == "v2version" else {"tag": "2021.02.30", "pattern": "{year}.{month}.{dom}"})
        # ... nor an UnboundLocalError: every local read on the parse path is bound on every path to the read
        for fq_ in sorted(ctx.effects.reachable_functions([iv.fq])):
            if fq_.split(".")[0] not in ("v1version", "v2version", "v1patterns", "v2patterns", "version"):
                continue
            f_ = prog.function(fq_)
            ub = shapes.maybe_unbound(cfgs.get(fq_), f_)
            ctx.check("R4", not ub, f"{fq_}: every local is bound before it is read (definite assignment)", f"{fq_}: a local can be read before it is bound (UnboundLocalError escapes is_valid)",
                      f"{sorted({(nm_, cfgs.get(fq_).nodes[nid_].lineno) for nm_, nid_ in ub})[:4]}: e.g. a handler that no longer raises falls through to code that uses the value "
                      "the failed statement should have bound; a tag with an impossible date then breaks show/update", loc=f_.loc(), witness={"tag": "v20200230.0007"})
        # int() of groups: every field converted with int() has a digit-only recogniser
    v2p = prog.const("v2patterns", "PART_PATTERNS")
    v2f = prog.const("v2patterns", "PATTERN_PART_FIELDS")
    digits = relang.from_regex("[0-9]+")
    vinfo_cls = prog.klass("version.V2VersionInfo")
    int_fields = {f for f, ann in vinfo_cls.field_annotations.items() if unparse(ann) in ("int", "MaybeInt", "typ.Optional[int]", "Optional[int]")}
    ctx.floor("R4", "int-typed fields of V2VersionInfo (their groups are passed to int())", len(int_fields), 10)
    for part, field in sorted(v2f.items()):
        if field in int_fields:
            w = relang.included(relang.from_regex(v2p[part]), digits)
            ctx.check("R4", w is None, f"int() of field '{field}': recogniser of part {part} accepts digits only",
                      f"v2patterns.PART_PATTERNS['{part}'] accepts non-digit text that the parser passes to int()",
                      f"{v2p[part]!r} accepts {w!r}", loc="src/bumpver/v2patterns.py", witness=w)
    # table lookups keyed by recognised text
    tag_keys = set(prog.const("version", "PEP440_TAG_BY_TAG"))
    pytag_keys = set(prog.const("version", "TAG_BY_PEP440_TAG"))
    for part, keys, tab in (("TAG", tag_keys, "PEP440_TAG_BY_TAG"), ("PYTAG", pytag_keys, "TAG_BY_PEP440_TAG")):
        lang, complete = relang.enumerate_language(relang.from_regex(v2p[part]), max_len=12)
        ctx.require(complete, f"PART_PATTERNS['{part}'] is not a finite language")
        missing = sorted(set(lang) - keys)
        ctx.check("R4", not missing, f"every text recognised as {part} is a key of version.{tab} (no KeyError while parsing a tag)",
                  f"version.{tab} lacks keys recognised by PART_PATTERNS['{part}']", f"missing {missing}", loc="src/bumpver/version.py", witness=missing)

    # ---------------------------------------------------------------- R5
    upd = prog.function("cli.update")
    gate = prog.function("cli._is_valid_version")
    ctx.visit(upd.fq, gate.fq)
    gcalls = shapes.find_calls(prog, upd, gate.fq)
    ctx.floor("R5", "gate calls in update", len(gcalls), 1)
    from sa.pathcond import expr_atoms
    for c in gcalls:
        u = call_arg(c, gate, "unique")
        ctx.require(u is not None, "update no longer passes unique= to the gate")
        defs = [v for _st, v in shapes.local_defs(upd, u.id)] if isinstance(u, ast.Name) else [u]
        ctx.require(all(d is not None for d in defs), "update: uniqueness flag has a non-expression definition")
        extra = [u.id] if isinstance(u, ast.Name) else []
        for d in defs:
            extra += expr_atoms(d)
        if not any("tag_scope" in a and a.endswith("TagScope.BRANCH") for a in extra):
            extra.append("cfg.tag_scope == config.TagScope.BRANCH")
        if "set_version is None" not in extra:
            extra.append("set_version is None")
        ug2 = cfgs.get(upd.fq)
        upc2 = PathCond(ug2, extra_atoms=list(dict.fromkeys(extra)), max_atoms=22)
        at = ug2.node_containing(c)
        r = upc2.reach(at)
        U = upc2.expr_bf(u)
        ctx.require(U is not None, f"update: uniqueness argument `{unparse(u)}` is not over tracked atoms")
        br = [a for a in upc2.atoms if "tag_scope" in a and a.endswith("TagScope.BRANCH")]
        sv = [a for a in upc2.atoms if a == "set_version is None"]
        ctx.require(len(br) == 1 and len(sv) == 1, f"update: uniqueness atoms not found ({br}, {sv})")
        need = BF.var(br[0]) | ~BF.var(sv[0])
        bad = r & need & ~U
        ctx.check("R5", bad.is_false(),
                  "update: whenever the gate is reached with scope BRANCH or --set-version, unique is requested",
                  "cli.update: uniqueness check not requested for branch scope / --set-version",
                  f"gate reached with unique false when {bad.project([br[0], sv[0]] + [a for a in bad.atoms if a in ('ignore_vcs_tag',)]).to_dnf()}", loc=upd.loc(c), witness=bad.models(1))
    # inside the gate
    gcfg = cfgs.get(gate.fq)
    gpc = PathCond(gcfg)
    true_rets = [n for n in gcfg.nodes if n.kind == "stmt" and isinstance(n.ast, ast.Return) and isinstance(n.ast.value, ast.Constant) and n.ast.value.value is True]
    ctx.floor("R5", "`return True` in the gate", len(true_rets), 1)
    memb = [a for a in gpc.atoms if a.startswith(f"{gate.params[2]} in ")]
    ctx.require("unique" in gpc.atoms and len(memb) == 1, "gate does not test `unique` and `new_version in <tags>`")
    ok_cond = BF.false()
    for n in true_rets:
        ok_cond = ok_cond | gpc.reach(n.id)
    ok_cond = ok_cond.project(["unique", memb[0]])
    ctx.check("R5", ok_cond.implies(~(BF.var("unique") & BF.var(memb[0]))),
              "gate: with unique set, an existing tag equal to the new version is rejected",
              "cli._is_valid_version: uniqueness test does not reject an existing tag", f"return True when {ok_cond.to_dnf()}", loc=gate.loc())
    tags_var = memb[0].split(" in ", 1)[1]
    gtc2 = shapes.find_calls(prog, gate, "vcs.get_tags")
    ctx.floor("R5", "get_tags calls in the gate", len(gtc2), 1)
    for c in gtc2:
        sc = call_arg(c, gt, "scope")
        ctx.check("R5", sc is not None and unparse(sc).endswith("TagScope.GLOBAL"), "gate: uniqueness compares against tags of all branches (scope GLOBAL)",
                  "cli._is_valid_version: uniqueness is not checked against all branches", unparse(c), loc=gate.loc(c))
    tv = shapes.single_def(gate, tags_var)
    ok_tv = tv is not None and isinstance(tv, ast.Call) and unparse(tv.func) == "_parse_version_tags" and unparse(tv.args[1]) == gate.params[0] \
        and shapes.flows_from(gate, tv.args[0], lambda e: isinstance(e, ast.Call) and e in gtc2)
    # the unfiltered listing does as well: the new version has passed the pattern's full parse before (the gate's first test), so it
    # is among all tags exactly when it is among the pattern-valid ones
    ok_tv = ok_tv or (tv is not None and any(tv is c_ for c_ in gtc2))
    ctx.check("R5", ok_tv, "gate: compared tags are the pattern-valid tags of get_tags(GLOBAL)", "cli._is_valid_version: uniqueness set is not the valid tags of all branches",
              unparse(tv) if tv is not None else "", loc=gate.loc())
    # ... valid for the pattern's own engine: the engine flag is handed on (not left to a default)
    pvt = prog.function("cli._parse_version_tags")
    for c in shapes.find_calls(prog, gate, pvt.fq):
        ea = call_arg(c, pvt, pvt.params[2])
        ctx.check("R5", ea is not None and unparse(shapes.resolve_alias(gate, ea)) == unparse(shapes.resolve_alias(gate, ast.Name(id="is_new_pattern", ctx=ast.Load()))),
                  "gate: _parse_version_tags receives the gate's own is_new_pattern", "cli._is_valid_version: the uniqueness tags are filtered with a fixed engine",
                  f"`{unparse(c)}`: for legacy patterns no tag counts as a version tag, an existing tag of another branch is announced again", loc=gate.loc(c),
                  witness={"pattern": "{semver}", "tag_scope": "branch"})
    ctx.check("R5", not any(d_ is not None for d_ in pvt.node.args.defaults), "_parse_version_tags has no default engine", "cli._parse_version_tags: the engine flag has a default",
              "a caller that omits is_new_pattern silently filters with that engine", loc=pvt.loc())


def listing_failure_rule(ctx, rule: str) -> None:
    """A failing fetch / tag listing (CalledProcessError) is never converted into 'there are no tags': every handler that
    can catch it around such a command ends in a raise or a non-zero exit."""
    from sa.cfg import handler_can_catch
    prog, cfgs, effects = ctx.prog, ctx.cfgs, ctx.effects
    listing = ("VCS_FETCH", "VCS_READ:ls_tags")
    n_try = 0
    for fq in sorted(effects.sites):
        if not (fq.startswith("vcs.") or fq.startswith("cli.")):
            continue
        fn = prog.function(fq)
        tries = [n for n in walk_no_nested(fn.node) if isinstance(n, ast.Try)]
        if not tries:
            continue
        cfg = None
        for tr in tries:
            eff: T.Dict[str, T.List[str]] = {}
            for st in tr.body:
                eff.update(effects.node_effects(fn, st))
            hit = sorted(e for e in eff if e.startswith(listing))
            if not hit:
                continue
            n_try += 1
            cfg = cfg or cfgs.get(fq)
            for h in tr.handlers:
                hn = [n for n in cfg.nodes if n.kind == "handler" and n.ast is h]
                if not hn:
                    raise AnalysisError(f"C09: no CFG node for the handler at {fn.loc(h)}")
                if not handler_can_catch(hn[0].extra.get("types"), "CalledProcessError"):
                    ctx.ok(rule, f"{fq}: handler `except {unparse(h.type) if h.type else ''}` around {hit} cannot catch CalledProcessError")
                    continue
                out = shapes.handler_outcome(cfg, hn[0].id)["outcomes"]
                ctx.check(rule, "fallthrough" not in out and not any(o == "exit:0" for o in out),
                          f"{fq}: handler for a failed {hit} re-raises / exits non-zero",
                          f"{fq}: a failed fetch / tag listing is swallowed (handler `except {unparse(h.type) if h.type else ''}` continues normally), so the tags are silently taken to be empty",
                          f"try body runs {hit}; handler outcomes {sorted(out)}", loc=fn.loc(h))
    ctx.floor(rule, "try statements around fetch / tag listing commands", n_try, 1)


def pep440_of_tag_rule(ctx, rule: str) -> None:
    """_update_cfg_from_vcs: the pep440_version that replaces the config value is to_pep440(<the adopted tag>)."""
    prog = ctx.prog
    uc = prog.function("cli._update_cfg_from_vcs")
    ctx.visit(uc.fq)
    n = 0
    for v in ast.walk(uc.node):
        if isinstance(v, ast.Call) and isinstance(v.func, ast.Attribute) and v.func.attr == "_replace" and any(kw.arg == "current_version" for kw in v.keywords):
            kws = shapes.kwargs_of(v)
            tagvar = unparse(kws["current_version"])
            pv = kws.get("pep440_version")
            ok = pv is not None and shapes.flows_from(uc, pv, lambda e: isinstance(e, ast.Call) and unparse(e.func) == "version.to_pep440" and unparse(e.args[0]) == tagvar)
            n += 1
            ctx.check(rule, ok, "_update_cfg_from_vcs: pep440_version = to_pep440(<adopted tag>) - `show` prints the PEP440 form of the version it shows",
                      "cli._update_cfg_from_vcs: pep440_version is not derived from the adopted tag (show prints a PEP440 value of another version)", unparse(v)[:100], loc=uc.loc(v))
    ctx.floor(rule, "cfg replacements in _update_cfg_from_vcs", n, 1)


def tag_listing_rule(ctx, rule: str) -> None:
    """ls_tags / ls_tags_branch evaluated on a four-line listing: one tag per output line (the first blank-separated word
    of the stripped line), nothing else splits a tag - a tag name containing other white space (U+00A0) stays one tag."""
    from sa.model import CannotFold, EvalError
    prog = ctx.prog
    listing = "v1.2.3\n  v1.2.4  \ntip                                5:0fde\njunk\u00a09.9.9\n"
    want = ["v1.2.3", "v1.2.4", "tip", "junk\u00a09.9.9"]
    for meth in ("ls_tags", "ls_tags_branch"):
        fn = prog.function(f"vcs.VCSAPI.{meth}")
        ctx.visit(fn.fq)
        try:
            env = {"__strict__": True, "__stubs__": {fn.params[0]: lambda f, node: listing}}
            got, _ys = prog.run_body(fn, env)
        except EvalError as ex:
            got = f"raises: {ex}"
        except (CannotFold, TypeError, AttributeError, KeyError, ValueError, IndexError) as ex:
            ctx.observe(f"{fn.fq} not evaluated ({type(ex).__name__}: {str(ex)[:80]})")
            continue
        ctx.check(rule, got == want, f"{fn.fq}: one tag per line of the listing (evaluated on 4 lines)", f"{fn.fq}: the tag listing is not read one tag per line",
                  f"{got!r}, expected {want!r}: part of a non-matching tag name is taken for a version tag", loc=fn.loc(), witness={"tag": "junk\u00a09.9.9"})


def latest_tag_eval(ctx) -> T.Optional[T.List[str]]:
    """cli.get_latest_vcs_version_tag evaluated for every listing order of three version tags and one other tag, with an
    abstract version order: the result is the filtered tag that version.parse_version ranks highest, None without version
    tags.  Returns the mismatches, or None when the function is outside what the evaluator handles."""
    import itertools
    from sa.model import Abstract, CannotFold, EvalError
    prog = ctx.prog
    gl = prog.function("cli.get_latest_vcs_version_tag")
    rank: T.Dict[str, int] = {}

    class VersionMod(Abstract):
        def parse_version(self, tag: str) -> int:
            return rank[tag]

    class Cfg(Abstract):
        tag_scope, version_pattern, is_new_pattern = "SCOPE", "PAT", True
    wrong: T.List[str] = []
    try:
        listings = [list(p_) for p_ in itertools.permutations(["ta", "tc", "junk", "tb"])] + [[], ["junk"], ["tb"]]
        # every assignment of the three ranks to the three names: no order of the tag *texts* agrees with all of them
        for ranks, tags in itertools.product(itertools.permutations((1, 2, 3)), listings):
            rank.clear()
            rank.update(zip(("ta", "tb", "tc"), ranks))
            stubs = {"vcs.get_tags": lambda f, node, tags=tags: list(tags),
                     "_parse_version_tags": lambda f, node: [t_ for t_ in f(node.args[0] if node.args else node.keywords[0].value) if t_ in rank]}
            env = {gl.params[0]: Cfg(), gl.params[1]: True, "version": VersionMod(), "__strict__": True, "__stubs__": stubs}
            try:
                got, _ys = prog.run_body(gl, env)
            except EvalError as ex:
                got = f"raises: {ex}"
            good = [t_ for t_ in tags if t_ in rank]
            want = max(good, key=rank.get) if good else None
            if got != want and len(wrong) < 3:
                wrong.append(f"tags {tags} ordered {sorted(rank, key=rank.get)} -> {got!r}, expected {want!r}")
    except (CannotFold, TypeError, AttributeError, KeyError, ValueError, IndexError) as ex:
        ctx.observe(f"cli.get_latest_vcs_version_tag not evaluated ({type(ex).__name__}: {str(ex)[:80]})")
        return None
    return wrong


def parse_version_tags_eval(ctx, rule: str) -> bool:
    """cli._parse_version_tags evaluated with abstract engines: for a new-style pattern the result is the tags that
    v2version.is_valid(tag, version_pattern) accepts, in listing order, for a legacy pattern those of v1version - each asked with
    exactly these two arguments (no option that loosens the test)."""
    from sa.model import Abstract, CannotFold, EvalError
    prog = ctx.prog
    pv = prog.function("cli._parse_version_tags")
    if len(pv.params) < 3:
        return False

    class Eng(Abstract):
        def __init__(self, name: str, accepts: T.Set[str]):
            self.name, self.accepts, self.calls = name, accepts, []

        def is_valid(self, *a: T.Any, **k: T.Any) -> bool:
            self.calls.append((a, k))
            return bool(a) and a[0] in self.accepts
    tags = ["t1", "junk", "t2", "t3"]
    wrong: T.List[str] = []
    try:
        for is_new in (True, False):
            v2, v1 = Eng("v2version", {"t1", "t3"}), Eng("v1version", {"t2"})
            env = {pv.params[0]: list(tags), pv.params[1]: "PAT", pv.params[2]: is_new, "v2version": v2, "v1version": v1, "__strict__": True}
            try:
                got, _ys = prog.run_body(pv, env)
            except EvalError as ex:
                got = f"raises: {ex}"
            eng, other = (v2, v1) if is_new else (v1, v2)
            want = [t for t in tags if t in eng.accepts]
            if got != want:
                wrong.append(f"is_new_pattern={is_new}: {got}, expected {want}")
            if other.calls:
                wrong.append(f"is_new_pattern={is_new}: {other.name}.is_valid is asked")
            odd = [c for c in eng.calls if c[1] or len(c[0]) != 2 or c[0][1] != "PAT"]
            if odd:
                wrong.append(f"is_new_pattern={is_new}: {eng.name}.is_valid called with {odd[0][0][1:]} {odd[0][1]} instead of (tag, version_pattern)")
    except (CannotFold, TypeError, AttributeError, KeyError, ValueError, IndexError) as ex:
        ctx.observe(f"cli._parse_version_tags not evaluated ({type(ex).__name__}: {str(ex)[:80]})")
        return False
    ctx.check(rule, not wrong, "_parse_version_tags keeps exactly the tags that the pattern's own engine declares valid for (tag, version_pattern) (evaluated for both engines)",
              "cli._parse_version_tags: tags are not filtered by <engine>.is_valid(tag, version_pattern) of the pattern's engine", "; ".join(wrong[:3]), loc=pv.loc(),
              witness={"tag": "1.0.1-1", "pattern": "MAJOR.MINOR.PATCH"})
    return True
