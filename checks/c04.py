"""C04 - rewriting touches nothing but the matched spans."""
from __future__ import annotations

import ast
import os
import shutil
import tempfile
import typing as T

from sa import shapes
from sa.effects import Effects, open_mode
from sa.model import AnalysisError, Program, call_arg, const_str, unparse, walk_no_nested

TECHNIQUE = "I/O-discipline lint over all open() sites (resolved callees), split/join provenance check, span-splice shape check, who-may-write rule over effect sites with a positive control"
EXPLANATION = (
    "A discipline property, decided in full modulo the stdlib law sep.join(s.split(sep)) == s for non-empty sep: (R1) every "
    "text-mode open() on the rewrite and diff paths passes newline='' and encoding='utf-8' as constants (config files: "
    "explicit utf-8); (R2) content is split with exactly the separator returned by detect_line_sep, that same value is "
    "stored in the record and used to join the record's new_lines for writing, and detect_line_sep never returns an empty "
    "string; (R3) the only stores into the result are line[:l] + replacement + line[r:] with (l, r) the match's own span "
    "and the match built from the same enumerate step as the searched line; (R4) the set of file-writing sites of the "
    "package is exactly the whitelist (rewrite_files of both engines, init's write_content, the hg commit temp file) and "
    "the written path is the configured path that was read."
)
LEVEL_NOTE = "Trusted: str.split/join inverse law, Python's universal-newline rules (newline='' disables translation), utf-8 codec round trip."

ENGINES = ("v2rewrite", "v1rewrite")
WRITE_WHITELIST = {"v2rewrite.rewrite_files", "v1rewrite.rewrite_files", "config.write_content", "vcs.VCSAPI.commit"}


def _kw(call: ast.Call, name: str) -> T.Optional[ast.AST]:
    for kw in call.keywords:
        if kw.arg == name:
            return kw.value
    return None


def run(ctx) -> None:
    prog, effects, cfgs = ctx.prog, ctx.effects, ctx.cfgs
    ctx.rule("R1", "open() discipline: newline='' and encoding='utf-8' on every text open of the rewrite/diff path; explicit utf-8 for config files")
    ctx.rule("R2", "split / join with the one separator detected for the file; never empty")
    ctx.rule("R3", "only the matched span of a matched line is replaced")
    ctx.rule("R4", "who may write: write sites == whitelist; written path == configured path that was read")
    ctx.rule("R5", "prerequisite: replacements never overlap - matches are enumerated completely and an overlapping later match is suppressed (C03/R3), spans applied right to left (C03/R1)")
    ctx.rule("R6", "prerequisite: 'the character spans matched by configured patterns' are occurrences of the configured text - literal pattern text matches only itself (C07/R1)")
    from sa.report import run_prerequisite as _rp6
    _rp6(ctx, "C07", ("R1", "R3"), "R6")          # R3: what is compiled is the escaped text itself (no later edit of the regex)
    from sa.report import run_prerequisite
    run_prerequisite(ctx, "C03", ("R1", "R3"), "R5")
    run_prerequisite(ctx, "C03", ("R6",), "R4", only=lambda key: "glob" in key)          # "files not named by the configuration are never touched": a glob matches what its text names
    from checks.c02 import part_language_band_rule, V2_PART_REF, V2_PART_REF_MAX
    part_language_band_rule(ctx, "R5", "v2patterns", V2_PART_REF, V2_PART_REF_MAX)          # text that is no version (non-ASCII digits, other shapes) is not a matched span
    shapes.memo_rule(ctx, "R5")          # "files not named ... / only configured spans": the pattern cache hands every file its own patterns

    # ---------------------------------------------------------------- R1
    reach = effects.reachable_functions(["cli.update"])
    n_rw = n_cfg = 0
    for fq in sorted(effects.sites):
        fn = prog.function(fq)
        for s in effects.sites[fq]:
            if s.detail.get("via") in ("read_text", "write_text", ".write_text") and fn.module.name in ENGINES + ("rewrite",) and fq in reach:
                # pathlib shortcuts open in text mode with newline=None: line endings are translated
                n_rw += 1
                ctx.bad("R1", f"{fq}: file opened with newline translation (Path.{s.detail['via']})",
                        f"`{unparse(s.node)[:90]}` reads/writes with universal newlines: CRLF / CR files are rewritten with different line endings",
                        loc=fn.loc(s.node), what=f"{fq} L{s.node.lineno}: text I/O passes newline=''")
                continue
            if s.detail.get("via") != "open":
                continue
            call = s.node
            mode = s.detail.get("mode")
            ctx.require(mode is not None, f"non-constant open() mode at {s.loc}")
            if "b" in mode:
                continue
            in_rewrite = fn.module.name in ENGINES + ("rewrite",) and fq in reach
            in_config = fn.module.name == "config"
            if not (in_rewrite or in_config or ctx.tier == "thorough"):
                continue
            ctx.visit(fq)
            enc = _kw(call, "encoding")
            ok_enc = const_str(enc) is not None and const_str(enc).lower().replace("_", "-") in ("utf-8", "utf8")
            ctx.check("R1", ok_enc, f"{fq} L{call.lineno}: open(mode={mode!r}) passes encoding='utf-8'",
                      f"{fq}: text file opened without an explicit utf-8 encoding (mode {mode!r})",
                      f"`{unparse(call)[:90]}` falls back to the locale's encoding: non-ASCII text is corrupted or the run fails under LC_ALL=C",
                      loc=fn.loc(call))
            if in_rewrite:
                err = _kw(call, "errors")
                ctx.check("R1", err is None or const_str(err) == "strict", f"{fq} L{call.lineno}: open(mode={mode!r}) decodes / encodes strictly",
                          f"{fq}: a file of the rewrite path is opened with a lenient error handler (mode {mode!r})",
                          f"`{unparse(call)[:100]}`: bytes that are not valid UTF-8 are read as surrogates (or replaced) and pass validation, but the strict write raises after the file was "
                          f"truncated (or the replaced bytes are written back): bytes outside the matched span are lost", loc=fn.loc(call), witness={"file": "LICENSE with a latin-1 copyright sign"})
                if any(c_ in mode for c_ in "wax+"):
                    ctx.check("R1", "w" in mode and "+" not in mode, f"{fq} L{call.lineno}: the file is written with mode 'w' (truncated to the new content)",
                              f"{fq}: a rewritten file is not truncated to its new content (mode {mode!r})",
                              f"`{unparse(call)[:100]}`: when the new content is shorter than the old one, the tail of the old content stays behind", loc=fn.loc(call),
                              witness={"old": "version 1.2.3-beta\n", "new": "version 1.2.3\n"})
                n_rw += 1
                nl = _kw(call, "newline")
                ok_nl = isinstance(nl, ast.Constant) and nl.value == ""
                ctx.check("R1", ok_nl, f"{fq} L{call.lineno}: open(mode={mode!r}) passes newline=''",
                          f"{fq}: file opened with newline translation (mode {mode!r})",
                          f"`{unparse(call)[:90]}` lets Python translate line endings: CRLF / CR files are rewritten with different line endings",
                          loc=fn.loc(call))
            elif in_config:
                n_cfg += 1
    # ... "non-ASCII text is preserved exactly": a file that is not UTF-8 is refused, not read under another encoding and written
    # back as UTF-8 - no `.decode(<other encoding>)` / `encoding=<other>` on the rewrite path
    rw_reach = effects.reachable_functions([f"{e_}.rewrite_files" for e_ in ENGINES] + [f"{e_}.diff" for e_ in ENGINES])
    n_reads_ = 0
    for fq_ in sorted(rw_reach):
        f_ = prog.function(fq_)
        for c_ in ast.walk(f_.node):
            if not isinstance(c_, ast.Call):
                continue
            if isinstance(c_.func, ast.Attribute) and c_.func.attr == "read":
                n_reads_ += 1
                lim_ = c_.args[0] if c_.args else _kw(c_, "size")
                unbounded_ = lim_ is None or (isinstance(lim_, ast.Constant) and lim_.value in (None, -1))
                ctx.check("R1", unbounded_, f"{fq_} L{c_.lineno}: the file is read to its end", f"{fq_}: a file of the rewrite path is read only up to a limit",
                          f"`{unparse(c_)[:80]}`: what lies behind the limit is not part of the content that is written back: the tail of a long file is lost", loc=f_.loc(c_),
                          witness={"file": "a configured file longer than the limit"})
            enc_ = None
            if isinstance(c_.func, ast.Attribute) and c_.func.attr == "decode":
                enc_ = c_.args[0] if c_.args else _kw(c_, "encoding")
            elif unparse(c_.func) in ("str", "codecs.decode") and len(c_.args) >= 2:
                enc_ = c_.args[1]
            if enc_ is not None and const_str(enc_) is not None and const_str(enc_).lower().replace("_", "-") not in ("utf-8", "utf8", "ascii"):
                ctx.bad("R1", f"{fq_}: file content is decoded as {const_str(enc_)}", f"`{unparse(c_)[:80]}`: a file that is not UTF-8 is accepted under another encoding and then written as UTF-8: "
                        f"every non-ASCII byte outside the match changes (a `coding:` cookie becomes wrong)", loc=f_.loc(c_), witness={"file": "legacy.py in latin-1 with `©`"},
                        what=f"{fq_}: content is decoded as UTF-8 only")
    ctx.floor("R1", "whole-file read() sites on the rewrite/diff path", n_reads_, 2)
    ctx.floor("R1", "text open() sites on the rewrite/diff path", n_rw, 4)
    ctx.floor("R1", "text open() sites in config", n_cfg, 3)

    # ---------------------------------------------------------------- R2
    dls = prog.function("rewrite.detect_line_sep")
    ctx.visit(dls.fq)
    rets = [n for n in walk_no_nested(dls.node) if isinstance(n, ast.Return)]
    ctx.floor("R2", "returns of detect_line_sep", len(rets), 1)
    def possible(e: ast.AST) -> T.Optional[T.List[T.Any]]:
        if isinstance(e, ast.Constant):
            return [e.value]
        if isinstance(e, ast.Name):
            for lp in walk_no_nested(dls.node):
                if isinstance(lp, ast.For) and isinstance(lp.target, ast.Name) and lp.target.id == e.id and len(shapes.local_defs(dls, e.id)) == 1:
                    try:
                        return list(prog.fold(dls.module, lp.iter))
                    except AnalysisError:
                        return None
            d = shapes.single_def(dls, e.id)
            if d is not None:
                return possible(d)
            if e.id not in dls.all_params and not shapes.local_defs(dls, e.id):
                try:
                    return [prog.fold(dls.module, e)]          # a module-level constant
                except AnalysisError:
                    return None
        return None
    for r in rets:
        vals = possible(r.value)
        good = vals is not None and all(isinstance(v, str) and v != "" for v in vals)
        ctx.check("R2", good, f"detect_line_sep returns non-empty constant separator(s) {vals!r}", "rewrite.detect_line_sep can return an empty or computed separator",
                  unparse(r), loc=dls.loc(r))
    ctx.check("R2", not cfgs.get(dls.fq).nodes[cfgs.get(dls.fq).exit].extra.get("implicit_from"), "detect_line_sep never falls off its end",
              "rewrite.detect_line_sep can return None", "", loc=dls.loc())
    rfd_cls = prog.klass("rewrite.RewrittenFileData")
    ctx.check("R2", rfd_cls.fields == ["path", "line_sep", "old_lines", "new_lines"], "RewrittenFileData fields are (path, line_sep, old_lines, new_lines)",
              "rewrite.RewrittenFileData field order changed", f"{rfd_cls.fields}", loc="src/bumpver/rewrite.py")
    for eng in ENGINES:
        fq = f"{eng}.rfd_from_content"
        fn = prog.function(fq)
        ctx.visit(fq)
        p_content = fn.params[2]
        rebinds = [x for x in ast.walk(fn.node) if isinstance(x, ast.Name) and x.id == p_content and isinstance(x.ctx, ast.Store)]
        ctx.check("R2", not rebinds, f"{fq}: the content that was read is split as it is (`{p_content}` is not re-bound)",
                  f"{fq}: the file content is transformed before it is split into lines",
                  f"`{p_content}` is assigned again at L{rebinds[0].lineno if rebinds else 0}: old and new lines are both made from the transformed text, so the diff shows nothing, but the "
                  f"whole file is written back transformed (normalised / re-encoded / stripped) - every byte outside the matches can change", loc=fn.loc(rebinds[0]) if rebinds else fn.loc(),
                  witness={"content": "cafe\u0301 (decomposed) outside the match"})
        seps = [(st, v) for st, v in shapes.local_defs(fn, "line_sep")]
        sep_calls = [c for c in ast.walk(fn.node) if isinstance(c, ast.Call) and unparse(c.func).endswith("detect_line_sep")]
        ctx.require(len(sep_calls) == 1, f"{fq}: expected one detect_line_sep call")
        ctx.check("R2", unparse(sep_calls[0].args[0]) == p_content, f"{fq}: separator detected on the file content", f"{fq}: separator is not detected on the content that is split",
                  unparse(sep_calls[0]), loc=fn.loc(sep_calls[0]))
        sep_names = [n.targets[0].id for n in walk_no_nested(fn.node) if isinstance(n, ast.Assign) and n.value is sep_calls[0] and isinstance(n.targets[0], ast.Name)]
        ctx.require(len(sep_names) == 1 and len(shapes.local_defs(fn, sep_names[0])) == 1, f"{fq}: separator variable not a single assignment")
        sep = sep_names[0]
        splits = [c for c in ast.walk(fn.node) if isinstance(c, ast.Call) and isinstance(c.func, ast.Attribute) and c.func.attr in ("split", "splitlines", "rsplit", "partition")
                  and unparse(c.func.value) == p_content]
        ctx.floor("R2", f"split sites in {fq}", len(splits), 1)
        for c in splits:
            ok = c.func.attr == "split" and len(c.args) == 1 and not c.keywords and unparse(c.args[0]) == sep
            ctx.check("R2", ok, f"{fq}: content.split({sep}) with exactly the detected separator", f"{fq}: content is not split with exactly the detected separator",
                      f"`{unparse(c)}` (splitlines() / a constant / a max-split loses or alters line endings)", loc=fn.loc(c))
        ctor = [c for c in ast.walk(fn.node) if isinstance(c, ast.Call) and unparse(c.func).endswith("RewrittenFileData")]
        ctx.require(len(ctor) == 1, f"{fq}: RewrittenFileData constructor not found")
        args = dict(zip(rfd_cls.fields, ctor[0].args))
        args.update(shapes.kwargs_of(ctor[0]))
        ctx.check("R2", unparse(args.get("line_sep", ast.Constant(None))) == sep, f"{fq}: the record stores the detected separator", f"{fq}: the record stores a different separator than the one used to split",
                  unparse(ctor[0]), loc=fn.loc(ctor[0]))
        old_def = shapes.resolve_alias(fn, args.get("old_lines", ast.Constant(None)))
        new_def = shapes.resolve_alias(fn, args.get("new_lines", ast.Constant(None)))
        ctx.check("R2", old_def in splits or any(old_def is c for c in splits), f"{fq}: old_lines is the split content", f"{fq}: old_lines is not the split content", unparse(old_def), loc=fn.loc())
        ok_new = isinstance(new_def, ast.Call) and unparse(new_def.func) == "rewrite_lines" and shapes.resolve_alias(fn, new_def.args[2]) is old_def
        ctx.check("R2", ok_new, f"{fq}: new_lines = rewrite_lines(patterns, new_vinfo, old_lines)", f"{fq}: new_lines is not rewrite_lines of the split content", unparse(new_def), loc=fn.loc())
        # writer
        wfq = f"{eng}.rewrite_files"
        w = prog.function(wfq)
        ctx.visit(wfq)
        opens = [s.node for s in effects.sites[wfq] if s.effect == "FS_WRITE" and s.detail.get("via") == "open"]
        ctx.require(len(opens) == 1, f"{wfq}: expected one write-open")
        wcall = opens[0]
        path_arg = wcall.args[0] if wcall.args else _kw(wcall, "file")
        ctx.require(path_arg is not None, f"{wfq}: open() without path")
        rec = path_arg.value.id if isinstance(path_arg, ast.Attribute) and isinstance(path_arg.value, ast.Name) and path_arg.attr == "path" else None
        ctx.check("R4", rec is not None, f"{wfq}: writes to <record>.path", f"{wfq}: the written path is not the path stored in the rewritten record", unparse(path_arg), loc=w.loc(wcall))
        writes = [c for c in ast.walk(w.node) if isinstance(c, ast.Call) and isinstance(c.func, ast.Attribute) and c.func.attr == "write"]
        ctx.require(len(writes) == 1, f"{wfq}: expected one .write()")
        content = shapes.resolve_alias(w, writes[0].args[0])
        ok = isinstance(content, ast.Call) and isinstance(content.func, ast.Attribute) and content.func.attr == "join" and rec is not None \
            and unparse(content.func.value) == f"{rec}.line_sep" and len(content.args) == 1 and unparse(content.args[0]) == f"{rec}.new_lines"
        ctx.check("R2", ok, f"{wfq}: writes <record>.line_sep.join(<record>.new_lines) of the same record", f"{wfq}: written text is not the record's lines joined with the record's separator",
                  unparse(content)[:80], loc=w.loc(writes[0]))
        # the file object written is the one opened
        with_items = [it for n in walk_no_nested(w.node) if isinstance(n, ast.With) for it in n.items if it.context_expr is wcall]
        ok = len(with_items) == 1 and with_items[0].optional_vars is not None and unparse(with_items[0].optional_vars) == unparse(writes[0].func.value)
        ctx.check("R2", ok, f"{wfq}: .write() goes to the file object opened for <record>.path", f"{wfq}: content is written to a different file object", "", loc=w.loc(writes[0]))
        # record provenance: loop over (a materialisation of) iter_rewritten(file_patterns, new_vinfo)
        if rec is not None:
            loops = [n for n in walk_no_nested(w.node) if isinstance(n, ast.For) and isinstance(n.target, ast.Name) and n.target.id == rec]
            ok = len(loops) == 1 and shapes.flows_from(w, loops[0].iter, lambda e: isinstance(e, ast.Call) and unparse(e.func) == "iter_rewritten"
                                                      and [unparse(a) for a in e.args] == w.params[:2])
            ctx.check("R4", ok, f"{wfq}: records come from iter_rewritten({', '.join(w.params[:2])})", f"{wfq}: written records do not come from iter_rewritten of the configured patterns", "", loc=w.loc())
        # reader: path, content and yield tie together
        ifq = f"{eng}.iter_rewritten"
        it = prog.function(ifq)
        ctx.visit(ifq)
        floops = [n for n in walk_no_nested(it.node) if isinstance(n, ast.For)]
        ctx.require(len(floops) == 1 and isinstance(floops[0].target, ast.Tuple), f"{ifq}: loop shape changed")
        fp = floops[0].target.elts[0].id
        ok = unparse(floops[0].iter) == f"rewrite.iter_path_patterns_items({it.params[0]})"
        ctx.check("R4", ok, f"{ifq}: iterates rewrite.iter_path_patterns_items({it.params[0]})", f"{ifq}: files are not taken from the configured file patterns", unparse(floops[0].iter), loc=it.loc())
        ropens = shapes.open_sites_through_helpers(prog, effects, it)
        ok = len(ropens) >= 1 and all(unparse(p) in (fp, f"str({fp})") for _c, _o, p, _k in ropens)
        ctx.check("R4", ok, f"{ifq}: reads `{fp}` itself", f"{ifq}: content is read from a different path than the one recorded", f"{[unparse(p) for _c, _o, p, _k in ropens]}", loc=it.loc())
        ys = [n for n in ast.walk(it.node) if isinstance(n, ast.Yield)]
        labels = shapes.record_labels(prog, it, eng)
        ok = len(ys) == 1 and len(labels) == 1 and labels[0][1] == f"str({fp})" and shapes.flows_from(it, ys[0].value, lambda e: e is labels[0][0])
        ctx.check("R4", ok, f"{ifq}: yields the record with path=str({fp})", f"{ifq}: the recorded path is not the path that was read", unparse(ys[0].value) if ys else "", loc=it.loc())

        # ---------------------------------------------------------------- R3
        rl_fq = f"{eng}.rewrite_lines"
        rlf = prog.function(rl_fq)
        ctx.visit(rl_fq)
        rets2 = [n for n in walk_no_nested(rlf.node) if isinstance(n, ast.Return) and n.value is not None]
        res = rets2[0].value.id if rets2 and isinstance(rets2[0].value, ast.Name) else None
        ctx.require(res is not None, f"{rl_fq}: result variable not found")
        stores = [n for n in walk_no_nested(rlf.node) if isinstance(n, ast.Assign) and isinstance(n.targets[0], ast.Subscript) and unparse(n.targets[0].value) == res]
        other_mut = [c for c in ast.walk(rlf.node) if isinstance(c, ast.Call) and isinstance(c.func, ast.Attribute) and unparse(c.func.value) == res
                     and c.func.attr in ("append", "insert", "pop", "remove", "extend", "sort", "reverse", "clear")]
        dels = [n for n in ast.walk(rlf.node) if isinstance(n, ast.Delete) and any(unparse(t).startswith(res) for t in n.targets)]
        ctx.check("R3", not other_mut and not dels, f"{rl_fq}: lines are never added, removed or reordered", f"{rl_fq}: the line list is restructured", f"{[unparse(c) for c in other_mut + dels]}", loc=rlf.loc())
        ctx.floor("R3", f"line stores in {rl_fq}", len(stores), 1)
        for st in stores:
            val = shapes.resolve_alias(rlf, st.value)
            parts = _flatten_add(val)
            ok = len(parts) == 3 and isinstance(parts[0], ast.Subscript) and isinstance(parts[2], ast.Subscript) \
                and isinstance(parts[0].slice, ast.Slice) and isinstance(parts[2].slice, ast.Slice) \
                and parts[0].slice.lower is None and parts[0].slice.upper is not None and parts[2].slice.upper is None and parts[2].slice.lower is not None \
                and unparse(parts[0].value) == unparse(parts[2].value)
            ctx.check("R3", ok, f"{rl_fq}: stored value is base[:l] + replacement + base[r:] on one base", f"{rl_fq}: the stored line is not a span splice of one base line",
                      unparse(val)[:90], loc=rlf.loc(st))
            if not ok:
                continue
            l_name, r_name = unparse(parts[0].slice.upper), unparse(parts[2].slice.lower)
            span_ok = _span_names(rlf, l_name, r_name)
            ctx.check("R3", span_ok, f"{rl_fq}: (l, r) = the match's span", f"{rl_fq}: splice bounds are not the match's span", f"l={l_name}, r={r_name}", loc=rlf.loc(st))
            base = shapes.resolve_alias(rlf, parts[0].value)
            idx = unparse(st.targets[0].slice)
            ok_base = (isinstance(base, ast.Subscript) and unparse(base.value) == res and unparse(base.slice) == idx) or unparse(base).endswith(".line")
            ctx.check("R3", ok_base, f"{rl_fq}: the base is the line being stored ({res}[{idx}])", f"{rl_fq}: the splice is applied to a different line than the one stored",
                      f"base `{unparse(base)}` stored at [{idx}]", loc=rlf.loc(st))
    # the function that searches the lines for one pattern: a helper of iter_matches in the pinned tree, or iter_matches itself
    ifp = prog.function("parse._iter_for_pattern") if prog.has_function("parse._iter_for_pattern") else prog.function("parse.iter_matches")
    ctx.visit(ifp.fq)
    pm = [c for c in ast.walk(ifp.node) if isinstance(c, ast.Call) and unparse(c.func) == "PatternMatch"]
    ctx.require(len(pm) == 1, f"{ifp.name}: PatternMatch constructor not found")
    from checks.c03 import line_search_fold
    folded4 = line_search_fold(ctx, ifp) if ifp.name == "_iter_for_pattern" else None
    if folded4 is not None:
        ctx.check("R3", not folded4, "_iter_for_pattern: PatternMatch(lineno, line, pattern, match.span(), ...) of the same step and search (evaluated on abstract lines)",
                  "parse._iter_for_pattern: a match is recorded with a line/span of a different line", "; ".join(folded4[:2]), loc=ifp.loc(pm[0]))
    if folded4 is None:
        lps = [n for n in walk_no_nested(ifp.node) if isinstance(n, ast.For) and unparse(n.iter).startswith("enumerate(") and any(c is pm[0] for c in ast.walk(n))]
        ctx.require(len(lps) == 1, f"{ifp.name}: line loop not found")
        lp = lps[0]
        names = [unparse(e) for e in lp.target.elts] if isinstance(lp.target, ast.Tuple) else []
        pmf = prog.klass("parse.PatternMatch").fields
        a = dict(zip(pmf, pm[0].args))
        a.update(shapes.kwargs_of(pm[0]))
        span_e = a.get("span")
        mvar = unparse(span_e.func.value) if isinstance(span_e, ast.Call) and isinstance(span_e.func, ast.Attribute) and span_e.func.attr == "span" and not span_e.args else None
        mdef = shapes.single_def(ifp, mvar) if mvar else None
        pat_e = unparse(a.get("pattern", ast.Constant(0)))
        pat_ok = pat_e == (ifp.params[1] if ifp.name == "_iter_for_pattern" else None) or any(isinstance(l_, ast.For) and unparse(l_.target) == pat_e and any(x is lp for x in ast.walk(l_))
                                                                                             for l_ in walk_no_nested(ifp.node))
        ok = len(names) == 2 and unparse(a.get("lineno", ast.Constant(0))) == names[0] and unparse(a.get("line", ast.Constant(0))) == names[1] \
            and mvar is not None and mdef is not None and unparse(mdef) == f"{pat_e}.regexp.search({names[1]})" and pat_ok
        ctx.check("R3", ok, "_iter_for_pattern: PatternMatch(lineno, line, pattern, match.span(), ...) of the same enumerate step and search",
                  "parse._iter_for_pattern: a match is recorded with a line/span of a different line", unparse(pm[0]), loc=ifp.loc(pm[0]))

    # ---------------------------------------------------------------- R4
    writes = effects.all_sites("FS_WRITE")
    owners = {s.fn.fq for s in writes}
    ctx.floor("R4", "file-writing sites in the package", len(writes), 4)
    for s in writes:
        ctx.check("R4", s.fn.fq in WRITE_WHITELIST, f"write site {s.fn.fq} L{s.node.lineno} ({s.detail.get('via')}) is whitelisted",
                  f"{s.fn.fq}: unexpected file-writing site",
                  f"`{unparse(s.node)[:80]}` writes to the file system; only {sorted(WRITE_WHITELIST)} may", loc=s.loc)
    # write_content is reachable only from init
    ip = ctx.interproc()
    callers = {c.fq for c, _n in ip.callers.get("config.write_content", [])}
    ctx.check("R4", callers == {"cli.init"}, "config.write_content is called only from cli.init", "config.write_content is called outside `init`", f"{sorted(callers)}", loc="src/bumpver/config.py")
    upd_reach = effects.reachable_functions(["cli.update", "cli.test", "cli.show", "cli.grep"])
    ctx.check("R4", "config.write_content" not in upd_reach, "config.write_content is unreachable from update/test/show/grep", "config.write_content reachable from a command other than init", "", loc="src/bumpver/config.py")
    # VCSAPI.commit writes only its own temp file
    cm = prog.function("vcs.VCSAPI.commit")
    for s in effects.sites[cm.fq]:
        if s.effect == "FS_WRITE":
            # the temporary file: whatever local holds the result of tempfile.NamedTemporaryFile(...) / mkstemp(...)
            temp_names = {unparse(tg) for _st, tg, v in shapes.iter_assigns(cm.node) if isinstance(v, ast.Call) and unparse(v.func).split(".")[-1] in ("NamedTemporaryFile", "TemporaryFile", "mkstemp")}
            temp_names |= {unparse(it.optional_vars) for w_ in ast.walk(cm.node) if isinstance(w_, ast.With) for it in w_.items
                           if it.optional_vars is not None and isinstance(it.context_expr, ast.Call) and unparse(it.context_expr.func).split(".")[-1] in ("NamedTemporaryFile", "TemporaryFile")}
            ok = bool(s.detail.get("temp")) or (s.detail.get("via") == "os.unlink" and s.node.args and any(unparse(s.node.args[0]) == f"{t_}.name" for t_ in temp_names))
            ctx.check("R4", ok, f"VCSAPI.commit L{s.node.lineno}: {s.detail.get('via')} concerns the temporary log file only", "vcs.VCSAPI.commit: writes or removes something other than its temporary file",
                      unparse(s.node), loc=s.loc)
    shapes.check_passthrough(ctx, "R4", "cli._update", "v2rewrite.rewrite_files", {"file_patterns": "cfg.file_patterns"})
    shapes.check_passthrough(ctx, "R4", "cli._update", "v1rewrite.rewrite_files", {"file_patterns": "cfg.file_patterns"})
    ipp = prog.function("rewrite.iter_path_patterns_items")
    ctx.visit(ipp.fq)
    lps = [n for n in walk_no_nested(ipp.node) if isinstance(n, ast.For)]
    ok = len(lps) == 1 and unparse(lps[0].iter) == f"{ipp.params[0]}.items()" and isinstance(lps[0].target, ast.Tuple) and len(lps[0].target.elts) == 2
    from checks.c06 import missing_file_rule
    if missing_file_rule(ctx, "R4"):
        ok = True          # evaluated: each configured key is yielded as Path(key) with its own patterns, in order
    elif ok:
        kvar, pvar = unparse(lps[0].target.elts[0]), unparse(lps[0].target.elts[1])
        ys = [y for y in ast.walk(ipp.node) if isinstance(y, ast.Yield)]
        ok = len(ys) == 1 and isinstance(ys[0].value, ast.Tuple) and len(ys[0].value.elts) == 2 and unparse(ys[0].value.elts[1]) == pvar
        if ok:
            pth = shapes.resolve_alias(ipp, ys[0].value.elts[0])
            ok = isinstance(pth, ast.Call) and unparse(pth.func).endswith("Path") and [unparse(a) for a in pth.args] == [kvar]
    ctx.check("R4", ok, "iter_path_patterns_items yields (Path(<configured path>), <its patterns>) for each configured file", "rewrite.iter_path_patterns_items: yielded path is not the configured path", "", loc=ipp.loc())
    # positive control: a stray write must be seen by the effect engine
    tmp = tempfile.mkdtemp(prefix="c04ctl")
    try:
        os.makedirs(os.path.join(tmp, "src", "bumpver"))
        with open(os.path.join(tmp, "src", "bumpver", "stray.py"), "w") as fobj:
            fobj.write("import io\nimport pathlib\n\ndef f(p):\n    with open(p, 'w') as fo:\n        fo.write('x')\n    io.open(p, mode='at')\n    pathlib.Path(p).write_text('y')\n")
        ctl = Effects(Program(tmp))
        seen = len(ctl.all_sites("FS_WRITE"))
    finally:
        shutil.rmtree(tmp, ignore_errors=True)
    ctx.require(seen == 3, f"positive control: effect engine saw {seen}/3 stray write sites")
    ctx.ok("R4", "positive control: 3/3 stray write idioms (open 'w', io.open 'at', Path.write_text) are classified as FS_WRITE")


def _flatten_add(e: ast.AST) -> T.List[ast.AST]:
    if isinstance(e, ast.BinOp) and isinstance(e.op, ast.Add):
        return _flatten_add(e.left) + _flatten_add(e.right)
    return [e]


def _span_names(fn, l_name: str, r_name: str) -> bool:
    """(l, r) are unpacked together from a span: `l, r = match.span` or a loop target `..., (l, r), ...`
    whose tuples were built with `<match>.span` in that position."""
    for n in walk_no_nested(fn.node):
        if isinstance(n, ast.Assign) and isinstance(n.targets[0], ast.Tuple) and [unparse(e) for e in n.targets[0].elts] == [l_name, r_name]:
            return unparse(n.value).endswith(".span")
        tgt_, src_ = None, None
        if isinstance(n, ast.For):
            tgt_, src_ = n.target, n.iter
        elif isinstance(n, ast.Assign) and isinstance(n.targets[0], ast.Tuple) and isinstance(n.value, ast.Subscript) and isinstance(n.value.value, ast.Name):
            tgt_, src_ = n.targets[0], n.value.value          # `lineno, (l, r), repl = items[i]`
        if tgt_ is not None:
            for pos, e in enumerate(tgt_.elts if isinstance(tgt_, ast.Tuple) else []):
                if isinstance(e, ast.Tuple) and [unparse(x) for x in e.elts] == [l_name, r_name]:
                    # find the tuples appended to the iterated list
                    src = shapes.resolve_alias(fn, src_)
                    base = None
                    for sub in ast.walk(src):
                        if isinstance(sub, ast.Name):
                            base = sub.id
                    for c in ast.walk(fn.node):
                        if isinstance(c, ast.Call) and isinstance(c.func, ast.Attribute) and c.func.attr == "append" and base and unparse(c.func.value) == base \
                                and c.args and isinstance(c.args[0], ast.Tuple) and len(c.args[0].elts) > pos:
                            return unparse(c.args[0].elts[pos]).endswith(".span")
    return False
